"""C16 — symbolic dimensions compute, print and re-parse with integer semantics (DESIGN.md 5, C16).

Correspondence (model = lean/IrVerif/Model/SymExpr.lean, driver commands sym.*):
  * expression trees built through the real `SymbolicDim` operator overloads
    (src/onnx_ir/_core.py 1484-1618; max/min through `SymbolicDim(text)`):
    real `evaluate` (complete and partial positive bindings) vs Lean `eval` / `subst` of the tree;
    on the integer fragment additionally Lean `evalInt` (Int.fdiv / Int.fmod) vs Python's own ints;
  * the `.value` text of the built dimension, model-printed text (`pp` + `render`), derivation trees
    of the documented grammar (Lean `D.flatten` / `D.sem`), grammar-directed strings and a malformed
    stream through the real parser (`parse_symbolic_expression`) and the Lean parser: accepted /
    raised, the token stream, the parse tree (compared structurally through SymPy objects built
    under `sympy.evaluate(False)`) and the values under bindings;
  * `simplify()`, `Shape.evaluate/simplify/free_symbols`;
  * the glue between Python operators and expressions (model = lean/IrVerif/Model/SymDim.lean, commands sym.ov /
    sym.dimeval / sym.shape / sym.dimeq): every generated tree is ALSO run as a program over the model's operator
    overloads (`dunder` / `rdunder` / `unop` / `binop`), the outcome kind (dimension / TypeError) is compared with the
    real build and the tree the model overloads build is compared, evaluation-equivalent under every binding, with the
    tree the proved Lean parser recovers from the REAL object's printed `.value`; `SymbolicDim.evaluate` (int vs residual
    dimension) and `Shape.evaluate / is_static / is_dynamic / free_symbols` are compared with `Dim.evaluate` / `Shape.*`;
    plus an exhaustive matrix (GlueCase): 7 binary operators x all ordered pairs of 16 operand kinds (True / False included since
    wave 4: `Operand.bool`, C16_overload_dispatch_bool), the older independent bool oracle, unary operators, the operators that
    have no overload, 14 shapes x 4 bindings, == / != / hash;
  * the tokenizer over Unicode (model = lean/IrVerif/Model/SymLexU.lean, command sym.lexu): ALL strings of length <= 3
    (thorough: 4) over a 24-character alphabet covering every character class the tokenizer distinguishes, through the
    real tokenizer / parser and the model's classification-parametric tokenizer (CPython's str predicates are supplied
    per character by the harness: external tables).  Wave 4 (BmpSweepCase, command sym.lexu_sweep): that classification is CHECKED
    on every run for all 63488 code points of the BMP - against the str predicates as `get_token` asks them and through the real
    tokenizer on four probe texts per code point - plus an independent oracle: every non-ASCII blank / decimal digit reads like
    its ASCII normalisation (`non-ascii:space:U+XXXX`, `non-ascii:digit:U+XXXX`);
  * the model of SymPy's printer (lean/IrVerif/Model/SymExprSympy.lean, command sym.sympy_pp) on every built dimension and
    (SympyTextCase, wave 4) on texts with sqrt / Rational powers / symbolic negative exponents, alone and through one real
    overload: token-exact against the real str(), hypotheses SWf / SWfX / denNZ evaluated and published, parse = surf,
    the evaluation half (C16_print_parse_sympy, C16_print_parse_sympy_symexp) re-computed per case, sden vs the real evaluate();
  * dimensions constructed from user SymPy expressions whose symbols carry OTHER assumptions than the parser's integer + positive
    (SympyDimCase: plain / integer-only / positive-only / real / nonnegative symbols, leaf-wise through the overloads, as one whole
    SymPy expression, mixed with text-built dimensions, two SymPy symbols of one name): `evaluate` (complete / partial) and
    `Shape.evaluate` vs `Dim.evaluate` of the flavour-erased program - model and library bind by NAME;
  * zero-valued subexpressions (x - x, x % 1, 0 * x, x % x, x // x - 1, x // (x + 1), min(0, x), ...) alone and inside further
    arithmetic: an intermediate SymPy reduces to Integer(0) - a falsy object - is the dimension "0".
Guards: every case runs under a CPU-time alarm of its worker (ITIMER_VIRTUAL; plus a generous wall alarm for calls that block); the
call into the real code that is in flight is marked (`_mark`), and a call that does not finish becomes a failing input
`nontermination:<channel>:<shape>` - attributed to SymPy (`sympy-upstream:nontermination:...`) only when SymPy alone, on the standard
reading of the same input, does not finish either.  After `max_timeouts` such inputs the remaining generated cases are skipped, the
pool has a wall limit (`_pmap_guarded`, for calls no handler can interrupt), an exception nobody expected while a case runs is a
correspondence disagreement with a replayable case - a changed implementation never crashes or hangs the check.
Oracle (independent of the Lean model): exact `fractions.Fraction` arithmetic over the tree, Python's
own `ast` grammar for the meaning of a string, an Earley recogniser over the documented grammar
for accept/reject.  A wrong VALUE is attributed to SymPy (known finding, signature sympy-upstream:...)
only when SymPy driven directly by the harness with the documented operations computes the same
wrong value; otherwise it is a failure of the repo's code.
"""
from __future__ import annotations

import ast
import itertools
import json
import math
import os
import re
from fractions import Fraction

from harness.common import Ctx, Part, lean_batch, load_corpus, pmap

NS = "IrVerif.SymExpr."
THEOREMS = [
    NS + "C16_parser_sound_complete",
    NS + "C16_print_parse",
    NS + "C16_print_parse_text",
    NS + "C16_fast_path",
    NS + "C16_tokenize_spec",
    NS + "C16_tokenize_render",
    NS + "C16_partial",
    NS + "C16_eval_free",
    NS + "C16_int_ops",
    NS + "C16_int_eval",
    NS + "C16_overload_sem",
    NS + "C16_overload_dispatch",
    NS + "C16_shape_evaluate",
    NS + "C16_simplify_guard",
    NS + "C16_eq_hash",
    NS + "C16_parser_total",
    NS + "C16_tokenize_classes",
    NS + "C16_print_parse_sympy_partial",
    NS + "C16_print_parse_sympy",
    NS + "C16_overload_dispatch_bool",
    NS + "C16_print_parse_sympy_symexp",
    NS + "C16_print_parse_sympy_refines",
]
ASSUMPTIONS = [
    "SymPy (construction, automatic simplification, str, subs, simplify, floor/Mod/Max arithmetic) is external: "
    "that it preserves evaluation is tested by the correspondence, not proved; where SymPy alone returns a wrong value "
    "(reproduced without repo code) the case is reported as known finding D162 instead of a violation",
    "bindings are positive integers (the parser creates symbols with positive=True, integer=True; symbols a user supplies as SymPy objects may carry "
    "any assumptions: they are bound by name all the same - family sympy-built; what SymPy's auto-simplification does under weaker assumptions "
    "is external and tested like the rest of SymPy)",
    "termination: a call into the real code that does not finish within the CPU guard (15 s quick / 40 s thorough per case; the slowest case of "
    "the unchanged tree needs 1-4 s) is reported as a failing input (nontermination:*), not proved about",
    "the theorems about text are about ASCII text; non-ASCII text goes through the same tokenizer transcribed over a character "
    "classification supplied by CPython's str.isspace/isdigit/isalpha/isalnum/isidentifier and int() (external tables; "
    "C16_tokenize_classes: with the ASCII classification it is the proved tokenizer; since wave 4 the classification the model is run with is "
    "compared on every run, for all 63488 code points of the BMP, with those predicates as get_token asks them and through the real tokenizer "
    "on four probe texts per code point; the astral planes are sampled by the generators only); int() digit limit (4300 digits) and "
    "CPython's recursion limit on deeply nested text not modelled; sqrt(a, b) (SymPy reads b as evaluate=) not modelled",
    "operator overloads: the SymPy operators they call are read by their documented meaning (Expr // is floor(a/b), Expr % is "
    "Mod, Rational(1, n) * a); a bool operand (an int for isinstance) goes down the int branches and is refused by SymPy's own operators "
    "except Rational(1, other) - modelled since wave 4 (C16_overload_dispatch_bool), compared in the glue matrix, and still checked by the older "
    "independent oracle (TypeError or the int's result); "
    "Python's operator dispatch (forward method of a left dimension, reflected method of a right one) is modelled, not verified",
    "SymbolicDim.simplify: sympy.simplify and the printability of its result are parameters of the model (C16_simplify_guard "
    "assumes simplify preserves evaluation: checked on every generated case, share published as simplify=done)",
    "values that are not finite rationals (division by zero, max()/min() of nothing, irrational powers) are "
    "outside the property: the model says 'no value' and the real result is only recorded",
    "the parser model is the repaired grammar of fix commits eb07378 / 58a57cd / 185b2f9 (D24-D26); the Python "
    "parser builds SymPy objects, the model builds syntax trees: compared through SymPy objects built without evaluation "
    "and through values",
]

SYMS = ["N", "M", "K", "L"]
BIN = ["add", "sub", "mul", "div", "fdiv", "mod", "max", "min"]
UN = ["neg", "floor", "ceil", "trunc"]
LIMIT = 10**200


class TooBig(Exception):
    pass


class SkipCase(Exception):
    pass


class CaseTimeout(Exception):
    pass


# --------------------------------------------------------------------------- reference arithmetic


def _guard(x: Fraction) -> Fraction:
    if abs(x.numerator) > LIMIT or x.denominator > LIMIT:
        raise TooBig
    return x


def ref_un(op: str, x: Fraction):
    if op == "neg":
        return -x
    if op == "floor":
        return Fraction(math.floor(x))
    if op == "ceil":
        return Fraction(math.ceil(x))
    if op == "trunc":
        return Fraction(math.trunc(x))
    if op == "abs":
        return abs(x)
    if op == "sign":
        return Fraction((x > 0) - (x < 0))
    if op == "sqrt":
        if x < 0:
            return None
        n, d = math.isqrt(x.numerator), math.isqrt(x.denominator)
        return Fraction(n, d) if n * n == x.numerator and d * d == x.denominator else None
    raise AssertionError(op)


def ref_bin(op: str, x: Fraction, y: Fraction):
    if op == "add":
        return x + y
    if op == "sub":
        return x - y
    if op == "mul":
        return x * y
    if op == "div":
        return None if y == 0 else x / y
    if op == "fdiv":
        return None if y == 0 else Fraction(x // y)
    if op == "mod":
        return None if y == 0 else x % y
    if op == "max":
        return max(x, y)
    if op == "min":
        return min(x, y)
    if op == "pow":
        if y.denominator != 1:
            return None
        k = y.numerator
        if abs(k) > 512:
            raise TooBig
        if k >= 0:
            return x**k
        return None if x == 0 else 1 / (x ** (-k))
    raise AssertionError(op)


def ref_eval(t, env):
    """Exact value of the tree under env; None = no finite rational value."""
    tag = t[0]
    if tag == "n":
        return Fraction(t[1])
    if tag == "s":
        return Fraction(env[t[1]])
    if tag == "inf":
        return None
    if tag == "u":
        x = ref_eval(t[2], env)
        return None if x is None else _g(ref_un(t[1], x))
    x, y = ref_eval(t[2], env), ref_eval(t[3], env)
    if x is None or y is None:
        return None
    return _g(ref_bin(t[1], x, y))


def _g(x):
    return None if x is None else _guard(x)


def in_int_fragment(t) -> bool:
    if t[0] in ("n", "s"):
        return True
    if t[0] == "u":
        return t[1] != "sqrt" and in_int_fragment(t[2])
    if t[0] == "b":
        return t[1] not in ("div", "pow") and in_int_fragment(t[2]) and in_int_fragment(t[3])
    return False


def py_int_eval(t, env):
    """Python's own integer arithmetic on the integer fragment (`//`, `%` of int); None = ZeroDivisionError"""
    tag = t[0]
    if tag == "n":
        return t[1]
    if tag == "s":
        return env[t[1]]
    if tag == "u":
        x = py_int_eval(t[2], env)
        if x is None:
            return None
        op = t[1]
        if abs(x) > LIMIT:
            raise TooBig
        return {"neg": lambda: -x, "floor": lambda: math.floor(x), "ceil": lambda: math.ceil(x), "trunc": lambda: math.trunc(x),
                "abs": lambda: abs(x), "sign": lambda: (x > 0) - (x < 0)}[op]()
    x, y = py_int_eval(t[2], env), py_int_eval(t[3], env)
    if x is None or y is None:
        return None
    if abs(x) > LIMIT or abs(y) > LIMIT:
        raise TooBig
    op = t[1]
    if op in ("fdiv", "mod") and y == 0:
        return None
    return {"add": lambda: x + y, "sub": lambda: x - y, "mul": lambda: x * y, "fdiv": lambda: x // y, "mod": lambda: x % y,
            "max": lambda: max(x, y), "min": lambda: min(x, y)}[op]()


def tree_syms(t, acc=None):
    acc = [] if acc is None else acc
    if t[0] == "s":
        if t[1] not in acc:
            acc.append(t[1])
    elif t[0] == "u":
        tree_syms(t[2], acc)
    elif t[0] == "b":
        tree_syms(t[2], acc)
        tree_syms(t[3], acc)
    return acc


def tree_size(t) -> int:
    if t[0] == "u":
        return 1 + tree_size(t[2])
    if t[0] == "b":
        return 1 + tree_size(t[2]) + tree_size(t[3])
    return 1


def tree_depth(t) -> int:
    if t[0] == "u":
        return 1 + tree_depth(t[2])
    if t[0] == "b":
        return 1 + max(tree_depth(t[2]), tree_depth(t[3]))
    return 0


def tree_ops(t, acc):
    if t[0] in "ub":
        acc.append(t[1])
        for s in t[2:]:
            tree_ops(s, acc)
    return acc


def fr(x):
    """canonical exact value: [num, den] or None"""
    return None if x is None else [x.numerator, x.denominator]


# --------------------------------------------------------------------------- real code


_NUM_RE = re.compile(r"-?\d+(/\d+)?")

# The call into the real code (or into SymPy on behalf of the real code) that is in flight: (channel, text, detail).  Set by the
# wrappers below right before the call and cleared when it returns; when the CPU guard of `_run_chunk` fires, what is still
# marked is the call that did not terminate (None = the harness's own oracle / blame computation was running).
_CALL = [None]
# limits of the guards; `run` / `replay` adjust them before the workers fork
_LIM = {"case_cpu": 15.0, "finish_cpu": 40.0, "case_wall": 150.0, "run_wall": 300.0, "max_timeouts": 24,
        "timeouts": None, "t_end": None, "progress": None}


def _mark(channel, text=None, detail=None):
    _CALL[0] = (channel, text, detail)


def _unmark():
    _CALL[0] = None


def _val(d):
    """text of a real dimension for a report; never raises"""
    try:
        return d._value
    except Exception:  # noqa: BLE001
        return None


def canon_real(r):
    """evaluate() result -> [num, den] | None (not a finite rational) | ('symbolic', text)"""
    import onnx_ir as ir

    if isinstance(r, bool):
        return ("symbolic", repr(r))
    if isinstance(r, int):
        return [r, 1]
    if isinstance(r, ir.SymbolicDim):
        v = r.value
        if v is None:
            return ("symbolic", None)
        if _NUM_RE.fullmatch(v):
            f = Fraction(v)
            return [f.numerator, f.denominator]
        if v in ("zoo", "nan", "oo", "-oo"):
            return None
        return ("symbolic", v)
    return ("symbolic", repr(r))


def real_eval(d, env):
    """-> canonical value; 'zerodiv' / 'raised:<type>' when the real code raises (only legitimate
    where the exact value is undefined, e.g. SymPy refuses Max(nan, ...))"""
    _mark("evaluate", _val(d), env)
    try:
        r = canon_real(d.evaluate(env))
    except ZeroDivisionError:
        r = "zerodiv"
    except (CaseTimeout, MemoryError, RecursionError):
        raise
    except Exception as e:  # noqa: BLE001
        r = "raised:" + type(e).__name__
    _unmark()
    return r


_EVAL_CACHE: dict = {}


def cached_eval(d, env, tag=""):
    """real evaluate(), memoised per worker on (how the dimension was obtained, its text, the binding):
    the exhaustive scope builds the same SymPy expression from many different trees"""
    key = (tag, d.value, tuple(sorted(env.items())))
    r = _EVAL_CACHE.get(key)
    if r is None:
        if len(_EVAL_CACHE) > 200000:
            _EVAL_CACHE.clear()
        r = _EVAL_CACHE[key] = real_eval(d, env)
    return r


def canon_hash_int(obj) -> int:
    import hashlib

    return int(hashlib.sha1(json.dumps(obj, sort_keys=True).encode()).hexdigest()[:8], 16)


INFRA_EXC = (CaseTimeout, MemoryError, RecursionError, SkipCase)


def attempt(fn):
    """('ok', value) | ('exc', 'zerodiv' | 'raised:<type>') for a call into the real code"""
    try:
        r = ("ok", fn())
    except INFRA_EXC:
        raise
    except ZeroDivisionError:
        r = ("exc", "zerodiv")
    except Exception as e:  # noqa: BLE001
        r = ("exc", "raised:" + type(e).__name__)
    _unmark()
    return r


def txt(x) -> str:
    return str(x) if isinstance(x, int) else x.value


def build(t):
    """The tree through the real operator overloads.  Leaves: int / SymbolicDim(name)."""
    import onnx_ir as ir

    tag = t[0]
    if tag == "n":
        return t[1]
    if tag == "s":
        if len(t) > 2 and t[2] != "text":
            # a dimension constructed from a user SymPy expression (documented constructor input): a symbol of that
            # name with OTHER assumptions than the parser's integer + positive
            return ir.SymbolicDim(flavored_symbol(t[1], t[2]))
        return ir.SymbolicDim(t[1])
    if tag == "u":
        a = build(t[2])
        op = t[1]
        if op == "neg":
            return -a
        if op == "floor":
            return math.floor(a)
        if op == "ceil":
            return math.ceil(a)
        if op == "trunc":
            return math.trunc(a)
        raise AssertionError(op)
    a, b = build(t[2]), build(t[3])
    op = t[1]
    if op == "add":
        return a + b
    if op == "sub":
        return a - b
    if op == "mul":
        return a * b
    if op == "div":
        return a / b
    if op == "fdiv":
        return a // b
    if op == "mod":
        return a % b
    if op in ("max", "min"):
        # SymbolicDim(text) followed by arithmetic: max/min exist only in the text form
        return ir.SymbolicDim(f"{op}({txt(a)}, {txt(b)})")
    raise AssertionError(op)


# SymPy identifies a symbol by name AND assumptions; the library identifies a dimension symbol by its NAME (evaluate, free_symbols,
# the text).  Leaf ("s", name, flavor): the symbol as a user may hand it to SymbolicDim(<SymPy expression>).
FLAVORS = {
    "text": {"integer": True, "positive": True},  # SymbolicDim(name): the symbol the parser creates
    "plain": {},
    "int": {"integer": True},
    "pos": {"positive": True},
    "real": {"real": True},
    "nonneg": {"integer": True, "nonnegative": True},
    "intpos": {"integer": True, "positive": True},  # the parser's own symbol, but supplied as a SymPy object
}


def flavored_symbol(name, flavor):
    import sympy

    return sympy.Symbol(name, **FLAVORS[flavor])


def strip_flavors(t):
    """the tree with plain ("s", name) leaves: what the by-NAME model sees"""
    if t[0] == "s":
        return ("s", t[1])
    if t[0] == "u":
        return ("u", t[1], strip_flavors(t[2]))
    if t[0] == "b":
        return ("b", t[1], strip_flavors(t[2]), strip_flavors(t[3]))
    return t


def leaf_flavors(t, acc=None):
    acc = [] if acc is None else acc
    if t[0] == "s":
        acc.append(t[2] if len(t) > 2 else "text")
    elif t[0] in "ub":
        for x in t[2:]:
            leaf_flavors(x, acc)
    return acc


def build_flavored(t, mode):
    """A dimension from user SymPy objects.  mode 'leaf': every symbol leaf is SymbolicDim(<Symbol with the leaf's assumptions>) (or
    SymbolicDim(name) for flavor 'text') and the operators are the real overloads; 'whole': SymbolicDim(<the SymPy expression of the
    whole tree>); 'mixed': the root's left operand is built whole, its right operand leaf by leaf, the root is the real overload."""
    import onnx_ir as ir
    import sympy

    def whole(x):
        if x[0] == "n":
            return x[1]
        return ir.SymbolicDim(sympy.sympify(sympy_ref_of_tree(x)))

    if mode == "leaf":
        return build(t)
    if mode == "whole" or t[0] != "b" or t[1] in ("max", "min"):
        return whole(t)
    a, b = whole(t[2]), build(t[3])
    if isinstance(a, int) and isinstance(b, int):
        return whole(t)
    import operator

    return getattr(operator, PYOP[t[1]])(a, b)


PYOP = {"add": "add", "sub": "sub", "mul": "mul", "div": "truediv", "fdiv": "floordiv", "mod": "mod"}


def prog_of_tree(t):
    """The tree as a program over the model's operator overloads (driver command sym.ov): exactly the
    calls `build` makes on the real objects."""
    if t[0] == "n":
        return ["int", t[1]]
    if t[0] == "s":
        return ["dim", t[1]]
    if t[0] == "u":
        return ["u", t[1], prog_of_tree(t[2])]
    if t[1] in ("max", "min"):
        return ["lat", t[1], prog_of_tree(t[2]), prog_of_tree(t[3])]
    return ["b", PYOP[t[1]], prog_of_tree(t[2]), prog_of_tree(t[3])]


def shape_obs(shp):
    """what is observable of a real Shape without evaluating anything"""
    n = len(shp)
    return {"static": shp.is_static(), "dynamic": shp.is_dynamic(), "static_at": [shp.is_static(i) for i in range(n)],
            "dynamic_at": [shp.is_dynamic(i) for i in range(n)], "free": sorted(shp.free_symbols())}


def canon_text(v):
    """canonical value of a dimension text: [num, den] for a number, None for zoo / nan / oo, else symbolic"""
    if v is not None and _NUM_RE.fullmatch(v):
        f = Fraction(v)
        return [f.numerator, f.denominator]
    if v in ("zoo", "nan", "oo", "-oo"):
        return None
    return ("symbolic", v)


def sdim_obs(x):
    import onnx_ir as ir

    if isinstance(x, int) and not isinstance(x, bool):
        return {"kind": "int", "z": x}
    if isinstance(x, ir.SymbolicDim):
        return {"kind": "unknown"} if x.value is None else {"kind": "dim", "text": x.value}
    return {"kind": "other", "repr": repr(x)}


def sympy_of_tree(t):
    """The SymPy object the real parser's own operations give for a parse tree (used under
    sympy.evaluate(False) to compare parse trees structurally)."""
    import sympy

    tag = t[0]
    if tag == "n":
        return sympy.Integer(t[1])
    if tag == "s":
        return sympy.Symbol(t[1], integer=True, positive=True)
    if tag == "inf":
        return sympy.Max() if t[1] else sympy.Min()
    if tag == "u":
        a = sympy_of_tree(t[2])
        return {
            "neg": lambda: -a,
            "floor": lambda: sympy.floor(a),
            "ceil": lambda: sympy.ceiling(a),
            "abs": lambda: sympy.Abs(a),
            "sign": lambda: sympy.sign(a),
            "sqrt": lambda: sympy.sqrt(a),
        }[t[1]]()
    op = t[1]
    if op in ("max", "min"):
        # the model folds max(a, b, c) to max(max(a, b), c): flatten the left spine again
        args = []
        cur = t
        while cur[0] == "b" and cur[1] == op:
            args.append(cur[3])
            cur = cur[2]
        args.append(cur)
        args = [sympy_of_tree(x) for x in reversed(args)]
        cls = sympy.Max if op == "max" else sympy.Min
        try:
            return cls(*args)
        except TypeError:
            # without evaluation SymPy cannot sort three or more arguments when one is an infinity ("cannot determine truth value of
            # Relational: oo < 2" for max(max(2, 64), min())); two at a time works, and struct_sig flattens nested Max / Min anyway
            cur = args[0]
            for a in args[1:]:
                cur = cls(cur, a)
            return cur
    a, b = sympy_of_tree(t[2]), sympy_of_tree(t[3])
    return {
        "add": lambda: a + b,
        "sub": lambda: a - b,
        "mul": lambda: a * b,
        "div": lambda: a / b,
        "fdiv": lambda: sympy.floor(a / b),
        "mod": lambda: sympy.Mod(a, b),
        "pow": lambda: a**b,
    }[op]()


_PARSER_MSG = ("Unexpected character", "Expected ", "Unexpected token", "Unexpected end of expression", "Unknown function")


def real_parse_outcome(s: str):
    """('ok', dim) | ('raised', kind): the parser rejects the text (its own ValueError, or SymPy's
    TypeError for a wrong number of arguments) | ('arith', kind): SymPy refused to build a value while
    the text was being parsed (ZeroDivisionError for `x % 0`, ValueError for Max(nan, ...))"""
    import onnx_ir as ir

    _mark("parse", s)
    r = _real_parse_outcome(s)  # an INFRA_EXC (the CPU guard) leaves the mark in place
    _unmark()
    return r


def _real_parse_outcome(s):
    import onnx_ir as ir

    try:
        d = ir.SymbolicDim(s)
        d.free_symbols()  # forces the lazy parse
        return ("ok", d)
    except INFRA_EXC:
        raise
    except ZeroDivisionError as e:
        return ("arith", type(e).__name__)
    except AssertionError:
        # an assertion inside SymPy's assumption machinery (or, were it the repo's, inside the parser): see assert_fail
        return ("sympy-assert", "AssertionError")
    except ValueError as e:
        if str(e).startswith(_PARSER_MSG):
            return ("raised", "ValueError")
        return ("arith", "ValueError:" + str(e)[:60])
    except TypeError as e:
        # SymPy's arity check ("floor takes exactly 1 argument (2 given)") rejects the text; any other
        # TypeError is SymPy refusing an operand outside the reals (Mod of sqrt(-1), ...)
        if "takes" in str(e) and "argument" in str(e):
            return ("raised", "TypeError")
        return ("arith", "TypeError:" + str(e)[:60])
    except Exception as e:  # noqa: BLE001
        return ("raised", type(e).__name__)


def struct_sig(e) -> str:
    """Structural signature of a SymPy object built without evaluation: nested Max/Min are flattened
    (the model folds `max(a, b, c)` to `max(max(a, b), c)`), arguments of commutative nodes sorted."""
    import sympy

    if not e.args:
        return sympy.srepr(e)
    name = type(e).__name__
    args = list(e.args)
    if isinstance(e, (sympy.Max, sympy.Min)):
        flat, todo = [], args
        while todo:
            a = todo.pop()
            if isinstance(a, type(e)):
                todo.extend(a.args)
            else:
                flat.append(a)
        # LatticeOp arguments are a set (duplicates collapse even without evaluation)
        return name + "(" + ",".join(sorted({struct_sig(a) for a in flat})) + ")"
    sigs = [struct_sig(a) for a in args]
    if isinstance(e, (sympy.Add, sympy.Mul)):
        sigs.sort()
    return name + "(" + ",".join(sigs) + ")"


def real_parse_structure(s: str):
    import sympy
    from onnx_ir._symbolic_shapes import parse_symbolic_expression

    _mark("parse-unevaluated", s)
    try:
        with sympy.evaluate(False):
            r = struct_sig(parse_symbolic_expression(s))
    except INFRA_EXC:
        raise
    except Exception as e:  # noqa: BLE001
        r = "raised:" + type(e).__name__
    _unmark()
    return r


def model_structure(tree):
    import sympy

    try:
        with sympy.evaluate(False):
            return struct_sig(sympy_of_tree(tree))
    except INFRA_EXC:
        raise
    except Exception as e:  # noqa: BLE001
        return "raised:" + type(e).__name__


# --------------------------------------------------------------------------- independent grammar oracle

TOK_RE = re.compile(r"\s*(?:(\d+)|([A-Za-z_][A-Za-z0-9_.]*)|(//|\*\*|[-+*/%(),]))")
WS = " \t\n\r\x0b\x0c\x1c\x1d\x1e\x1f"
FN1 = {"floor", "ceiling", "Abs", "sign", "sqrt"}
FN2 = {"mod", "Mod"}
FNN = {"max", "Max", "min", "Min"}


def lex(s: str):
    """Independent tokenizer (regex).  None = not tokenizable."""
    pos, out = 0, []
    while True:
        while pos < len(s) and s[pos] in WS:
            pos += 1
        if pos >= len(s):
            return out
        m = TOK_RE.match(s, pos)
        if not m or m.end() == pos:
            return None
        # TOK_RE's \s* must not skip characters str.isspace() rejects (none in ASCII beyond WS)
        if m.group(1) is not None:
            out.append(("num", m.group(1)))
        elif m.group(2) is not None:
            out.append(("id", m.group(2)))
        else:
            out.append((m.group(3), m.group(3)))
        pos = m.end()


# documented grammar (repaired), as data for the Earley recogniser
GRAMMAR = {
    "expr": [["term"], ["expr", "+", "term"], ["expr", "-", "term"]],
    "term": [["unary"], ["term", "*", "unary"], ["term", "/", "unary"], ["term", "//", "unary"], ["term", "%", "unary"]],
    "unary": [["-", "unary"], ["power"]],
    "power": [["primary"], ["primary", "**", "unary"]],
    "primary": [
        ["num"],
        ["id"],
        ["(", "expr", ")"],
        ["fn1", "(", "expr", ")"],
        ["fn2", "(", "expr", ",", "expr", ")"],
        ["fnn", "(", ")"],
        ["fnn", "(", "args", ")"],
    ],
    "args": [["expr"], ["args", ",", "expr"]],
}


def _term_match(sym: str, tok) -> bool:
    kind, text = tok
    if sym == "num":
        return kind == "num"
    if sym == "id":
        return kind == "id"
    if sym == "fn1":
        return kind == "id" and text in FN1
    if sym == "fn2":
        return kind == "id" and text in FN2
    if sym == "fnn":
        return kind == "id" and text in FNN
    return kind == sym


def earley(tokens) -> bool:
    """Does `expr` derive exactly `tokens`?  Plain Earley recogniser (no nullable rules)."""
    n = len(tokens)
    chart = [set() for _ in range(n + 1)]
    for i, rhs in enumerate(GRAMMAR["expr"]):
        chart[0].add(("expr", i, 0, 0))
    for k in range(n + 1):
        work = list(chart[k])
        while work:
            lhs, ri, dot, origin = work.pop()
            rhs = GRAMMAR[lhs][ri]
            if dot < len(rhs):
                sym = rhs[dot]
                if sym in GRAMMAR:
                    for j in range(len(GRAMMAR[sym])):
                        it = (sym, j, 0, k)
                        if it not in chart[k]:
                            chart[k].add(it)
                            work.append(it)
                elif k < n and _term_match(sym, tokens[k]):
                    chart[k + 1].add((lhs, ri, dot + 1, origin))
            else:
                for l2, r2, d2, o2 in list(chart[origin]):
                    rhs2 = GRAMMAR[l2][r2]
                    if d2 < len(rhs2) and rhs2[d2] == lhs:
                        it = (l2, r2, d2 + 1, o2)
                        if it not in chart[k]:
                            chart[k].add(it)
                            work.append(it)
    return any(l == "expr" and o == 0 and d == len(GRAMMAR["expr"][r]) for (l, r, d, o) in chart[n])


def in_grammar(s: str) -> bool:
    if s.isidentifier():
        return True
    toks = lex(s)
    if toks is None:
        return False
    # an IDENT directly followed by '(' is a call and must name a table function: the productions
    # for plain identifiers would otherwise accept `N (1)`-like prefixes only inside longer
    # sentences, which the grammar does not contain (no primary is ever followed by '(')
    return earley(toks)


def pow_safe(s: str, envs=()) -> bool:
    """So that neither SymPy (which evaluates literals while parsing) nor the exact oracle ever
    computes an astronomically large power.  When Python can read the text, the exact guarded
    evaluation decides; otherwise a static bound (identifiers are bound to 1..3)."""
    if "**" not in s:
        return True
    toks = lex(s)
    if toks is not None:
        t = py_tree(s)
        if t is not None:
            names = {x for k, x in toks if k == "id"}
            try:
                for env in list(envs) + [{n: 3 for n in names}]:
                    try:
                        ref_eval(t, env)
                    except KeyError:
                        pass
                return True
            except TooBig:
                return False
    if toks is None:
        toks = [("num", m) if m.isdigit() else ("id", m) if m[0].isalpha() or m[0] == "_" else (m, m)
                for m in re.findall(r"\d+|[A-Za-z_][A-Za-z0-9_.]*|\*\*|.", s)]
    # Python cannot read the text (malformed stream), so it is never evaluated under bindings unless
    # the real parser accepts it anyway; what can blow up is SymPy folding LITERAL powers while it
    # parses.  Bound every exponent whose operand contains no identifier.
    def group(i):
        """token span of the unary operand starting at i: '-'* then a number / identifier / bracketed group"""
        while i < len(toks) and toks[i][0] == "-":
            i += 1
        j = i
        if j < len(toks) and toks[j][0] == "id" and j + 1 < len(toks) and toks[j + 1][0] == "(":
            j += 1
        if j < len(toks) and toks[j][0] == "(":
            depth = 0
            while j < len(toks):
                depth += toks[j][0] == "("
                depth -= toks[j][0] == ")"
                j += 1
                if depth == 0:
                    break
            return toks[i:j]
        return toks[i : j + 1]

    npow = 0
    for i, (k, _) in enumerate(toks):
        if k != "**":
            continue
        npow += 1
        g = group(i + 1)
        # a tower a ** b ** c: the exponent of this `**` continues through the next one
        j = i + 1 + len(g)
        while j < len(toks) and toks[j][0] == "**":
            g2 = group(j + 1)
            g = g + [("**", "**")] + g2
            j += 1 + len(g2)
        nums = [int(t) for kk, t in g if kk == "num"]
        if any(kk == "id" for kk, _ in g) and not any(kk == "**" for kk, _ in g):
            continue  # symbolic exponent: stays symbolic while parsing
        inner_pows = sum(1 for kk, _ in g if kk == "**")
        prod = 1
        for n in nums:
            prod *= max(2, n)
        if inner_pows == 0:
            if prod > 4096:
                return False
        elif inner_pows == 1:
            if len(nums) + sum(1 for kk, _ in g if kk == "id") > 3 or any(n > 4 for n in nums):
                return False
        else:
            return False
    return npow <= 12


def has_sqrt2(s: str) -> bool:
    """a `sqrt(` call with more than one top-level argument (SymPy reads the second as evaluate=)"""
    toks = lex(s)
    if toks is None:
        return False
    for i, (kind, text) in enumerate(toks):
        if kind == "id" and text == "sqrt" and i + 1 < len(toks) and toks[i + 1][0] == "(":
            depth = 0
            for k2, _ in toks[i + 1 :]:
                if k2 == "(":
                    depth += 1
                elif k2 == ")":
                    depth -= 1
                    if depth == 0:
                        break
                elif k2 == "," and depth == 1:
                    return True
    return False


# --- Python's own grammar as the reference meaning of a string ---------------------------------


def py_parse(s: str):
    """(ast, {mangled name: identifier}) by Python's own grammar, or None.  Every identifier that
    is not in call position is renamed (dotted names, Python keywords such as None / lambda)."""
    toks = lex(s)
    if toks is None:
        return None
    out, names = [], {}
    for i, (kind, text) in enumerate(toks):
        if kind == "num":
            out.append(str(int(text)))
        elif kind == "id":
            if i + 1 < len(toks) and toks[i + 1][0] == "(":
                out.append(text if text in (FN1 | FN2 | FNN) else "unknown_function__")
            else:
                out.append(names.setdefault(text, f"v{len(names)}_"))
        else:
            out.append(text)
    try:
        node = ast.parse(" ".join(out), mode="eval")
    except (SyntaxError, ValueError, MemoryError, RecursionError):
        return None
    return node, {v: k for k, v in names.items()}


_AST_BIN = {ast.Add: "add", ast.Sub: "sub", ast.Mult: "mul", ast.Div: "div",
            ast.FloorDiv: "fdiv", ast.Mod: "mod", ast.Pow: "pow"}
_FN1_OP = {"floor": "floor", "ceiling": "ceil", "Abs": "abs", "sign": "sign", "sqrt": "sqrt"}


def ast_tree(node, back):
    """Python AST -> expression tree in the model's JSON form (independent reading of the text);
    ValueError when the text uses something outside the documented grammar."""
    if isinstance(node, ast.Expression):
        return ast_tree(node.body, back)
    if isinstance(node, ast.Constant) and isinstance(node.value, int) and not isinstance(node.value, bool):
        return ("n", node.value)
    if isinstance(node, ast.Name) and node.id in back:
        return ("s", back[node.id])
    if isinstance(node, ast.UnaryOp) and isinstance(node.op, ast.USub):
        return ("u", "neg", ast_tree(node.operand, back))
    if isinstance(node, ast.BinOp) and type(node.op) in _AST_BIN:
        return ("b", _AST_BIN[type(node.op)], ast_tree(node.left, back), ast_tree(node.right, back))
    if isinstance(node, ast.Call) and isinstance(node.func, ast.Name) and not node.keywords:
        name = node.func.id
        args = [ast_tree(a, back) for a in node.args]
        if name in FNN:
            op = name.lower()
            if not args:
                return ("inf", op == "max")
            cur = args[0]
            for a in args[1:]:
                cur = ("b", op, cur, a)
            return cur
        if name in FN2 and len(args) == 2:
            return ("b", "mod", args[0], args[1])
        if name in FN1 and len(args) == 1:
            return ("u", _FN1_OP[name], args[0])
    raise ValueError("outside the documented grammar")


def py_tree(s: str):
    """the expression tree Python's grammar reads in `s`, or None"""
    r = py_parse(s)
    if r is None:
        return None
    try:
        return ast_tree(r[0], r[1])
    except (ValueError, RecursionError):
        return None


def py_meaning(s: str, envs):
    """[value per env] by Python's grammar, or None when Python's reading is not available"""
    t = py_tree(s)
    if t is None:
        return None
    try:
        return [fr(ref_eval(t, env)) for env in envs]
    except KeyError:
        return None


# --- who is to blame for a wrong value: the repo or SymPy's own arithmetic? -----------------------


def sympy_ref_of_tree(t):
    """The SymPy expression the documented operations give for a tree, built directly (normal
    evaluation): what `SymbolicDim` arithmetic is a thin wrapper of."""
    import sympy

    tag = t[0]
    if tag == "n":
        return sympy.Integer(t[1])
    if tag == "s":
        return sympy.Symbol(t[1], **FLAVORS[t[2] if len(t) > 2 else "text"])
    if tag == "inf":
        return sympy.Max() if t[1] else sympy.Min()
    if tag == "u":
        a = sympy_ref_of_tree(t[2])
        op = t[1]
        if op == "neg":
            return -a
        if op == "floor":
            return sympy.floor(a)
        if op == "ceil":
            return sympy.ceiling(a)
        if op == "trunc":
            return sympy.sign(a) * sympy.floor(sympy.Abs(a))
        if op == "abs":
            return sympy.Abs(a)
        if op == "sign":
            return sympy.sign(a)
        if op == "sqrt":
            return sympy.sqrt(a)
        raise AssertionError(op)
    a, b = sympy_ref_of_tree(t[2]), sympy_ref_of_tree(t[3])
    op = t[1]
    if op == "add":
        return a + b
    if op == "sub":
        return a - b
    if op == "mul":
        return a * b
    if op == "div":
        return a / b
    if op == "fdiv":
        return sympy.floor(a / b)
    if op == "mod":
        return sympy.Mod(a, b)
    if op == "pow":
        return a**b
    if op == "max":
        return sympy.Max(a, b)
    if op == "min":
        return sympy.Min(a, b)
    raise AssertionError(op)


def sympy_direct_value(t, *envs, simplify=False):
    """value of the tree computed by SymPy alone (construction, optional simplify, one subs per
    env in turn), canonicalised like `canon_real`; 'exc' when SymPy raises"""
    import sympy

    try:
        r = sympy_ref_of_tree(t)
        if simplify:
            r = sympy.simplify(r)
        for env in envs:
            r = r.subs({sym: env[str(sym)] for sym in r.free_symbols if str(sym) in env})
        if r.is_number and r.is_integer:
            return [int(r), 1]
        if isinstance(r, sympy.Rational):
            return [int(r.p), int(r.q)]
        if r in (sympy.zoo, sympy.nan, sympy.oo, -sympy.oo):
            return None
        return ("symbolic", str(r))
    except (CaseTimeout, MemoryError, SkipCase):
        raise
    except ZeroDivisionError:
        return "zerodiv"
    except RecursionError:
        return "exc"
    except Exception as e:  # noqa: BLE001
        return "raised:" + type(e).__name__


def _subtrees(t):
    """all subtrees, children before parents"""
    if t[0] == "u":
        yield from _subtrees(t[2])
    elif t[0] == "b":
        yield from _subtrees(t[2])
        yield from _subtrees(t[3])
    yield t


def _has(t, pred) -> bool:
    return any(pred(x) for x in _subtrees(t))


def _is_lattice(x) -> bool:
    return x[0] == "b" and x[1] in ("max", "min")


def _is_sym_pow(x) -> bool:
    """a power whose exponent is not a plain non-negative literal"""
    return x[0] == "b" and x[1] == "pow" and not (x[3][0] == "n" and x[3][1] >= 0)


def _is_quotient_with_lattice(x) -> bool:
    return x[0] == "b" and x[1] in ("div", "fdiv", "mod") and (_has(x[2], _is_lattice) or _has(x[3], _is_lattice))


def _is_mod_of_product_with_mod(x) -> bool:
    """a % or // (or floor of a quotient) whose dividend contains a product with a % / // inside"""
    if x[0] == "b" and x[1] in ("mod", "fdiv"):
        dividend = x[2]
    elif x[0] == "u" and x[1] in ("floor", "ceil") and x[2][0] == "b" and x[2][1] == "div":
        dividend = x[2][2]
    else:
        return False
    # trunc(x) IS a product: sign(x) * floor(Abs(x))
    return _has(dividend, lambda y: ((y[0] == "b" and y[1] == "mul") or (y[0] == "u" and y[1] == "trunc"))
                and _has(y, lambda z: z[0] == "b" and z[1] in ("mod", "fdiv")))


def _den_factors(x):
    """non-literal factors of the flattened denominator of a chain of true quotients: K / M / (N * 4) -> [M, N]"""
    def factors(y):
        if y[0] == "n":
            return []
        if y[0] == "u" and y[1] == "neg":
            return factors(y[2])
        if y[0] == "b" and y[1] == "mul":
            return factors(y[2]) + factors(y[3])
        if y[0] == "b" and y[1] == "div":
            return factors(y[2])
        return [y]

    def neg_exponent(e):
        return (e[0] == "n" and e[1] < 0) or (e[0] == "u" and e[1] == "neg")

    if x[0] == "b" and x[1] == "pow" and neg_exponent(x[3]):
        return factors(x[2])  # b ** -e sits in the denominator
    if x[0] == "u" and x[1] == "neg":
        return _den_factors(x[2])
    if x[0] == "b" and x[1] == "mul":
        return _den_factors(x[2]) + _den_factors(x[3])
    if x[0] == "b" and x[1] == "div":
        return _den_factors(x[2]) + factors(x[3])
    return []


def _is_product_quotient(x) -> bool:
    """a true quotient whose denominator is a product of at least two non-literal factors"""
    return x[0] == "b" and x[1] == "div" and len(_den_factors(x)) >= 2


def _is_floor_of_lattice_quotient(x) -> bool:
    """a // or % (or floor / ceiling / trunc of a true quotient) whose dividend contains a Max / Min / Abs"""
    if x[0] == "b" and x[1] in ("fdiv", "mod"):
        dividend = x[2]
    elif x[0] == "u" and x[1] in ("floor", "ceil", "trunc") and x[2][0] == "b" and x[2][1] == "div":
        dividend = x[2][2]
    else:
        return False
    return _has(dividend, lambda y: _is_lattice(y) or (y[0] == "u" and y[1] == "abs"))


def _is_sign_consumer(x) -> bool:
    """an operation SymPy evaluates by deciding the sign of `number - operand`: Max, Min, %, //, floor, ceiling, Abs, sign, trunc"""
    return (x[0] == "b" and x[1] in ("max", "min", "mod", "fdiv")) or (x[0] == "u" and x[1] in ("floor", "ceil", "abs", "sign", "trunc"))


def sympy_assert_locus(t):
    """smallest subtree whose construction with SymPy ALONE raises AssertionError, or None"""
    if t is None:
        return None
    for x in _subtrees(t):
        try:
            sympy_ref_of_tree(x)
        except AssertionError:
            return x
        except INFRA_EXC:
            raise
        except Exception:  # noqa: BLE001
            pass
    return None


def assert_fail(P, channel: str, s: str, case, fallback_sig: str):
    """The real parser died with an AssertionError while building SymPy objects for the text `s`.  Upstream (signature
    `sympy-upstream:construction-assertion:<channel>:<ops>`) only when SymPy ALONE, building the standard reading of the text
    with the documented operations, raises AssertionError too - the signature names the operators of the smallest
    such subtree; otherwise it is the repo's parser that fails (`fallback_sig`)."""
    try:
        loc = sympy_assert_locus(py_tree(s))
    except (TooBig, RecursionError):
        loc = None
    if loc is None:
        P.fail(fallback_sig, f"text {s!r} makes the parser raise AssertionError; SymPy alone builds the same expression without", case)
        return
    P.count("sympy_upstream=construction-assertion:" + channel)
    P.fail(f"sympy-upstream:construction-assertion:{channel}:{ops_sig(loc)}",
           f"parsing {s[:200]!r} raises AssertionError inside SymPy; SymPy alone raises it for the subtree {json.dumps(loc)[:300]} [e.g. sympy.Mod(2, sympy.Rational(1, 4)**(-K))]", case)


def sympy_defect_locus(t, env):
    """smallest subtree whose value SymPy alone (construction + subs) gets wrong under env; the
    whole tree when every subtree is right in isolation (order-of-substitution / simplify effects)"""
    for x in _subtrees(t):
        try:
            want = ref_eval(x, env)
        except (TooBig, KeyError):
            continue
        if want is not None and sympy_direct_value(x, env) != fr(want):
            return x
    return t


def sympy_defect_class(t, env) -> str:
    """Known upstream SymPy 1.14 defect classes, each reproduced with SymPy alone:
      Mod-of-power           Mod(2**M, 6) == 0 (gcd extraction in Mod.eval); also through floor(x/c), which
                             SymPy rewrites with Mod: a power with a non-literal exponent under % // floor ceiling
      Mod-of-product-with-Mod  Mod(Mod(b, 7)*d, 8) becomes Mod(d*Mod(b, 7)**2, 8) (the inner Mod is squared): a % or //
                             whose dividend contains a product (or a trunc, which is the product sign(x)*floor(Abs(x))) with a % or // inside
      lattice-over-quotient  Max(3, 3/Max(x, z)) == 3/Max(x, z), Min(1, Max(a, b)/5) == 1: a Max/Min that has an operand
                             containing a quotient of / by a Max/Min
      product-quotient-sign  (7/(M*N) - 2).is_positive is True for positive INTEGER symbols M, N (None for merely positive ones): a number
                             minus c/(product of >= 2 integer symbols) is taken to be positive whenever c exceeds the number, so
                             Max(7, 10/(M*N)) == 10/(M*N), Min(7, 10/(M*N)) == 7, Mod(2, 7/(M*N)) == 2, Mod(2, -7/(K*M*N)) == 2 - 7/(K*M*N),
                             Abs(1 - 1/(a*b)) == 1/(a*b) - 1 (negative!): a Max / Min / % / // / floor / ceiling / Abs / sign / trunc over a true
                             quotient whose denominator (negative powers included) has >= 2 non-literal factors
      even-quotient-integrality  (e/6).is_integer is True for an EVEN expression e that is not a product (an even symbol, Max(6, 2*N),
                             Min(6, 2*N), Abs(2*N - 8)) and a denominator 2*odd (6, 10; None for 4), so floor(Max(6, 2*N)/6) == Max(6, 2*N)/6
                             (the floor is dropped at construction, or in the middle of evaluate's symbol-by-symbol subs when the denominator
                             becomes such a literal): a // / floor / ceiling / trunc / % whose dividend contains a Max / Min / Abs (D443, wave 4)
    anything else is 'unclassified' and is NOT covered by a known finding."""
    locus = sympy_defect_locus(t, env)
    if _has(locus, _is_sym_pow) and _has(locus, lambda x: x[0] in "ub" and x[1] in ("mod", "fdiv", "floor", "ceil")):
        return "Mod-of-power"
    if _has(locus, _is_mod_of_product_with_mod):
        return "Mod-of-product-with-Mod"
    if _has(locus, lambda x: _is_lattice(x) and _has(x, _is_quotient_with_lattice)):
        return "lattice-over-quotient"
    if _has(locus, lambda x: _is_sign_consumer(x) and _has(x, _is_product_quotient)):
        return "product-quotient-sign"
    if _has(locus, _is_floor_of_lattice_quotient):
        return "even-quotient-integrality"
    return "unclassified"


def _blame(got, cands, simplify=False):
    """(tree, merged env) of the first reading for which SymPy alone computes the same wrong value"""
    for c in cands:
        t, *envs = c
        if t is not None and sympy_direct_value(t, *envs, simplify=simplify) == got:
            env = {}
            for e in envs:
                env.update(e)
            return t, env
    return None


def vfail(P, sig, what, case, got, *cands, simplify=False):
    """A wrong VALUE on the real code.  When SymPy alone, driven with the documented operations,
    computes the same wrong value, the signature names the SymPy defect class, the channel and the
    operator set: `sympy-upstream:<class>:<channel>:<ops>`.  Only the classes listed in
    known_findings.json are known findings; `unclassified` (and every value SymPy alone gets right)
    is a violation."""
    b = _blame(got, cands, simplify)
    if b is None:
        P.fail(sig, what, case)
        return
    t, env = b
    cls = sympy_defect_class(t, env)
    P.count("sympy_upstream=" + cls + ":" + sig.split(":")[0])
    P.fail(f"sympy-upstream:{cls}:{sig.split(':')[0]}:{ops_sig(t)}", what + " [SymPy alone computes the same wrong value]", case)


def vdisagree(P, what, case, model, impl, got, *cands):
    b = _blame(got, cands)
    if b is not None and sympy_defect_class(*b) != "unclassified":
        P.count("value_disagreement_blamed_on_known_sympy_defect")
    else:
        P.disagree(what, case, model, impl)


def ops_sig(t) -> str:
    return "+".join(sorted(set(tree_ops(t, []))))[:60] if t is not None else "?"


# --------------------------------------------------------------------------- generators


def gen_tree(rng, depth: int, nsyms: int, consts):
    """random tree; every operator has at least one symbolic operand (an int-only subtree is a leaf)"""

    def sym():
        return ("s", SYMS[rng.randrange(nsyms)])

    def go(d, must_sym):
        if d == 0 or rng.random() < 0.12:
            if must_sym or rng.random() < 0.6:
                return sym()
            return ("n", rng.choice(consts))
        if rng.random() < 0.22:
            return ("u", rng.choice(UN), go(d - 1, True))
        op = rng.choice(BIN)
        side = rng.random()
        if side < 0.2:
            return ("b", op, go(d - 1, False), go(d - 1, True))
        if side < 0.4:
            return ("b", op, go(d - 1, True), go(d - 1, False))
        return ("b", op, go(d - 1, True), go(d - 1, True))

    return go(depth, True)


def all_trees(depth: int, syms, consts, unops=UN, binops=BIN):
    """all trees of depth <= `depth` with the int-only-subtrees-are-leaves rule; yields (tree, symbolic)"""
    leaves = [(("s", s), True) for s in syms] + [(("n", c), False) for c in consts]
    by_depth = [leaves]
    for d in range(1, depth + 1):
        prev_all = [x for lvl in by_depth for x in lvl]
        last = by_depth[-1]
        last_set = set(id(x) for x in last)
        cur = []
        for a, sa in last:
            if sa:
                for op in unops:
                    cur.append((("u", op, a), True))
        for op in binops:
            for x in prev_all:
                for y in prev_all:
                    if not (x[1] or y[1]):
                        continue
                    if id(x) not in last_set and id(y) not in last_set:
                        continue
                    cur.append((("b", op, x[0], y[0]), True))
        by_depth.append(cur)
    return [x[0] for lvl in by_depth for x in lvl if x[1]]


def zero_trees():
    """[(tree, alone)]: expressions with a zero-valued subexpression.  The forms: cancel to the constant 0 inside SymPy (x - x, x % 1 for an
    integer x, 0 * x, x * 0, x % x, x // x - 1, (x + M) - (M + x), 2*x - (x + x), -(x - x)), or are 0 under every positive binding
    without SymPy knowing (x // (x + 1), floor(x / (x + 1)), min(0, x)); each alone and as an operand of further arithmetic."""
    N, M = ("s", "N"), ("s", "M")
    n = lambda k: ("n", k)
    b = lambda op, x, y: ("b", op, x, y)
    xs = [N, b("add", N, n(1)), b("mul", n(2), M), b("add", N, M), b("fdiv", N, n(2)), b("div", N, n(2))]
    out = []
    for x in xs:
        zeros = [
            b("sub", x, x), b("mod", x, n(1)), b("mul", n(0), x), b("mul", x, n(0)), b("mod", x, x), b("sub", b("fdiv", x, x), n(1)),
            b("sub", b("add", x, M), b("add", M, x)), b("sub", b("mul", n(2), x), b("add", x, x)), ("u", "neg", b("sub", x, x)),
            b("fdiv", x, b("add", x, n(1))), ("u", "floor", b("div", x, b("add", x, n(1)))), b("min", n(0), x),
        ]
        for z in zeros:
            out.append((z, True))
            for y in (M, b("add", N, n(1))):
                for ctxt in (b("add", z, y), b("add", y, z), b("sub", z, y), b("sub", y, z), b("add", b("mul", z, y), y), b("add", b("mul", y, z), n(7)),
                             b("fdiv", y, b("add", z, n(1))), b("mod", b("add", y, z), n(3)), b("max", z, y), b("div", y, b("add", z, n(2))),
                             b("add", ("u", "neg", z), y), b("add", ("u", "floor", z), y)):
                    out.append((ctxt, False))
    return out


def sympy_built_items(rng, nrandom: int):
    """items of SympyDimCase: the examples of the documentation / of users (sympy.Symbol("N") + 1, sympy.symbols("H W", integer=True)), every
    depth-1 tree per assumption set, random trees with a flavour per leaf"""
    envs = [{"N": 7, "M": 2}, {"N": 3, "M": 5}, {"N": 1, "M": 1}]
    splits = [({"N": 7}, {"M": 2}), ({"M": 5}, {"N": 3})]
    items = []
    S = lambda name, fl: ("s", name, fl)
    n = lambda k: ("n", k)
    b = lambda op, x, y: ("b", op, x, y)
    fixed = [
        (b("add", S("N", "plain"), n(1)), "whole"), (b("add", S("N", "plain"), n(1)), "leaf"), (S("N", "plain"), "whole"), (S("N", "int"), "leaf"),
        (b("mul", S("N", "int"), S("M", "int")), "whole"),  # sympy.symbols("H W", integer=True)
        (b("add", b("mul", S("N", "plain"), S("N", "text")), S("M", "text")), "leaf"),  # Symbol("N") * "N" + "M"
        (b("mod", b("sub", S("N", "plain"), S("M", "text")), n(3)), "leaf"), (("u", "ceil", b("div", S("M", "text"), S("N", "plain"))), "leaf"),
        (b("fdiv", b("add", S("N", "real"), n(1)), n(2)), "mixed"), (b("sub", b("mul", n(2), S("N", "nonneg")), S("N", "text")), "mixed"),
        (b("max", S("N", "plain"), b("mul", n(2), S("M", "pos"))), "whole"), (b("min", S("N", "int"), S("M", "text")), "whole"),
        (b("add", S("N", "plain"), S("N", "int")), "leaf"), (b("sub", S("N", "pos"), S("N", "text")), "leaf"),  # one name, two SymPy symbols
    ]
    for t, mode in fixed:
        items.append(dict(tree=t, mode=mode, envs=envs, splits=splits))
    for fl in ("plain", "int", "pos", "real", "nonneg", "intpos"):
        Nf = S("N", fl)
        pairs = [(Nf, n(2)), (n(2), Nf), (Nf, S("M", "text")), (S("M", "text"), Nf), (Nf, S("M", fl)), (Nf, S("N", "text"))]
        for x, y in pairs:
            for op in BIN:
                lattice = op in ("max", "min")
                for mode in (("whole",) if lattice else ("leaf", "whole")):
                    items.append(dict(tree=b(op, x, y), mode=mode, envs=envs, splits=splits))
        for op in UN:
            for mode in ("leaf", "whole"):
                items.append(dict(tree=("u", op, b("div", Nf, n(2))), mode=mode, envs=envs, splits=splits))
    flavors = ["text", "plain", "int", "pos", "real", "nonneg", "intpos"]

    def flav(t):
        if t[0] == "s":
            return ("s", t[1], rng.choice(flavors))
        if t[0] == "u":
            return ("u", t[1], flav(t[2]))
        if t[0] == "b":
            return ("b", t[1], flav(t[2]), flav(t[3]))
        return t

    for i in range(nrandom):
        mode = ("leaf", "whole", "mixed")[i % 3]
        for _ in range(20):
            t = gen_tree(rng, rng.choice([2, 2, 3, 3, 4]), rng.choice([1, 2, 2, 3]), [-3, -1, 0, 1, 2, 3, 6])
            if mode == "whole" or not _has(t, _is_lattice):
                break
        else:
            mode = "whole"
        t = flav(t)
        syms = tree_syms(t)
        es = make_envs(rng, syms, 2) + [{s: 1 for s in syms}]
        items.append(dict(tree=t, mode=mode, envs=es, splits=make_splits(rng, es[0], 2)))
    return items


IDENTS = ["N", "M", "K", "batch", "seq_len", "a.b", "_x", "x1", "dim_0", "decoder_input_ids.45_dim_1",
          "max", "floor", "Abs", "mod", "e3", "zoo", "oo", "I", "pi", "None", "lambda"]
NUMS = ["0", "1", "2", "3", "7", "10", "007", "64", "12345678901234567890"]


def gen_deriv(rng, depth: int):
    """random derivation tree of the documented grammar (JSON form of the Lean type `D .expr`)"""

    def lift_prim(p):  # primary -> unary
        return ["upow", ["prim", p]]

    def atom_small():
        if rng.random() < 0.5:
            return ["num", rng.choice([0, 1, 2, 3])]
        return ["ident", rng.choice(["N", "M", "K"])]

    def as_expr(u):  # unary -> expr
        return ["expr", ["term", u, ["ttNil"]], ["etNil"]]

    def expr(d):
        t = term(d)
        tail = ["etNil"]
        items = []
        while rng.random() < 0.35:
            items.append((rng.choice("+-"), term(d)))
        for o, x in reversed(items):
            tail = ["etCons", o, x, tail]
        return ["expr", t, tail]

    def term(d):
        u = unary(d)
        items = []
        while rng.random() < 0.35:
            items.append((rng.choice(["*", "/", "//", "%"]), unary(d)))
        tail = ["ttNil"]
        for o, x in reversed(items):
            tail = ["ttCons", o, x, tail]
        return ["term", u, tail]

    def unary(d):
        if rng.random() < 0.2:
            return ["neg", unary(d)]
        return ["upow", power(d)]

    def power(d):
        base = primary(d)
        if rng.random() < 0.15:
            # exponents stay small: atom | -atom | atom ** atom | (atom + atom)
            r = rng.random()
            if r < 0.4:
                e = lift_prim(atom_small())
            elif r < 0.65:
                e = ["neg", lift_prim(atom_small())]
            elif r < 0.85:
                e = ["upow", ["pow", atom_small(), lift_prim(atom_small())]]
            else:
                inner = ["expr", ["term", lift_prim(atom_small()), ["ttNil"]],
                         ["etCons", "+", ["term", lift_prim(atom_small()), ["ttNil"]], ["etNil"]]]
                e = lift_prim(["paren", inner])
            return ["pow", base, e]
        return ["prim", base]

    def primary(d):
        r = rng.random()
        if d <= 0 or r < 0.3:
            if rng.random() < 0.4:
                return ["num", int(rng.choice(NUMS))]
            return ["ident", rng.choice(IDENTS)]
        if r < 0.55:
            return ["paren", expr(d - 1)]
        if r < 0.75:
            return ["call1", rng.choice(sorted(FN1)), expr(d - 1)]
        if r < 0.85:
            return ["call2", rng.choice(sorted(FN2)), expr(d - 1), expr(d - 1)]
        f = rng.choice(sorted(FNN))
        k = rng.choice([0, 1, 2, 2, 3, 4]) if rng.random() < 0.3 else 2
        if k == 0:
            return ["callN", f, ["argsNil"]]
        tail = ["atNil"]
        for _ in range(k - 1):
            tail = ["atCons", expr(d - 1), tail]
        return ["callN", f, ["argsCons", expr(d - 1), tail]]

    return expr(depth)


def flatten_deriv(j):
    """the sentence of a derivation tree as [(kind, text)] (independent of the Lean `flatten`)"""
    tag = j[0]
    op = lambda o: [(o, o)]
    if tag in ("expr", "term", "argsCons"):
        return flatten_deriv(j[1]) + flatten_deriv(j[2])
    if tag in ("etNil", "ttNil", "argsNil", "atNil"):
        return []
    if tag in ("etCons", "ttCons"):
        return op(j[1]) + flatten_deriv(j[2]) + flatten_deriv(j[3])
    if tag == "neg":
        return op("-") + flatten_deriv(j[1])
    if tag in ("upow", "prim"):
        return flatten_deriv(j[1])
    if tag == "pow":
        return flatten_deriv(j[1]) + op("**") + flatten_deriv(j[2])
    if tag == "num":
        return [("num", str(j[1]))]
    if tag == "ident":
        return [("id", j[1])]
    if tag == "paren":
        return op("(") + flatten_deriv(j[1]) + op(")")
    if tag in ("call1", "callN"):
        return [("id", j[1])] + op("(") + flatten_deriv(j[2]) + op(")")
    if tag == "call2":
        return [("id", j[1])] + op("(") + flatten_deriv(j[2]) + op(",") + flatten_deriv(j[3]) + op(")")
    if tag == "atCons":
        return op(",") + flatten_deriv(j[1]) + flatten_deriv(j[2])
    raise AssertionError(tag)


def gen_sentence(rng, depth: int):
    return flatten_deriv(gen_deriv(rng, depth))


def render_tokens(rng, toks, style: int) -> str:
    """style 0: single spaces; 1: minimal (no spaces); 2: random ASCII whitespace"""
    out = []
    for i, (kind, text) in enumerate(toks):
        if i:
            if style == 0:
                out.append(" ")
            elif style == 2:
                out.append(rng.choice(["", " ", "  ", "\t", "\n", " \r", "\x0c", "\x1f"]))
            prev = toks[i - 1][0]
            if style != 0 and prev in ("num", "id") and kind in ("num", "id") and (not out or out[-1] == ""):
                out.append(" ")
        if kind == "num" and style == 2 and rng.random() < 0.1:
            text = "00" + text
        out.append(text)
    s = "".join(out)
    if style == 2 and rng.random() < 0.3:
        s = rng.choice([" ", "\t", ""]) + s + rng.choice([" ", "\n", ""])
    return s


JUNK = [".", "..", "^", "#", "$", "!", "=", "<", "[", "]", "{", "~", "&", "|", "'", '"', "\\", "@", "?", ":", ";", "`", "\x00", "\x7f"]
FIXED_MALFORMED = [
    "", " ", "\t\n", "(", ")", "()", "(())", "N M", "2 N", "N 2", "max(", "max(,)", "max(1,)", "max(,1)", "floor()",
    "floor(1,2)", "mod(1)", "mod(1,2,3)", "Mod()", "foo(1)", "foo()", "N..M", ".5", "5.", "1.5", "1e3", "N**", "**N",
    "-", "--", "- - N", "N-", "N+", "+N", "N++M", "N+-M", "N-+M", "(N))", "((N)", "N,M", ",", "a b", "3(4)", "N(1)",
    "max (1, 2)", "max\t(N,\n2)", "Max", "max", "floor", "floor + 1", "N***M", "N////M", "N///M", "N// /M", "N* *M",
    "N%%M", "ceil(N)", "abs(N)", "trunc(N)", "ceiling(N, 2)", "Abs()", "sign(1, 2)", "sqrt()", "_", "__", "a.", "a..b",
    ".a", "a.b.c", "1a", "1_000", "0x10", "N if M else K", "N < M", "N == M", "~N", "not N", "N and M", "lambda: 1",
    "N**-M", "N**--M", "N**-M**-K", "-N**-2", "2**-1", "(-N)**2", "-(N)**2", "- N ** 2", "N//M//K", "N%M%K", "N/M/K",
    "N-M-K", "N-(M-K)", "N/(M/K)", "2**3**2", "(2**3)**2", "N*-M", "N/-M", "N//-M", "N%-M", "N - -M", "- - - N",
    "max()", "min()", "Max(N)", "min(N, M, K, 1)", "max(max(N, M), K)", "floor(N/2)", "ceiling(N/2)",
    "floor(Abs(M/2 - N/2))*sign(-M/2 + N/2)", "Mod(N, 3)", "2*(Mod(N, M))", "mod(N, -3)", "N % -3", "-N % 3", "-7 // 2",
    "-7 % 2", "7 // -2", "7 % -2", "sqrt(N*N)", "sqrt(16)", "N / 0", "N // 0", "N % 0", "0 / 0", "0 ** 0", "0 ** -1",
]


def gen_malformed(rng, depth: int) -> str:
    toks = gen_sentence(rng, depth)
    r = rng.random()
    if r < 0.7:
        pool = [("num", "2"), ("id", "N"), ("id", "max"), ("id", "foo")] + [(o, o) for o in ["+", "-", "*", "/", "//", "%", "**", "(", ")", ","]]
        for _ in range(rng.choice([1, 1, 2])):
            k = rng.random()
            if toks and k < 0.3:
                del toks[rng.randrange(len(toks))]
            elif k < 0.55:
                toks.insert(rng.randrange(len(toks) + 1), rng.choice(pool))
            elif toks and k < 0.75:
                toks[rng.randrange(len(toks))] = rng.choice(pool)
            elif len(toks) > 1:
                i = rng.randrange(len(toks) - 1)
                toks[i], toks[i + 1] = toks[i + 1], toks[i]
        return render_tokens(rng, toks, rng.choice([0, 1, 2]))
    s = render_tokens(rng, toks, rng.choice([0, 1, 2]))
    if r < 0.9:
        i = rng.randrange(len(s) + 1)
        return s[:i] + rng.choice(JUNK) + s[i:]
    if s:
        i = rng.randrange(len(s))
        return s[:i] + s[i + 1 :]
    return s


# --------------------------------------------------------------------------- case checkers


def envj(env):
    return [[k, v] for k, v in env.items()]


class TreeCase:
    """One expression tree: real operators vs Lean eval vs Fraction oracle."""

    def __init__(self, tree, envs, splits, simplify: bool, shape: bool, src: str, light: bool = False):
        self.tree, self.envs, self.splits, self.simplify, self.shape, self.src = tree, envs, splits, simplify, shape, src
        # light (exhaustive small scope): the re-parsed text is evaluated under 4 of the bindings and
        # the model-printed text goes through the real parser for one tree in eight
        self.light = light
        self.with_pp = (not light) or (canon_hash_int(tree) % 8 == 0)
        self.reqs = []

    def canonical(self):
        return ["tree", self.tree, [sorted(e.items()) for e in self.envs]]

    def prepare(self, P: Part):
        """run the real code + the oracle, queue Lean requests"""
        t = self.tree
        self.case_obj = {"kind": "tree", "tree": t, "envs": self.envs, "splits": self.splits}
        self.skip = False
        try:
            self.ref = [ref_eval(t, e) for e in self.envs]
        except TooBig:
            self.skip = True
            P.count("skipped=toobig")
            return
        self.build_state = "ok"
        _mark("build", None, None)
        try:
            self.d = d = build(t)
            _unmark()
        except INFRA_EXC:
            raise
        except TypeError as e:
            self.build_state = "typeerror"
            self.d = None
            sig = "build:TypeError:" + _missing_op(t)
            P.fail(sig, f"operator overload missing or rejecting its operand: {e}", self.case_obj)
        except Exception as e:  # noqa: BLE001
            # SymPy evaluates eagerly: a structurally zero divisor (or a nan reaching Max/Min) raises
            # while building.  Legitimate only when the expression has no value under any binding.
            self.build_state = "zerodiv" if isinstance(e, ZeroDivisionError) else "raised"
            self.d = None
            if any(r is not None for r in self.ref):
                P.fail("build:" + type(e).__name__ + "-on-defined-value:" + _shape_sig(t), f"building raised {type(e).__name__}: {e} although the expression has a value", self.case_obj)
        self.reqs.append({"m": "sym.eval", "e": t, "envs": [envj(e) for e in self.envs]})
        # the same tree as a program over the MODEL's operator overloads (Model/SymDim.lean)
        self.reqs.append({"m": "sym.ov", "p": prog_of_tree(t), "envs": [envj(e) for e in self.envs]})
        if self.with_pp:
            self.reqs.append({"m": "sym.pp", "e": t})
        if self.d is None:
            return
        self.value = d.value
        if self.value is None:
            # no operand is the unknown dimension: the result of the overloads must be a dimension with a text
            # (an intermediate that SymPy reduces to the constant 0 is the dimension "0", not SymbolicDim(None))
            self.build_state = "unknown"
            self.d = None
            envs_defined = [e for e, r in zip(self.envs, self.ref) if r is not None]
            P.fail("build:unknown-dimension:" + _shape_sig(t),
                   f"the expression built with the operator overloads is the unknown dimension SymbolicDim(None) (no text, evaluate() is None) "
                   f"although no operand is unknown; exact value under {envs_defined[:1]}: {[fr(r) for r in self.ref if r is not None][:1]}", self.case_obj)
            return
        # memoised only in the small exhaustive scopes, where the same text is reached from many trees
        self.real_vals = [cached_eval(d, e) if self.light else real_eval(d, e) for e in self.envs]
        # oracle 1: complete bindings
        for env, want, got in zip(self.envs, self.ref, self.real_vals):
            if want is not None and got != fr(want):
                vfail(P, "evaluate:complete:" + _shape_sig(t), f"evaluate({env}) = {got}, exact value {fr(want)}; value text {self.value!r}", self.case_obj, got, (t, env))
                break
        # oracle 2: the text form parses back to the same evaluations
        self.reparse = real_parse_outcome(self.value)
        self.vals2 = None
        if self.reparse[0] == "ok":
            self.vals2 = vals2 = [cached_eval(self.reparse[1], e, "reparsed") if self.light else real_eval(self.reparse[1], e)
                                  for e in (self.envs[:4] if self.light else self.envs)]
            for env, want, got in zip(self.envs, self.ref, vals2):
                if want is not None and got != fr(want):
                    vfail(P, "print-parse:value:" + _text_sig(self.value), f"SymbolicDim({self.value!r}).evaluate({env}) = {got}, exact value {fr(want)}", self.case_obj, got, (t, env), (py_tree(self.value), env))
                    break
        elif self.reparse[0] == "sympy-assert":
            assert_fail(P, "print-parse", self.value, self.case_obj, "print-parse:rejected:AssertionError:" + _text_sig(self.value))
        elif any(r is not None for r in self.ref):
            P.fail("print-parse:" + self.reparse[0] + ":" + _text_sig(self.value), f"SymbolicDim({self.value!r}) does not parse ({self.reparse[1]})", self.case_obj)
        self.reqs.append({"m": "sym.parse", "s": self.value, "envs": [envj(e) for e in self.envs]})
        # SymPy's own printer: the SymPy object the dimension holds, serialised structurally, through the model of
        # StrPrinter (Model/SymExprSympy.lean): its tokens must be the tokens of the real str(), token by token
        self.sympy_pp = None
        from harness.c16_sympy import real_tokens_of_text, sexpr_of_sympy

        st, sx = attempt(lambda: (sexpr_of_sympy(d._expr), str(d._expr)))
        if st == "ok" and sx[0] is not None and sx[1].isascii():
            self.sympy_pp = {"text": sx[1], "tokens": real_tokens_of_text(sx[1])}
            self.reqs.append({"m": "sym.sympy_pp", "e": sx[0], "envs": [envj(e) for e in self.envs]})
        else:
            P.count("sympy_pp=outside-fragment")
        self.real_struct = real_parse_structure(self.value)
        # oracle 3: partial bindings
        self.partials = []
        for b1, b2 in self.splits:
            full = dict(b1)
            full.update(b2)
            try:
                want = ref_eval(t, full)
            except TooBig:
                continue
            r1kind = []

            def _partial():
                r1 = d.evaluate(b1)
                if isinstance(r1, int) and not isinstance(r1, bool):
                    r1kind.append(("int", r1))
                    return [r1, 1], [], str(r1)
                r1kind.append(("dim", r1.value))
                got = real_eval(r1, b2)
                free1 = sorted(r1.free_symbols())
                r1text = r1.value
                # the residual through its text (what a saved model holds)
                rp = real_parse_outcome(r1text) if r1text is not None else ("raised", "None")
                if want is not None:
                    if rp[0] != "ok":
                        P.fail("partial:residual-text:" + rp[0] + ":" + _text_sig(r1text or ""), f"residual {r1text!r} of evaluate({b1}) does not parse", self.case_obj)
                    elif real_eval(rp[1], b2) != got:
                        # the residual's text must evaluate like the residual itself (whether THAT is the exact
                        # value is the next check)
                        vfail(P, "partial:residual-text:value:" + _text_sig(r1text), f"residual {r1text!r} re-parsed evaluates to {real_eval(rp[1], b2)} under {b2}, the residual itself to {got}", self.case_obj, real_eval(rp[1], b2), (py_tree(r1text), b2))
                return got, free1, r1text

            st, res = attempt(_partial)
            got, free1, r1text = res if st == "ok" else (res, [], None)
            if want is not None and got != fr(want):
                vfail(P, "partial:value:" + _shape_sig(t), f"evaluate({b1}) then evaluate({b2}) = {got}, exact {fr(want)} (residual {r1text!r})", self.case_obj, got, (t, b1, b2))
            # oracle: a binding of every symbol with an integer exact value comes back as a Python int ("the concrete
            # integer value if fully evaluated"), not as a dimension holding a number
            if (st == "ok" and r1kind and r1kind[0][0] == "dim" and want is not None and want.denominator == 1
                    and set(tree_syms(t)) <= set(b1)):
                if canon_text(r1kind[0][1]) == [want.numerator, 1]:  # the value is right, its type is not (a wrong value is oracle 3's)
                    P.fail("evaluate:complete:not-an-int:" + _shape_sig(t), f"evaluate({b1}) binds every symbol and the exact value is {want.numerator}, "
                           f"but a SymbolicDim({r1kind[0][1]!r}) is returned instead of an int", self.case_obj)
            allowed = set(tree_syms(t)) - set(b1)
            if want is not None and not set(free1) <= allowed:
                P.fail("partial:free-symbols", f"residual {r1text!r} has free symbols {free1}, expected a subset of {sorted(allowed)}", self.case_obj)
            self.partials.append((b1, b2, got, free1, r1kind[0] if r1kind and st == "ok" else None))
            self.reqs.append({"m": "sym.partial", "e": t, "b1": envj(b1), "b2": envj(b2)})
            # SymbolicDim.evaluate itself (int or residual dimension) on the model side
            self.reqs.append({"m": "sym.dimeval", "p": prog_of_tree(t), "b": envj(b1), "envs": [envj(b2)]})
        if all(r is not None for r in self.ref) and not set(d.free_symbols()) <= set(tree_syms(t)):
            P.fail("free-symbols", f"free_symbols() = {sorted(d.free_symbols())} not within the tree's symbols", self.case_obj)
        # oracle 4: simplify never changes an evaluation
        if self.simplify:
            def _simplify():
                ds = d.simplify()
                for env, want in zip(self.envs, self.ref):
                    got = real_eval(ds, env)
                    if want is not None and got != fr(want):
                        vfail(P, "simplify:value:" + _text_sig(self.value), f"simplify() of {self.value!r} = {ds.value!r} evaluates to {got} under {env}, exact {fr(want)}", self.case_obj, got, (t, env), simplify=True)
                        break
                rp = real_parse_outcome(ds.value)
                if rp[0] != "ok" and any(r is not None for r in self.ref):
                    P.fail("simplify:text:" + rp[0] + ":" + _text_sig(ds.value), f"simplify() text {ds.value!r} does not parse", self.case_obj)
                elif rp[0] == "ok":
                    for env, want in zip(self.envs, self.ref):
                        got, own = real_eval(rp[1], env), real_eval(ds, env)
                        if want is not None and got != own:
                            # the simplified dimension's text must evaluate like the simplified dimension
                            vfail(P, "simplify:text:value:" + _text_sig(ds.value), f"simplify() text {ds.value!r} re-parsed evaluates to {got} under {env}, the simplified dimension itself to {own}", self.case_obj, got, (py_tree(ds.value), env))
                            break

            st, res = attempt(_simplify)
            P.count("simplify=" + ("done" if st == "ok" else res))
            if st != "ok" and all(r is not None for r in self.ref):
                P.fail("simplify:raises:" + _text_sig(self.value), f"simplify() of {self.value!r} raises ({res}) although the dimension has a value under every binding tried", self.case_obj)
        # oracle 5: Shape lifts evaluate / simplify / free_symbols dimension-wise
        if self.shape:
            self._shape(P)
            self._serde(P)

    def _serde(self, P: Part):
        """what a saved model stores: dim_param = the text (serde.py serialize_dimension_into); through the
        protobuf wire format and back, the dimension must evaluate as before"""
        import onnx
        import onnx_ir as ir
        from onnx_ir import serde

        d = self.d

        def _go():
            tp = onnx.TypeProto()
            tp.tensor_type.elem_type = 1
            serde.serialize_shape_into(tp, ir.Shape([d, 7, "K", None]))
            params = [x.dim_param if x.HasField("dim_param") else None for x in tp.tensor_type.shape.dim]
            if params != [d.value, None, "K", None] or tp.tensor_type.shape.dim[1].dim_value != 7:
                P.fail("serde:dim_param", f"serialized dims {params} for Shape([{d.value!r}, 7, 'K', None])", self.case_obj)
            tp2 = onnx.TypeProto()
            tp2.ParseFromString(tp.SerializeToString())
            back = serde.deserialize_type_proto_for_shape(tp2)
            d2 = back.dims[0]
            if not isinstance(d2, ir.SymbolicDim) or d2.value != d.value or back.dims[1] != 7:
                P.fail("serde:round-trip:text", f"deserialized dims {[getattr(x, 'value', x) for x in back.dims]} for text {d.value!r}", self.case_obj)
                return
            for env, want, own in zip(self.envs[:4], self.ref, self.real_vals):
                got = real_eval(d2, env)
                if want is not None and got != own:
                    vfail(P, "serde:round-trip:value:" + _text_sig(d.value), f"dimension {d.value!r} evaluates to {own} under {env}, after serialize/deserialize to {got}", self.case_obj, got, (py_tree(d.value), env))
                    break

        st, res = attempt(_go)
        P.count("serde=" + ("done" if st == "ok" else res))
        if st != "ok" and self.ref[0] is not None:
            P.fail("serde:raises", f"serializing / deserializing a shape with dimension {d.value!r} raises ({res})", self.case_obj)

    def _shape(self, P: Part):
        import onnx_ir as ir

        d, env = self.d, self.envs[0]
        other = ir.SymbolicDim("K") + 1
        shp = ir.Shape([d, 7, "K", other, None])
        self.shape_real = None

        def _go():
            before = shape_obs(shp)
            ev = shp.evaluate(env)
            self.shape_real = {"before": before, "evaluated": [sdim_obs(x) for x in ev.dims], "after": shape_obs(ev)}
            dims = [canon_real(x) if not isinstance(x, int) else [x, 1] for x in ev.dims]
            want = [real_eval(d, env), [7, 1], real_eval(ir.SymbolicDim("K"), env), real_eval(other, env), ("symbolic", None)]
            if dims != want:
                P.fail("shape:evaluate", f"Shape.evaluate({env}) = {dims}, dimension-wise {want}", self.case_obj)
            if shp.free_symbols() != frozenset(d.free_symbols() | {"K"}):
                P.fail("shape:free_symbols", f"Shape.free_symbols() = {sorted(shp.free_symbols())}", self.case_obj)

        def _simp():
            # Shape.simplify is dimension-wise SymbolicDim.simplify: same text, or the same exception
            own = attempt(lambda: d.simplify().value)
            got = attempt(lambda: [x if isinstance(x, int) else x.value for x in shp.simplify().dims])
            if own[0] == "ok":
                wv = [own[1], 7, "K", other.simplify().value, None]
                if got != ("ok", wv):
                    P.fail("shape:simplify", f"Shape.simplify() = {got}, dimension-wise {wv}", self.case_obj)
            elif got != own:
                P.fail("shape:simplify", f"Shape.simplify() = {got}, the dimension's own simplify() {own}", self.case_obj)

        st, res = attempt(_go)
        if st == "ok" and self.shape_real is not None:
            self.reqs.append({"m": "sym.shape", "b": envj(env),
                              "dims": [prog_of_tree(self.tree), 7, ["dim", "K"], ["b", "add", ["dim", "K"], ["int", 1]], ["unknown"]]})
        else:
            self.shape_real = None
        P.count("shape=" + ("done" if st == "ok" else res))
        if st != "ok" and self.ref[0] is not None:
            P.fail("shape:raises", f"Shape.evaluate/free_symbols raises ({res}) although the dimension evaluates", self.case_obj)
        if self.simplify:
            _simp()

    def finish(self, P: Part, outs):
        t = self.tree
        if self.skip:
            return
        ops = tree_ops(t, [])
        P.case(self.canonical(), nontrivial=bool(ops), sample={"tree": t, "value": getattr(self, "value", None), "envs": self.envs[:2]},
               src=self.src, depth=tree_depth(t), build=self.build_state)
        for o in set(ops):
            P.count(f"op={o}")
        it = iter(outs)
        ev = next(it)
        lean_vals = ev.get("r")
        want = [fr(r) for r in self.ref]
        if lean_vals != want:
            P.disagree("Lean eval of the tree != exact Fraction arithmetic (harness oracle)", self.case_obj, lean_vals, want)
        if in_int_fragment(t):
            # integer fragment: Lean evalInt (Int.fdiv / Int.fmod) vs Python's own int arithmetic
            try:
                pyints = [py_int_eval(t, e) for e in self.envs]
            except TooBig:
                pyints = None
            if pyints is not None:
                P.count("int_fragment=checked")
                if ev.get("int") != pyints:
                    P.disagree("Lean evalInt != Python integer arithmetic", self.case_obj, ev.get("int"), pyints)
                if [None if v is None else [v, 1] for v in pyints] != want:
                    P.disagree("harness: Python int arithmetic != Fraction arithmetic on the integer fragment", self.case_obj, pyints, want)
        elif ev.get("int") is not None:
            P.disagree("Lean intFrag accepts a tree outside the integer fragment", self.case_obj, ev.get("int"), None)
        self._finish_ov(P, next(it), lean_vals)
        if self.with_pp:
            self._finish_pp(P, next(it), want)
        self._finish_rest(P, it, lean_vals)

    def _finish_ov(self, P: Part, ov, lean_vals):
        """the MODEL's operator overloads on the same program: outcome kind vs the real build, and the tree
        they build vs the plain operator tree (an instance of C16_overload_sem)"""
        st = ov.get("status")
        P.count("overload_model=" + str(st))
        self.ov_vals = None
        if st == "typeerror" or self.build_state == "typeerror":
            if st != self.build_state:
                P.disagree("operator overloads: TypeError in only one of model / real code", self.case_obj, st, self.build_state)
            return
        if st != "ok":
            P.disagree("model overload program does not produce a dimension", self.case_obj, ov, self.build_state)
            return
        if self.build_state == "unknown":
            P.disagree("operator overloads: the model builds a dimension, the real code the unknown dimension SymbolicDim(None)", self.case_obj, "ok", "unknown")
        if ov.get("vals") != lean_vals:
            P.disagree("model: tree built by the overloads evaluates differently from the operator tree", self.case_obj, ov.get("vals"), lean_vals)
        self.ov_vals = ov.get("vals")

    def _finish_pp(self, P: Part, ppo, want):
        t = self.tree
        # model printer: its text through the REAL parser must evaluate like the tree
        text = ppo.get("s")
        if not ppo.get("retok") or ppo.get("reparsed") != ppo.get("norm"):
            P.disagree("model pp/render/tokenize/parse round trip broke (model internal)", self.case_obj, ppo, None)
        rp = real_parse_outcome(text)
        if rp[0] == "ok":
            got = [real_eval(rp[1], e) for e in self.envs[:4]]
            for g, w, env in zip(got, want, self.envs):
                if w is not None and g != w:
                    vdisagree(P, "real parser on model-printed text evaluates differently from the tree", {"text": text, **self.case_obj}, w, g, g, (t, env), (py_tree(text), env))
                    break
            st_real, st_model = real_parse_structure(text), model_structure(ppo.get("norm"))
            if str(st_real).startswith("raised:") or str(st_model).startswith("raised:"):
                P.count("parse_structure=unavailable")
            elif st_real != st_model:
                P.disagree("real parser on model-printed text builds a different tree", {"text": text, **self.case_obj}, st_model, st_real)
        elif rp[0] == "raised" or any(w is not None for w in want):
            P.disagree("real parser rejects model-printed text", {"text": text, **self.case_obj}, "ok", rp)
        P.count("pp_real=" + rp[0])

    def _finish_rest(self, P: Part, it, lean_vals):
        t = self.tree
        if self.d is None:
            return
        for got, w, env in zip(self.real_vals, lean_vals or [], self.envs):
            if w is None:
                P.count("value=undefined")
            elif got != w:
                vdisagree(P, "real evaluate != Lean eval of the tree", self.case_obj, w, got, got, (t, env))
                break
        pr = next(it)
        self._compare_parse(P, self.value, self.reparse, self.real_struct, pr, self.vals2, self.envs)
        if self.sympy_pp is not None:
            self._finish_sympy_pp(P, next(it), lean_vals)
        # the tie of the overload model: the tree the MODEL overloads build vs the tree the (proved) Lean parser
        # recovers from the REAL object's printed form, evaluation-equivalent under every binding
        if self.ov_vals is not None and pr.get("r") == "ok":
            P.count("overload_tie=compared")
            for w, g, env in zip(self.ov_vals, pr.get("vals", []), self.envs):
                if w is not None and g != w:
                    vdisagree(P, "tree built by the model overloads != Lean parse of the real .value text (evaluation)",
                              {"value": self.value, **self.case_obj}, w, g, g, (t, env), (py_tree(self.value), env))
                    break
        for (b1, b2, got, free1, r1kind) in self.partials:
            po = next(it)
            de = next(it)
            self._finish_dimeval(P, de, b1, b2, r1kind)
            if po.get("resid") != po.get("full"):
                P.disagree("model: eval b2 (subst b1 e) != eval (b1 u b2) e", self.case_obj, po, None)
            if po.get("resid") is not None and got != po.get("resid"):
                vdisagree(P, "real partial evaluate != Lean subst/eval", {"b1": b1, "b2": b2, **self.case_obj}, po.get("resid"), got, got, (t, b1, b2))
            if po.get("resid") is not None and not set(free1) <= set(po.get("free", [])):
                P.disagree("real residual free symbols not within the model's", {"b1": b1, **self.case_obj}, po.get("free"), free1)
        if getattr(self, "shape_real", None) is not None:
            self._finish_shape(P, next(it))

    def _finish_sympy_pp(self, P: Part, sp, lean_vals):
        """model of SymPy's StrPrinter (ppSympy) vs the real str(): token-exact; hypothesis SWf of
        C16_print_parse_sympy_partial evaluated; parse result = surf; and the unproved half (surf evaluates like the
        SymPy object's meaning) computed exactly on both sides"""
        case = {"text": self.sympy_pp["text"], **self.case_obj}
        P.count("sympy_pp_wf=" + str(bool(sp.get("wf"))))
        if sp.get("tokens") != self.sympy_pp["tokens"]:
            P.disagree("model of SymPy's printer (ppSympy) emits other tokens than the real str()", case, sp.get("s"), self.sympy_pp["text"])
            return
        if sp.get("wf") and sp.get("parsed") != sp.get("surf"):
            P.disagree("model: parseTokens (ppSympy s) != surf s on a well-formed s", case, sp.get("parsed"), sp.get("surf"))
        if sp.get("parsed") is None:
            P.disagree("model parser rejects the text of the model of SymPy's printer", case, None, self.sympy_pp["text"])
            return
        _sympy_pp_values(P, sp, case)
        P.count("sympy_pp=token-exact")
        # what SymPy's construction made of the operator tree (external): its meaning vs the tree's, where defined
        for w, g, env in zip(lean_vals or [], sp.get("vals_den") or [], self.envs):
            if w is not None and g != w:
                vdisagree(P, "meaning of the SymPy object the dimension holds != the operator tree (SymPy construction)", case, w, g, g, (self.tree, env))
                break

    def _finish_dimeval(self, P: Part, de, b1, b2, r1kind):
        """SymbolicDim.evaluate: int vs residual dimension (Dim.evaluate of the model)"""
        if r1kind is None:
            return
        t, case = self.tree, {"b1": b1, "b2": b2, **self.case_obj}
        st = de.get("status")
        P.count("dimeval_model=" + str(st) + ",real=" + r1kind[0])
        if st == "int":
            # complete (for this expression) binding with an integer value: the real code must return that int
            if r1kind != ("int", de.get("z")):
                got = [r1kind[1], 1] if r1kind[0] == "int" else canon_text(r1kind[1])
                vdisagree(P, "evaluate(): the model returns an int, the real code something else", case, de.get("z"), list(r1kind), got, (t, b1))
        elif st == "ok":
            if r1kind[0] == "int":
                # SymPy simplified the unbound symbols away (N - N): the residual must agree where it has a value
                w = (de.get("vals") or [None])[0]
                if w is not None and w != [r1kind[1], 1]:
                    vdisagree(P, "evaluate(): real int differs from the model residual's value", case, w, r1kind[1], [r1kind[1], 1], (t, b1, b2))
        else:
            P.disagree("model evaluate() of a built dimension is neither int nor dimension", case, de, list(r1kind))

    def _finish_shape(self, P: Part, so):
        """Shape.evaluate / is_static / is_dynamic / free_symbols: model (Shape.* of Model/SymDim.lean) vs real"""
        real, case = self.shape_real, {"shape": "[d, 7, 'K', K + 1, None]", **self.case_obj}
        mb, rb = so.get("before") or {}, real["before"]
        for k in ("static", "dynamic", "static_at", "dynamic_at"):
            if mb.get(k) != rb[k]:
                P.disagree(f"Shape.{k} differs before evaluate", case, mb.get(k), rb[k])
        defined = all(r is not None for r in self.ref)  # a text holding zoo / nan re-parses with a symbol of that name
        if defined and (mb.get("free") is None or not set(rb["free"]) <= set(mb["free"])):
            P.disagree("Shape.free_symbols() not within the model's", case, mb.get("free"), rb["free"])
        mev = so.get("evaluated")
        if mev is None or len(mev) != len(real["evaluated"]):
            P.disagree("Shape.evaluate: rank differs / model raises", case, mev, real["evaluated"])
            return
        same_kinds = True
        for i, (m, r) in enumerate(zip(mev, real["evaluated"])):
            if m["kind"] == "int":
                if r != {"kind": "int", "z": m["z"]}:
                    same_kinds = False
                    got = [r["z"], 1] if r["kind"] == "int" else canon_text(r.get("text"))
                    if i == 0:
                        vdisagree(P, "Shape.evaluate: the model gives an int dimension, the real code something else", case, m, r, got, (self.tree, self.envs[0]))
                    else:
                        P.disagree("Shape.evaluate: the model gives an int dimension, the real code something else", case, m, r)
            elif m["kind"] == "unknown":
                if r["kind"] != "unknown":
                    same_kinds = False
                    P.disagree("Shape.evaluate: unknown dimension did not stay unknown", case, m, r)
            elif r["kind"] == "int":
                same_kinds = False
                P.count("shape_eval=real-int-by-simplification")
            elif r["kind"] != "dim":
                same_kinds = False
                P.disagree("Shape.evaluate: dimension kinds differ", case, m, r)
        P.count("shape_model=compared")
        if same_kinds:
            ma, ra = so.get("after") or {}, real["after"]
            for k in ("static", "dynamic", "static_at", "dynamic_at"):
                if ma.get(k) != ra[k]:
                    P.disagree(f"Shape.{k} differs after evaluate", case, ma.get(k), ra[k])
            if defined and (ma.get("free") is None or not set(ra["free"]) <= set(ma["free"])):
                P.disagree("Shape.free_symbols() after evaluate not within the model's", case, ma.get("free"), ra["free"])

    @staticmethod
    def _compare_parse(P, s, real_outcome, real_struct, lean, real_vals, envs=()):
        case = {"kind": "string", "s": s}
        lr = lean.get("r")
        if lr == "nonascii":
            return
        if real_outcome[0] == "sympy-assert":
            P.count("parse_compare=skipped-sympy-assert")  # reported by assert_fail; nothing to compare
            return
        if real_outcome[0] == "raised":
            if lr != "raised":
                P.disagree("real parser raises, Lean parser accepts", case, lean, real_outcome)
            return
        if real_outcome[0] == "arith":
            # SymPy refused to build a value (ZeroDivisionError, Max(nan, ...)) before the parser
            # finished: the text may or may not be in the grammar; if the model accepts it, the model
            # tree must have no value either
            if lr == "ok" and any(v is not None for v in lean.get("vals", [])):
                P.disagree("real parser hit an arithmetic error, Lean tree has a value", case, lean, real_outcome)
            return
        if lr != "ok":
            P.disagree("real parser accepts, Lean parser raises", case, lr, real_outcome)
            return
        st = model_structure(lean.get("tree"))
        if str(st).startswith("raised:") or str(real_struct).startswith("raised:"):
            # the structural comparison is a device of the harness: without evaluation SymPy cannot sort the arguments of a Max / Min
            # with three or more arguments when one is an infinity (TypeError "cannot determine truth value of Relational: oo < 2"),
            # on either side, depending on how the call was nested.  Values are still compared below.
            P.count("parse_structure=unavailable")
        elif st != real_struct:
            P.disagree("parse trees differ (SymPy objects built without evaluation)", case, st, real_struct)
        else:
            P.count("parse_structure=compared")
        for w, g, env in zip(lean.get("vals", []), real_vals or [], envs):
            if w is not None and g != w:
                # SymPy's own arithmetic may be wrong (known finding D162, raised by the oracle)
                vdisagree(P, "values of the parsed text differ", case, lean.get("vals"), real_vals, g, (py_tree(s), env))
                break


class StringCase:
    """One text through both parsers + the independent grammar/meaning oracles."""

    def __init__(self, s: str, envs, src: str):
        self.s, self.envs, self.src = s, envs, src
        self.reqs = []

    def prepare(self, P: Part):
        s = self.s
        self.case_obj = {"kind": "string", "s": s, "envs": self.envs}
        self.skip = False
        if not pow_safe(s, self.envs):
            P.count("skipped=power-tower")
            raise SkipCase
        self.outcome = real_parse_outcome(s)
        self.real_struct = real_parse_structure(s) if self.outcome[0] == "ok" else None
        self.real_vals = [real_eval(self.outcome[1], e) for e in self.envs] if self.outcome[0] == "ok" else None
        self.reqs.append({"m": "sym.parse", "s": s, "envs": [envj(e) for e in self.envs]})
        self.reqs.append({"m": "sym.tokenize", "s": s})
        # oracle: accepted exactly when the documented grammar derives the text
        ing = in_grammar(s)
        self.ing = ing
        if has_sqrt2(s):
            P.count("skipped=sqrt-with-comma")
            self.skip = True
            return
        if self.outcome[0] == "sympy-assert":
            assert_fail(P, "grammar", s, self.case_obj, "grammar:rejected:AssertionError:" + _text_sig(s))
        if ing and self.outcome[0] == "raised":
            P.fail("grammar:rejected:" + _text_sig(s), f"text {s!r} is in the documented grammar but the parser raises {self.outcome[1]}", self.case_obj)
        if not ing and self.outcome[0] == "ok":
            P.fail("grammar:accepted-outside:" + _text_sig(s), f"text {s!r} is outside the documented grammar but parses", self.case_obj)
        # oracle: standard meaning (Python's grammar) under every binding
        if ing and self.outcome[0] == "ok":
            try:
                want = py_meaning(s, self.envs)
            except TooBig:
                want = None
            if want is not None:
                for env, w, g in zip(self.envs, want, self.real_vals):
                    if w is not None and g != w:
                        vfail(P, "grammar:meaning:" + _text_sig(s), f"{s!r} evaluates to {g} under {env}; standard precedence gives {w}", self.case_obj, g, (py_tree(s), env))
                        break
                P.count("meaning=checked")

    def finish(self, P: Part, outs):
        s = self.s
        pr, tk = outs
        P.case(["string", s], nontrivial=len(s.strip()) > 1, sample={"s": s, "real": self.outcome[0]}, src=self.src,
               outcome=self.outcome[0], in_grammar=self.ing, length=min(len(s) // 10 * 10, 80))
        if self.skip:
            return
        TreeCase._compare_parse(P, s, self.outcome, self.real_struct, pr, self.real_vals, self.envs)
        # tokenizer: model vs real get_token stream
        real_toks = real_tokens(s)
        if tk.get("r") != "nonascii" and tk.get("r") != real_toks:
            P.disagree("token streams differ", self.case_obj, tk.get("r"), real_toks)


class UnknownDimCase:
    """`SymbolicDim(None)` (an unknown dimension) as an operand of every operator: the result is an
    unknown dimension again, never an exception (oracle only; the model has no unknown dimension)."""

    def __init__(self, op: str, side: str, src: str = "unknown-dim"):
        self.op, self.side, self.src = op, side, src
        self.reqs = []

    def prepare(self, P: Part):
        import onnx_ir as ir

        none, other = ir.SymbolicDim(None), {"dim": ir.SymbolicDim("N") + 1, "int": 3}[self.side.split("-")[1]]
        unk_left = self.side.startswith("left")
        a, b = (none, other) if unk_left else (other, none)
        case = {"kind": "unknown-dim", "op": self.op, "side": self.side}
        fn = {"add": lambda: a + b, "sub": lambda: a - b, "mul": lambda: a * b, "div": lambda: a / b, "fdiv": lambda: a // b,
              "mod": lambda: a % b, "neg": lambda: -none, "floor": lambda: math.floor(none), "ceil": lambda: math.ceil(none),
              "trunc": lambda: math.trunc(none), "simplify": lambda: none.simplify(), "evaluate": lambda: none.evaluate({"N": 3})}[self.op]
        st, res = attempt(fn)
        P.case(["unknown-dim", self.op, self.side], nontrivial=True, src=self.src, op_unknown=self.op)
        if st != "ok":
            P.fail(f"unknown-dim:{self.op}:{self.side}:raises", f"{self.op} with an unknown dimension ({self.side}) raises {res}", case)
        elif not isinstance(res, ir.SymbolicDim) or res.value is not None:
            P.fail(f"unknown-dim:{self.op}:{self.side}:value", f"{self.op} with an unknown dimension ({self.side}) returns {res!r}", case)
        elif res.free_symbols() != frozenset() or not (res == ir.SymbolicDim(None)):
            P.fail(f"unknown-dim:{self.op}:{self.side}:observers", "free_symbols / equality of the unknown result", case)
        raise SkipCase

    def finish(self, P: Part, outs):
        pass


class NonAsciiCase:
    """Texts with non-ASCII digits / spaces / letters (outside the ASCII-only Lean model): oracle only.
    `str.isdigit/isspace/isalpha` accept them, so the parser must read the text like its ASCII
    normalisation (decimal digits by value, any Unicode space as a blank), or raise ValueError."""

    def __init__(self, s: str, envs, src: str = "non-ascii"):
        self.s, self.envs, self.src = s, envs, src
        self.reqs = []

    def prepare(self, P: Part):
        import unicodedata

        s = self.s
        case = {"kind": "non-ascii", "s": s, "envs": self.envs}
        norm = []
        convertible = True
        for ch in s:
            if ord(ch) < 128:
                norm.append(ch)
            elif ch.isspace():
                norm.append(" ")
            elif ch.isdigit():
                try:
                    norm.append(str(int(ch)))
                except ValueError:  # superscripts etc.: isdigit() but int() refuses
                    convertible = False
                    norm.append("?")
            elif ch.isalpha():
                norm.append("u%04x" % ord(ch))
            else:
                convertible = False
                norm.append("?")
        ascii_text = "".join(norm)
        envs2 = [{"".join("u%04x" % ord(c) if ord(c) >= 128 else c for c in k): v for k, v in e.items()} for e in self.envs]
        out, ref = real_parse_outcome(s), real_parse_outcome(ascii_text)
        P.case(["non-ascii", s], nontrivial=True, sample={"s": s, "real": out[0]}, src=self.src, outcome_nonascii=out[0])
        if not convertible:
            if out[0] == "ok":
                P.fail("non-ascii:accepted", f"text {s!r} contains a character no ASCII reading exists for but parses", case)
        elif out[0] != ref[0]:
            P.fail("non-ascii:outcome", f"text {s!r} is {out[0]}, its ASCII normalisation {ascii_text!r} is {ref[0]}", case)
        elif out[0] == "ok":
            for e, e2 in zip(self.envs, envs2):
                if real_eval(out[1], e) != real_eval(ref[1], e2):
                    P.fail("non-ascii:value", f"text {s!r} evaluates to {real_eval(out[1], e)}, its ASCII normalisation {ascii_text!r} to {real_eval(ref[1], e2)}", case)
                    break
        raise SkipCase

    def finish(self, P: Part, outs):
        pass


class DerivCase:
    """One derivation tree of the grammar: Lean flatten/sem/parse vs the real parser."""

    def __init__(self, d, envs, src: str):
        self.d, self.envs, self.src = d, envs, src
        self.reqs = []

    def prepare(self, P: Part):
        toks = flatten_deriv(self.d)
        self.s = s = " ".join(t for _, t in toks)
        self.case_obj = {"kind": "deriv", "d": self.d, "s": s, "envs": self.envs}
        if not pow_safe(s, self.envs):
            P.count("skipped=power-tower")
            raise SkipCase
        self.outcome = real_parse_outcome(s)
        self.real_struct = real_parse_structure(s) if self.outcome[0] == "ok" else None
        self.real_vals = [real_eval(self.outcome[1], e) for e in self.envs] if self.outcome[0] == "ok" else None
        if self.outcome[0] == "sympy-assert":
            assert_fail(P, "grammar", s, self.case_obj, "grammar:rejected:AssertionError:" + _text_sig(s))
        if self.outcome[0] == "raised":
            P.fail("grammar:rejected:" + _text_sig(s), f"sentence {s!r} of the documented grammar is rejected ({self.outcome[1]})", self.case_obj)
        self.reqs.append({"m": "sym.derive", "d": self.d, "envs": [envj(e) for e in self.envs]})

    def finish(self, P: Part, outs):
        (o,) = outs
        P.case(["deriv", self.d], nontrivial=len(self.s) > 1, sample={"sentence": self.s, "real": self.outcome[0]}, src=self.src,
               outcome=self.outcome[0], length=min(len(self.s) // 10 * 10, 80))
        if o.get("s") != self.s:
            P.disagree("Lean flatten/render of the derivation differs from the harness's", self.case_obj, o.get("s"), self.s)
        if o.get("parsed") != o.get("sem"):
            P.disagree("model: parseTokens (flatten d) != sem d", self.case_obj, o.get("parsed"), o.get("sem"))
        lean = {"r": "ok", "tree": o.get("sem"), "vals": o.get("vals")}
        TreeCase._compare_parse(P, self.s, self.outcome, self.real_struct, lean, self.real_vals, self.envs)


class SympyDimCase:
    """A dimension constructed from a user SymPy expression (`SymbolicDim(sympy.Symbol("N") + 1)`,
    `sympy.symbols("H W", integer=True)`: a documented constructor input) whose symbols carry OTHER assumptions than the
    parser's integer + positive - alone and mixed with text-built dimensions through the real overloads.  SymPy tells
    symbols apart by name AND assumptions; the library (evaluate, free_symbols, the text a saved model holds) and the
    model (`Dim.evaluate`: an `Env` of NAMES) bind by NAME.  Oracle: exact Fraction arithmetic over the tree under complete
    and partial bindings, the re-parsed text, Shape.evaluate; tie: `sym.dimeval` (int vs residual, values) on the
    flavour-erased program."""

    def __init__(self, tree, mode, envs, splits, src: str = "sympy-built"):
        self.tree, self.mode, self.envs, self.splits, self.src = tree, mode, envs, [tuple(x) for x in splits], src
        self.reqs = []

    def prepare(self, P: Part):
        import onnx_ir as ir

        t, mode = self.tree, self.mode
        self.case_obj = case = {"kind": "sympy-built", "tree": t, "mode": mode, "envs": self.envs, "splits": [list(x) for x in self.splits]}
        self.rows = []
        self.skip = False
        self.fl = fl = "+".join(sorted(set(leaf_flavors(t))))
        sigtail = f"{mode}:{fl}:{_shape_sig(t)}"
        names = set(tree_syms(t))
        try:
            self.ref = ref = [ref_eval(t, e) for e in self.envs]
        except TooBig:
            self.skip = True
            P.count("skipped=toobig")
            raise SkipCase from None
        defined = any(r is not None for r in ref)
        P.case(["sympy-built", t, mode, [sorted(e.items()) for e in self.envs]], nontrivial=True, src=self.src,
               sample={"tree": t, "mode": mode}, sympy_built_mode=mode, sympy_built_depth=tree_depth(t))
        for f in set(leaf_flavors(t)):
            P.count("sympy_built_symbol=" + f)
        _mark("construct", None, None)
        st, d = attempt(lambda: build_flavored(t, mode))
        self.build_state = "ok" if st == "ok" else d
        P.count("sympy_built_construct=" + str(self.build_state))
        if st != "ok" or not isinstance(d, ir.SymbolicDim) or d.value is None:
            self.d = None
            if st == "ok":
                self.build_state = "unknown" if isinstance(d, ir.SymbolicDim) else "not-a-dimension"
            if defined:
                P.fail(f"sympy-built:construct:{self.build_state}:{sigtail}", f"constructing the dimension from SymPy objects ({mode}, symbols {fl}) gives "
                       f"{self.build_state} although the expression has the value {[fr(r) for r in ref if r is not None][:1]}", case)
            return
        self.d = d
        self.value = d.value
        # complete bindings (as b1 with nothing left), then the partial ones
        for b1, b2 in [(e, {}) for e in self.envs] + list(self.splits):
            full = dict(b1)
            full.update(b2)
            try:
                want = ref_eval(t, full)
            except TooBig:
                continue
            complete = names <= set(b1)
            what = "complete" if complete else "partial"
            r1kind = []

            def _go():
                _mark("evaluate", d.value, b1)
                r1 = d.evaluate(b1)
                _unmark()
                if isinstance(r1, int) and not isinstance(r1, bool):
                    r1kind.append(("int", r1))
                    return [r1, 1], []
                r1kind.append(("dim", r1.value))
                return real_eval(r1, b2), sorted(r1.free_symbols())

            st, res = attempt(_go)
            got, free1 = res if st == "ok" else (res, [])
            if want is not None and got != fr(want):
                vfail(P, f"sympy-built:evaluate:{what}:{sigtail}", f"SymbolicDim({d.value!r}) built from SymPy objects ({mode}; symbols {fl}): evaluate({b1})"
                      + (f" then evaluate({b2})" if b2 else "") + f" = {got} (first result {r1kind[:1]}), exact value {fr(want)}; free_symbols() = "
                      f"{attempt(lambda: sorted(d.free_symbols()))[1]}", case, got, (t, b1, b2))
            elif (want is not None and want.denominator == 1 and complete and st == "ok" and r1kind and r1kind[0][0] == "dim"
                  and canon_text(r1kind[0][1]) == [want.numerator, 1]):
                P.fail(f"sympy-built:evaluate:complete:not-an-int:{sigtail}", f"evaluate({b1}) binds every symbol and the exact value is {want.numerator}, but a "
                       f"SymbolicDim({r1kind[0][1]!r}) is returned instead of an int", case)
            if want is not None and st == "ok" and not set(free1) <= names - set(b1):
                P.fail(f"sympy-built:residual-free-symbols:{sigtail}", f"evaluate({b1}) of SymbolicDim({d.value!r}) leaves the free symbols {free1}; "
                       f"the names not bound are {sorted(names - set(b1))}", case)
            self.rows.append((b1, b2, got, r1kind[0] if st == "ok" and r1kind else None))
            self.reqs.append({"m": "sym.dimeval", "p": prog_of_tree(t), "b": envj(b1), "envs": [envj(b2)]})
        st, free = attempt(lambda: set(d.free_symbols()))
        if defined and (st != "ok" or not free <= names):
            P.fail(f"sympy-built:free-symbols:{sigtail}", f"free_symbols() = {free if st != 'ok' else sorted(free)}, the tree's names {sorted(names)}", case)
        # the text (what a saved model holds) parses back to the same evaluations
        rp = real_parse_outcome(d.value)
        if rp[0] == "ok":
            for env, want in zip(self.envs, ref):
                got = real_eval(rp[1], env)
                if want is not None and got != fr(want):
                    vfail(P, f"sympy-built:print-parse:value:{sigtail}", f"SymbolicDim({d.value!r}).evaluate({env}) = {got}, exact value {fr(want)}", case, got, (t, env), (py_tree(d.value), env))
                    break
        elif rp[0] == "sympy-assert":
            assert_fail(P, "print-parse", d.value, case, "sympy-built:print-parse:rejected:AssertionError:" + sigtail)
        elif defined:
            P.fail(f"sympy-built:print-parse:{rp[0]}:{sigtail}", f"the text {d.value!r} of a dimension built from SymPy objects does not parse ({rp[1]})", case)
        # Shape.evaluate lifts it dimension-wise
        self._shape(P, sigtail)

    def _shape(self, P: Part, sigtail):
        import onnx_ir as ir

        d, t = self.d, self.tree
        fl0 = (leaf_flavors(t) or ["plain"])[0]
        other = ir.SymbolicDim(flavored_symbol("K", fl0) + 1)
        shp = ir.Shape([d, 7, "K", other, None])
        for b in [self.envs[0]] + [x[0] for x in self.splits[:1]]:
            b = dict(b, K=5)
            try:
                want0 = ref_eval(t, b) if set(tree_syms(t)) <= set(b) else None
            except TooBig:
                want0 = None
            _mark("shape-evaluate", d.value, b)
            st, ev = attempt(lambda: [canon_real(x) for x in shp.evaluate(b).dims])
            if st != "ok":
                if want0 is not None:
                    P.fail(f"sympy-built:shape:raises:{sigtail}", f"Shape([{d.value!r}, 7, 'K', K + 1, None]).evaluate({b}) raises ({ev})", self.case_obj)
                continue
            P.count("sympy_built_shape=done")
            want = [fr(want0) if want0 is not None else ev[0], [7, 1], [5, 1], [6, 1], ("symbolic", None)]
            if ev != want:
                P.fail(f"sympy-built:shape:evaluate:{sigtail}", f"Shape([{d.value!r}, 7, 'K', K + 1, None]).evaluate({b}) = {ev}, exact {want}", self.case_obj)

    def finish(self, P: Part, outs):
        t = self.tree
        for (b1, b2, got, r1kind), de in zip(self.rows, outs):
            if r1kind is None:
                continue
            case = {"b1": b1, "b2": b2, **self.case_obj}
            st = de.get("status")
            P.count("sympy_built_dimeval=" + str(st) + ",real=" + r1kind[0])
            if st == "int":
                if r1kind != ("int", de.get("z")):
                    g = [r1kind[1], 1] if r1kind[0] == "int" else canon_text(r1kind[1])
                    vdisagree(P, "evaluate() of a dimension built from SymPy objects: the by-name model returns an int, the real code something else", case, de.get("z"), list(r1kind), g, (t, b1))
            elif st == "ok":
                w = (de.get("vals") or [None])[0]
                if w is not None and got != w:
                    vdisagree(P, "evaluate() of a dimension built from SymPy objects: the residual's value differs from the by-name model's", case, w, got, got, (t, b1, b2))
            else:
                P.disagree("model evaluate() of a SymPy-built dimension is neither int nor dimension", case, de, list(r1kind))


# --------------------------------------------------------------------------- the operator glue, as a matrix

GLUE_ENVS = [{"N": 7, "M": 2}, {"N": 4, "M": 3}, {"N": 1, "M": 1}]
GLUE_BOPS = ["add", "sub", "mul", "truediv", "floordiv", "mod", "pow"]
GLUE_UOPS = ["neg", "floor", "ceil", "trunc"]
# operand kind -> program of the model (sym.ov); the real operand is made by `glue_operand`
GLUE_KINDS = {
    "int3": ["int", 3], "int0": ["int", 0], "intm2": ["int", -2], "int1": ["int", 1],
    "dimN": ["dim", "N"],
    "dimE": ["b", "sub", ["b", "truediv", ["dim", "N"], ["int", 2]], ["int", 1]],
    "dimT": ["dim", "floor(N/2) + M"],
    "dimX": ["dim", "-N**2 % M"],
    "unk": ["unknown"], "bad": ["dim", "a b"],
    "float": ["other"], "none": ["other"], "frac": ["other"], "str": ["other"],
    "true": ["bool", True], "false": ["bool", False],  # isinstance(True, int): modelled since wave 4 (C16_overload_dispatch_bool)
}
GLUE_DIMS = ("dimN", "dimE", "dimT", "dimX", "unk", "bad")


def glue_operand(kind):
    import onnx_ir as ir

    return {
        "int3": lambda: 3, "int0": lambda: 0, "intm2": lambda: -2, "int1": lambda: 1,
        "dimN": lambda: ir.SymbolicDim("N"), "dimE": lambda: ir.SymbolicDim("N") / 2 - 1,
        "dimT": lambda: ir.SymbolicDim("floor(N/2) + M"), "dimX": lambda: ir.SymbolicDim("-N**2 % M"),
        "unk": lambda: ir.SymbolicDim(None), "bad": lambda: ir.SymbolicDim("a b"),
        "float": lambda: 1.5, "none": lambda: None, "frac": lambda: Fraction(1, 2), "str": lambda: "x",
        "true": lambda: True, "false": lambda: False,
    }[kind]()


def glue_outcome(fn):
    """('ok', dim) | ('unknown',) | ('typeerror',) | ('valueerror',) | ('zerodiv',) | ('other', text)"""
    _mark("operator", None)
    r = _glue_outcome(fn)  # an INFRA_EXC (the CPU guard) leaves the mark in place
    _unmark()
    return r


def _glue_outcome(fn):
    import onnx_ir as ir

    try:
        r = fn()
    except INFRA_EXC:
        raise
    except TypeError:
        return ("typeerror",)
    except ZeroDivisionError:
        return ("zerodiv",)
    except ValueError as e:
        return ("valueerror",) if str(e).startswith(_PARSER_MSG) else ("other", "ValueError:" + str(e)[:60])
    except Exception as e:  # noqa: BLE001
        return ("other", type(e).__name__)
    if isinstance(r, ir.SymbolicDim):
        return ("unknown",) if r.value is None else ("ok", r)
    return ("other", repr(r)[:60])


class GlueCase:
    """The glue between Python operators and expressions as a matrix (model = Model/SymDim.lean):
    every binary operator x every ordered pair of operand kinds (int / bool / dimension with a plain, computed,
    text-built expression / unknown dimension / unparseable text / float, None, Fraction, str), the unary operators,
    the operators that have no overload, Shape methods, and equality / hash."""

    def __init__(self, what: str, arg=None, src: str = "glue"):
        self.what, self.arg, self.src = what, arg, src
        self.reqs = []
        self.rows = []

    # -- binary operators
    def _prep_binop(self, P: Part):
        import operator

        op = self.arg
        fn = getattr(operator, op)
        kinds = list(GLUE_KINDS)
        for xk in kinds:
            for yk in kinds:
                if xk not in GLUE_DIMS and yk not in GLUE_DIMS:
                    continue
                if xk == "str":
                    continue  # "x" % dim is string formatting, "x" * dim sequence repetition: not the dimension's doing
                real = glue_outcome(lambda: fn(glue_operand(xk), glue_operand(yk)))
                vals = [real_eval(real[1], e) for e in GLUE_ENVS] if real[0] == "ok" else None
                self.rows.append(("binop", op, xk, yk, real, vals))
                self.reqs.append({"m": "sym.ov", "p": ["b", op, GLUE_KINDS[xk], GLUE_KINDS[yk]], "envs": [envj(e) for e in GLUE_ENVS]})
                self.reqs.append({"m": "sym.parse", "s": real[1].value if real[0] == "ok" else "", "envs": [envj(e) for e in GLUE_ENVS]})
        # bool operands (isinstance(True, int)): SymPy refuses them; either a TypeError or the int's result
        for bk, iv in (("true", 1), ("false", 0)):
            for dk in ("dimN", "dimE", "unk"):
                for left in (True, False):
                    a = (lambda: fn(glue_operand(bk), glue_operand(dk))) if left else (lambda: fn(glue_operand(dk), glue_operand(bk)))
                    b = (lambda: fn(iv, glue_operand(dk))) if left else (lambda: fn(glue_operand(dk), iv))
                    ra, rb = glue_outcome(a), glue_outcome(b)
                    same = ra[0] == rb[0] and (ra[0] != "ok" or ra[1].value == rb[1].value)
                    P.count("glue_bool=" + ("as-int" if same else ra[0]))
                    if not same and ra[0] != "typeerror":
                        P.fail(f"glue:bool-operand:{op}:{dk}:{'left' if left else 'right'}", f"{op} with the bool operand {bk} gives {ra[0]}, with the int {iv} gives {rb[0]}",
                               {"kind": "glue", "what": "binop", "arg": op})

    def _fin_binop(self, P: Part, outs):
        it = iter(outs)
        for (_, op, xk, yk, real, vals) in self.rows:
            ov, pr = next(it), next(it)
            case = {"kind": "glue", "what": "binop", "arg": op, "x": xk, "y": yk}
            st = ov.get("status")
            P.case(["glue", op, xk, yk], nontrivial=True, sample={"glue": f"{xk} {op} {yk}", "real": real[0]}, src=self.src, glue_outcome=f"{op}:{real[0]}")
            if real[0] == "zerodiv":
                # SymPy evaluates `x % 0` eagerly: legitimate when the model tree has no value at all
                if st != "ok" or any(v is not None for v in ov.get("vals", [])):
                    P.disagree("glue: the real operator raises ZeroDivisionError, the model tree has a value", case, ov, real[0])
                continue
            if st != real[0]:
                P.disagree("glue: outcome kind of a binary operator differs", case, st, real[0] if real[0] != "other" else list(real))
                continue
            if st != "ok":
                continue
            for w, g, g2, env in zip(ov.get("vals", []), vals, pr.get("vals", [None] * len(GLUE_ENVS)) if pr.get("r") == "ok" else [None] * len(GLUE_ENVS), GLUE_ENVS):
                if w is None:
                    continue
                if g != w:
                    P.disagree("glue: value of the dimension a binary operator returns differs from the model tree", {**case, "env": env, "text": real[1].value}, w, g)
                    break
                if pr.get("r") != "ok" or g2 != w:
                    P.disagree("glue: Lean parse of the returned dimension's text differs from the model tree", {**case, "env": env, "text": real[1].value}, w, [pr.get("r"), g2])
                    break

    # -- unary operators and the operators without an overload
    def _prep_unop(self, P: Part):
        fns = {"neg": lambda x: -x, "floor": math.floor, "ceil": math.ceil, "trunc": math.trunc}
        for op in GLUE_UOPS:
            for xk in GLUE_DIMS:
                real = glue_outcome(lambda: fns[op](glue_operand(xk)))
                vals = [real_eval(real[1], e) for e in GLUE_ENVS] if real[0] == "ok" else None
                self.rows.append(("unop", op, xk, real, vals))
                self.reqs.append({"m": "sym.ov", "p": ["u", op, GLUE_KINDS[xk]], "envs": [envj(e) for e in GLUE_ENVS]})
        absent = {"abs": abs, "pos": lambda x: +x, "round": round, "divmod": lambda x: divmod(x, 2), "rdivmod": lambda x: divmod(7, x),
                  "pow3": lambda x: pow(x, 2, 5), "invert": lambda x: ~x, "lshift": lambda x: x << 1, "matmul": lambda x: x @ x,
                  "index": lambda x: [0, 1][x], "lt": lambda x: x < 3, "float": float, "complex": complex}
        for name, f in absent.items():
            for xk in ("dimN", "dimE", "unk"):
                real = glue_outcome(lambda: f(glue_operand(xk)))
                P.count(f"glue_absent={name}:{real[0]}")
                if real[0] != "typeerror":
                    P.disagree("glue: an operator the model has no overload for does not raise TypeError", {"kind": "glue", "what": "unop", "op": name, "x": xk}, "typeerror", list(real)[:1])

    def _fin_unop(self, P: Part, outs):
        for (_, op, xk, real, vals), ov in zip(self.rows, outs):
            case = {"kind": "glue", "what": "unop", "op": op, "x": xk}
            P.case(["glue", op, xk], nontrivial=True, src=self.src, glue_outcome=f"{op}:{real[0]}")
            if ov.get("status") != real[0]:
                P.disagree("glue: outcome kind of a unary operator differs", case, ov.get("status"), real[0])
            elif real[0] == "ok":
                for w, g in zip(ov.get("vals", []), vals):
                    if w is not None and g != w:
                        P.disagree("glue: value of the dimension a unary operator returns differs from the model tree", {**case, "text": real[1].value}, w, g)
                        break

    # -- Shape
    SHAPES = [[], [2, 3], [0], ["N", 2], [None], ["N + 1", "M"], ["N/2", None, 4], ["N - N", "N"], ["a b", 2], ["N", "a b"],
              ["floor(N/2)", "M*N", "K", 1], ["max(N, M)", "N % M", "N // M", "-N"], [None, None], ["N", "N", "N"]]
    SHAPE_BINDINGS = [{}, {"N": 3}, {"N": 3, "M": 4}, {"N": 8, "M": 3, "K": 2, "unused": 9}]

    def _prep_shape(self, P: Part):
        import onnx_ir as ir

        for dims in self.SHAPES:
            shp = ir.Shape(dims)
            n = len(dims)
            for b in self.SHAPE_BINDINGS:
                def _go():
                    before = attempt(lambda: shape_obs(shp))
                    oor = attempt(lambda: shp.is_static(n))
                    ev = attempt(lambda: shp.evaluate(b))
                    res = {"before": before[1] if before[0] == "ok" else before[1], "oor": oor[0], "evaluated": None, "after": None}
                    if ev[0] == "ok":
                        res["evaluated"] = [sdim_obs(x) for x in ev[1].dims]
                        res["after"] = shape_obs(ev[1])
                    else:
                        res["evaluated"] = ev[1]
                    return res

                self.rows.append(("shape", dims, b, _go()))
                self.reqs.append({"m": "sym.shape", "b": envj(b),
                                  "dims": [x if isinstance(x, int) else ["unknown"] if x is None else ["dim", x] for x in dims]})

    def _fin_shape(self, P: Part, outs):
        for (_, dims, b, real), so in zip(self.rows, outs):
            case = {"kind": "glue", "what": "shape", "dims": dims, "b": b}
            P.case(["glue", "shape", dims, sorted(b.items())], nontrivial=bool(dims), src=self.src, glue_shape_rank=len(dims))
            mb = so.get("before") or {}
            if isinstance(real["before"], str):
                # free_symbols() raises for a text that does not parse
                if mb.get("free") is not None or real["before"] != "raised:ValueError":
                    P.disagree("glue: Shape observers raise in only one of model / real code", case, mb.get("free"), real["before"])
            else:
                for k in ("static", "dynamic", "static_at", "dynamic_at"):
                    if mb.get(k) != real["before"][k]:
                        P.disagree(f"glue: Shape.{k} differs", case, mb.get(k), real["before"][k])
                if sorted(mb.get("free") or []) != real["before"]["free"]:
                    P.disagree("glue: Shape.free_symbols() differs", case, mb.get("free"), real["before"]["free"])
            if (so.get("before") or {}).get("out_of_range") is not None or real["oor"] != "exc":
                P.disagree("glue: Shape.is_static(rank) must raise IndexError", case, (so.get("before") or {}).get("out_of_range"), real["oor"])
            mev = so.get("evaluated")
            if isinstance(real["evaluated"], str):
                if mev is not None or real["evaluated"] != "raised:ValueError":
                    P.disagree("glue: Shape.evaluate raises in only one of model / real code", case, mev, real["evaluated"])
                continue
            if mev is None or len(mev) != len(real["evaluated"]):
                P.disagree("glue: Shape.evaluate rank differs / the model raises", case, mev, real["evaluated"])
                continue
            same = True
            for m, r in zip(mev, real["evaluated"]):
                if m["kind"] == "int" and r != {"kind": "int", "z": m["z"]}:
                    same = False
                    P.disagree("glue: Shape.evaluate dimension differs (model int)", case, m, r)
                elif m["kind"] == "unknown" and r["kind"] != "unknown":
                    same = False
                    P.disagree("glue: Shape.evaluate dimension differs (unknown)", case, m, r)
                elif m["kind"] == "dim" and r["kind"] == "int":
                    same = False
                    P.count("shape_eval=real-int-by-simplification")
                elif m["kind"] == "dim" and r["kind"] != "dim":
                    same = False
                    P.disagree("glue: Shape.evaluate dimension differs (dimension)", case, m, r)
                elif m["kind"] == "dim" and not set(_free_of_text(r["text"])) <= set(m.get("free", [])):
                    P.disagree("glue: residual dimension has free symbols the model's has not", case, m.get("free"), r["text"])
            if same:
                ma, ra = so.get("after") or {}, real["after"]
                for k in ("static", "dynamic", "static_at", "dynamic_at"):
                    if ma.get(k) != ra[k]:
                        P.disagree(f"glue: Shape.{k} differs after evaluate", case, ma.get(k), ra[k])
                if sorted(ma.get("free") or []) != ra["free"]:
                    P.disagree("glue: Shape.free_symbols() differs after evaluate", case, ma.get("free"), ra["free"])

    # -- equality and hash
    def _prep_eq(self, P: Part):
        import onnx_ir as ir
        import sympy

        lefts = [("text", None), ("text", "N"), ("text", "N + 1"), ("text", ""), ("text", "a b"), ("computed", "N + 1"), ("computed", "2*N")]
        others = [("dim", None), ("dim", "N"), ("dim", "N + 1"), ("dim", ""), ("dim", "1 + N"), ("dim", "2*N"), ("str", "N"), ("str", "N + 1"), ("str", ""),
                  ("str", "2*N"), ("str", "None"), ("none",), ("other", 3), ("other", 1.5), ("other", "sym"), ("other", "tuple")]

        def mk_left(kind, v):
            if kind == "text":
                return ir.SymbolicDim(v)
            return {"N + 1": lambda: ir.SymbolicDim("N") + 1, "2*N": lambda: 2 * ir.SymbolicDim("N")}[v]()

        for lk, lv in lefts:
            a = mk_left(lk, lv)
            if a.value != lv:
                P.disagree("glue: the text of a computed dimension is not the expected SymPy text", {"kind": "glue", "what": "eq", "left": [lk, lv]}, lv, a.value)
            for o in others:
                if o[0] == "dim":
                    b, mo = ir.SymbolicDim(o[1]), ["dim", o[1]]
                elif o[0] == "str":
                    b, mo = o[1], ["str", o[1]]
                elif o[0] == "none":
                    b, mo = None, ["none"]
                else:
                    b, mo = {3: 3, 1.5: 1.5, "sym": sympy.Symbol("N", integer=True, positive=True), "tuple": ("N",)}[o[1]], ["other"]
                eq, ne = a == b, a != b
                hk = hash(a) == hash(lv)
                heq = (hash(a) == hash(b)) if o[0] == "dim" else None
                self.rows.append(("eq", [lk, lv], list(o), eq, ne, hk, heq))
                self.reqs.append({"m": "sym.dimeq", "v": lv, "o": mo})

    def _fin_eq(self, P: Part, outs):
        for (_, left, o, eq, ne, hk, heq), mo in zip(self.rows, outs):
            case = {"kind": "glue", "what": "eq", "left": left, "other": [str(x) for x in o]}
            P.case(["glue", "eq", left, [str(x) for x in o]], nontrivial=True, src=self.src, glue_eq=f"{o[0]}:{eq}")
            if mo.get("eq") != eq:
                P.disagree("glue: == differs", case, mo.get("eq"), eq)
            if ne != (not eq):
                P.disagree("glue: != is not the negation of ==", case, not eq, ne)
            if not hk or mo.get("hashkey") != left[1]:
                P.disagree("glue: hash(dim) is not hash(dim.value)", case, mo.get("hashkey"), left[1])
            if eq and heq is False:
                P.disagree("glue: equal dimensions hash differently", case, True, heq)

    def prepare(self, P: Part):
        self.case_obj = {"kind": "glue", "what": self.what, "arg": self.arg}
        getattr(self, "_prep_" + self.what)(P)
        if not self.reqs:
            raise SkipCase

    def finish(self, P: Part, outs):
        getattr(self, "_fin_" + self.what)(P, outs)


def _free_of_text(text):
    """identifiers of a (real, printed) dimension text that are not function names"""
    toks = lex(text) or []
    return {t for i, (k, t) in enumerate(toks) if k == "id" and not (i + 1 < len(toks) and toks[i + 1][0] == "(")}


# --------------------------------------------------------------------------- tokenizer over a small alphabet, exhaustively

ALPHABET = [" ", "\t", "N", "_", "1", "0", ".", "e", "+", "-", "*", "/", "%", "(", ")", ",", "#",
            "\u00e9", "\u0663", "\u00a0", "\u00b2", "\u00bd", "\u2167", "\u0301"]
# blank, tab | letter, underscore, digits, dot, the letter of 1e3 | operators, brackets, comma, an unknown character |
# e-acute (letter), ARABIC-INDIC DIGIT THREE (a digit int() reads), NO-BREAK SPACE (isspace), SUPERSCRIPT TWO (isdigit, int()
# refuses), VULGAR FRACTION ONE HALF (isalnum only: continues), ROMAN NUMERAL EIGHT (isidentifier but not isalpha: starts),
# COMBINING ACUTE (continues an identifier for isidentifier only)


def char_class(c: str):
    """CPython's verdict on one non-ASCII character, in the model's classification (Model/SymLexU.lean CClass), in the
    order the tokenizer asks (_symbolic_shapes.py get_token, repaired by D440 / fix commit 47a2c19)"""
    if c.isspace():
        return [c, "space"]
    if c.isdigit():
        try:
            return [c, "digit", int(c)]
        except ValueError:
            return [c, "digit", None]
    if c.isalpha() or c.isidentifier():
        return [c, "alpha"]  # starts an identifier
    if c.isalnum() or ("_" + c).isidentifier():
        return [c, "numeric"]  # continues an identifier only
    return [c, "other"]


class AlphabetCase:
    """Every string over ALPHABET of the given lengths through the real tokenizer / parser and the model's
    classification-parametric tokenizer (sym.lexu): token streams, accept / reject, values."""

    def __init__(self, first: list, length: int, src: str = "alphabet"):
        self.first, self.length, self.src = first, length, src
        self.reqs = []
        self.rows = []

    def prepare(self, P: Part):
        for head in self.first:
            for rest in itertools.product(ALPHABET, repeat=self.length - 1):
                s = head + "".join(rest)
                toks = real_tokens(s)
                out = real_parse_outcome(s)
                names = sorted({t[1] for t in (toks or []) if t[0] == "IDENT"} | ({s} if s.isidentifier() else set()))
                env = {n: 2 + (len(n) % 3) for n in names}
                val = real_eval(out[1], env) if out[0] == "ok" else None
                self.rows.append((s, toks, out[0], val, env))
                self.reqs.append({"m": "sym.lexu", "s": s, "ident": s.isidentifier(), "envs": [envj(env)],
                                  "cls": [char_class(c) for c in sorted(set(s)) if ord(c) >= 128]})

    def finish(self, P: Part, outs):
        for (s, toks, out, val, env), lo in zip(self.rows, outs):
            case = {"kind": "alphabet", "s": s}
            P.case(["alphabet", s], nontrivial=len(s) > 1, src=self.src, alphabet_outcome=out, alphabet_len=len(s), alphabet_ascii=s.isascii())
            if lo.get("tokens") != toks:
                P.disagree("alphabet: token streams differ", case, lo.get("tokens"), toks)
            if out == "arith":
                if lo.get("r") == "ok" and any(v is not None for v in lo.get("vals") or []):
                    P.disagree("alphabet: the real parser hit an arithmetic error, the model tree has a value", case, lo, out)
            elif lo.get("r") != out:
                P.disagree("alphabet: accept / reject differs", case, lo.get("r"), out)
            elif out == "ok":
                w = (lo.get("vals") or [None])[0]
                if w is not None and val != w:
                    P.disagree("alphabet: values differ", {**case, "env": env}, w, val)



# --------------------------------------------------------------------------- the character classification over the whole BMP

BMP_CHUNK = 2048


def _cls_code(c: str):
    """`char_class` in the compact form of the driver command sym.lexu_sweep"""
    k = char_class(c)
    if k[1] == "digit":
        return "d" if k[2] is None else k[2]
    return {"space": "s", "alpha": "a", "numeric": "n", "other": "o"}[k[1]]


class BmpSweepCase:
    """The parameter of the classification-parametric tokenizer, checked instead of assumed: for EVERY code point of the
    range (the run covers the whole Basic Multilingual Plane, surrogates excepted: not characters) the class the model
    tokenizer is run with (`char_class`; the model's own `asciiClass` for ASCII) must reproduce the verdicts of CPython's
    str.isspace / isdigit / isalpha / isalnum / isidentifier and int() exactly as `_ExpressionTokenizer.get_token` asks them
    (skip; digit run; identifier start; identifier continuation; digit value; isidentifier of the one-character text), and
    the model tokenizer under that class must return the real tokenizer's tokens on the probe texts c, ac, 1c, c1."""

    def __init__(self, lo: int, hi: int, src: str = "bmp"):
        self.lo, self.hi, self.src = lo, hi, src
        self.case_obj = {"kind": "bmp", "lo": lo, "hi": hi}
        self.reqs = []
        self.rows = []

    def prepare(self, P: Part):
        cls = []
        for n in range(self.lo, self.hi):
            if 0xD800 <= n <= 0xDFFF:
                cls.append("o")
                self.rows.append(None)
                continue
            c = chr(n)
            cls.append(_cls_code(c))
            _mark("classify", c)
            dv = None
            if c.isdigit():
                try:
                    dv = int(c)
                except ValueError:
                    dv = None
            preds = [c.isspace(), c.isdigit(), c.isalpha() or c == "_" or c.isidentifier(),
                     c.isalnum() or c in "_." or ("_" + c).isidentifier(), dv, c.isidentifier() if n < 128 else None]
            _unmark()
            self.rows.append((n, preds, [real_tokens(t) for t in (c, "a" + c, "1" + c, c + "1")]))
            # property oracle (independent of the model): a non-ASCII blank / decimal digit reads like its ASCII normalisation
            if n >= 128 and (preds[0] or preds[1]):
                text = "N" + c + "+" + c + "2" if preds[0] else "N+" + c
                want = [5, 1] if preds[0] else ([3 + dv, 1] if dv is not None else None)
                out = real_parse_outcome(text)
                got = real_eval(out[1], {"N": 3}) if out[0] == "ok" else None
                P.count("bmp_oracle=" + ("space" if preds[0] else "digit" if dv is not None else "digit-int-refuses"))
                if (want is None and out[0] == "ok") or (want is not None and got != want):
                    P.fail(f"non-ascii:{'space' if preds[0] else 'digit'}:U+{n:04X}",
                           f"text {text!r} (U+{n:04X} is a {'blank' if preds[0] else 'digit'} for str.{'isspace' if preds[0] else 'isdigit'}) is {out[0]} with value {got} at N=3, "
                           f"its ASCII normalisation gives {want if want is not None else 'ValueError (int() refuses the digit)'}", {"kind": "bmp", "lo": n, "hi": n + 1})
        self.reqs.append({"m": "sym.lexu_sweep", "lo": self.lo, "cls": cls})

    def finish(self, P: Part, outs):
        got = outs[0].get("rows") or []
        P.case(["bmp", self.lo, self.hi], nontrivial=True, src=self.src, bmp_chunk="swept")
        if len(got) != len(self.rows):
            P.disagree("bmp sweep: the driver answered for another number of code points", self.case_obj, len(got), len(self.rows))
            return
        bad = 0
        for row, g in zip(self.rows, got):
            if row is None:
                continue
            n, preds, toks = row
            P.count("bmp_codepoints")
            if g is None:
                P.disagree("bmp sweep: the model has no character for a code point Python has", {"kind": "bmp", "lo": n, "hi": n + 1}, None, n)
                continue
            kind = "space" if preds[0] else "digit" if preds[1] else "start" if preds[2] else "continue" if preds[3] else "other"
            P.count("bmp_class=" + kind + ("" if n >= 128 else ":ascii"))
            if g[:6] != preds and bad < 5:
                bad += 1
                P.disagree("bmp sweep: the classification the model tokenizer runs with differs from CPython's str predicates "
                           "[isspace, isdigit, starts an identifier, continues an identifier, int(), isidentifier]",
                           {"kind": "bmp", "lo": n, "hi": n + 1}, g[:6], preds)
            if g[6:] != toks and bad < 5:
                bad += 1
                P.disagree("bmp sweep: model tokenizer under the classification differs from the real tokenizer on c, ac, 1c, c1",
                           {"kind": "bmp", "lo": n, "hi": n + 1}, g[6:], toks)


# --------------------------------------------------------------------------- SymPy's printer on sqrt spellings / Rational powers

SQRT_TEXTS = ["sqrt(N)", "1/sqrt(N)", "M/sqrt(N)", "sqrt(N + 1)", "N**(1/3)", "M/N**(2/3)", "sqrt(2)*N", "sqrt(N*M)", "N**(3/2)",
              "M*N**(-3/2)", "sqrt(8)", "K/(M*sqrt(N))", "sqrt(N)/2", "2**sqrt(N)", "sqrt(N)**3", "sqrt(N/M)", "sqrt(N) + sqrt(M)",
              "-sqrt(N)", "N - sqrt(M)", "floor(sqrt(N))", "max(sqrt(N), M)", "sqrt(N)**-1", "1/(2*sqrt(N))", "N**(-1/3)", "sqrt(4*N)",
              "Mod(sqrt(N), 2)", "(N + 1)**(1/2)", "(N*M)**(-1/2)", "N**(5/2)/M", "sqrt(N)*sqrt(M)",
              # symbolic negative exponents in a denominator (SWfX; C16_print_parse_sympy_symexp)
              "M*K**(-N)", "M/K**N", "2**(-N)*M", "M*K**(-2*N)", "M*K**(-N/2)", "M*(N + 1)**(-K)", "M*(N - 1)**(-K)", "K**(-N)",
              "M/(K**N*N)", "M*K**(-N)*N**(-M)", "M*K**(-N*M)", "M/(2*K**N)", "-M*K**(-N)", "M*K**(1 - N)", "M*K**(-N - 1)",
              "M/K**(N*(M + 1))", "K**(-N)/3", "M*K**(-3*N/4)", "M*(N - M)**(-K)", "M*(N - 1)**(K*(1 - M))"]
PLAIN_TEXTS = ["N", "M", "K", "N + 1", "N/2", "floor(N/2)", "N*M", "N - M", "2*N", "N**2", "1/N", "M/N**2", "max(N, M)", "Mod(N, 3)"]
SQRT_ENVS = [{"N": 4, "M": 9, "K": 16}, {"N": 2, "M": 3, "K": 5}, {"N": 1, "M": 1, "K": 1}, {"N": 9, "M": 4, "K": 2}, {"N": 16, "M": 25, "K": 3}]


def sqrt_items(rng, count):
    items = [dict(a=t, op=None, b=None) for t in SQRT_TEXTS]
    ops = ["add", "sub", "mul", "truediv", "radd", "rsub", "rmul", "rtruediv", "neg"]
    while len(items) < count:
        a = rng.choice(SQRT_TEXTS)
        op = rng.choice(ops)
        b = rng.choice([-3, -2, -1, 2, 3, 4]) if op.startswith("r") or rng.random() < 0.4 else rng.choice(SQRT_TEXTS + PLAIN_TEXTS)
        items.append(dict(a=a, op=op, b=b))
    return items


def _sympy_pp_values(P, sp, case):
    """the evaluation half of the SymPy-surface theorems on one case: for a well-formed tree (SWf, C16_print_parse_sympy) the parsed
    text and the meaning agree under every binding; with symbolic negative exponents in a denominator (SWfX only,
    C16_print_parse_sympy_symexp) under every binding that leaves no such denominator's base zero (denNZ, share published);
    outside both hypotheses the comparison is differential"""
    vp, vd, nz = sp.get("vals_parsed") or [], sp.get("vals_den") or [], sp.get("nz") or []
    P.count("sympy_pp_wfx=" + str(bool(sp.get("wfx"))))
    if sp.get("wf"):
        if not all(nz):
            P.disagree("C16_print_parse_sympy_symexp contradicted: SWf but denNZ false under some binding", case, nz, True)
        if vp != vd:
            P.disagree("C16_print_parse_sympy contradicted: a well-formed SymPy tree whose printed text evaluates differently from its meaning", case, vp, vd)
        return
    if sp.get("wfx"):
        P.count("sympy_pp_symexp=" + ("every-binding-nonzero-base" if all(nz) else "some-binding-zero-base"))
        for a, b, ok in zip(vp, vd, nz):
            if ok and a != b:
                P.disagree("C16_print_parse_sympy_symexp contradicted: SWfX and denNZ, yet the printed text evaluates differently from the meaning", case, vp, vd)
                return
            if not ok:
                # C16_print_parse_sympy_refines: at a zero base the text may lose its value, it never gets ANOTHER value
                P.count("sympy_pp_symexp_zero_base=" + ("same" if a == b else "text-has-no-value" if a is None else "DIFFERENT"))
                if a is not None and a != b:
                    P.disagree("C16_print_parse_sympy_refines contradicted: with a zero-based symbolic denominator the printed text has a value other than the meaning's", case, vp, vd)
                    return
        return
    if vp != vd:
        P.disagree("SymPy surface form (outside SWfX): the parsed text evaluates differently from the SymPy object's meaning (sden)", case, vp, vd)


class SympyTextCase:
    """The model of SymPy's printer on the `sqrt` spellings and Rational exponents (wave 4: inside SWf): a dimension given
    as text with sqrt / a Rational power, alone or combined through one real overload with an int / another dimension;
    the SymPy object it holds goes through ppSympy (token-exact against the real str()), the hypothesis SWf, parse = surf,
    vals_parsed = vals_den (C16_print_parse_sympy), and the meaning sden against the real evaluate() where it is rational."""

    def __init__(self, a, op=None, b=None, src: str = "sqrt"):
        self.a, self.op, self.b, self.src = a, op, b, src
        self.case_obj = {"kind": "sympytext", "a": a, "op": op, "b": b}
        self.reqs = []

    def prepare(self, P: Part):
        import onnx_ir as ir
        from harness.c16_sympy import real_tokens_of_text, sexpr_of_sympy

        self.row = None

        def build():
            x = ir.SymbolicDim(self.a)
            y = self.b if isinstance(self.b, int) or self.b is None else ir.SymbolicDim(self.b)
            op = self.op
            if op is None:
                return x
            if op == "neg":
                return -x
            if op.startswith("r"):
                return {"radd": lambda: y + x, "rsub": lambda: y - x, "rmul": lambda: y * x, "rtruediv": lambda: y / x}[op]()
            return {"add": lambda: x + y, "sub": lambda: x - y, "mul": lambda: x * y, "truediv": lambda: x / y}[op]()

        _mark("operator", self.a, [self.op, self.b])
        st, d = attempt(build)
        _unmark()
        if st != "ok" or d.value is None:
            P.count("sqrt_pp=construction-" + (d if st != "ok" else "unknown"))
            return
        st, sx = attempt(lambda: (sexpr_of_sympy(d._expr), str(d._expr)))
        if st != "ok" or sx[0] is None or not sx[1].isascii():
            P.count("sqrt_pp=outside-fragment")
            return
        vals = [real_eval(d, e) for e in SQRT_ENVS]
        self.row = (sx[1], real_tokens_of_text(sx[1]), vals)
        self.reqs.append({"m": "sym.sympy_pp", "e": sx[0], "envs": [envj(e) for e in SQRT_ENVS]})

    def finish(self, P: Part, outs):
        if self.row is None:
            return
        text, toks, vals = self.row
        sp = outs[0]
        case = {**self.case_obj, "text": text}
        P.case(["sympytext", self.a, self.op, self.b], nontrivial=True, sample={"text": text}, src=self.src, sqrt_pp_wf=str(bool(sp.get("wf"))))
        if sp.get("tokens") != toks:
            P.disagree("sqrt / Rational power: the model of SymPy's printer (ppSympy) emits other tokens than the real str()", case, sp.get("s"), text)
            return
        if sp.get("wf") and sp.get("parsed") != sp.get("surf"):
            P.disagree("model: parseTokens (ppSympy s) != surf s on a well-formed s", case, sp.get("parsed"), sp.get("surf"))
        if sp.get("parsed") is None:
            P.disagree("model parser rejects the text of the model of SymPy's printer", case, None, text)
            return
        _sympy_pp_values(P, sp, case)
        P.count("sqrt_pp=token-exact")
        for w, g, env in zip(sp.get("vals_den") or [], vals, SQRT_ENVS):
            if w is not None and g != w:
                P.disagree("sqrt / Rational power: the meaning of the SymPy object (sden) differs from the real evaluate()", {**case, "env": env}, w, g)
                break


IDENT_NAMES = ["\u2167", "e\u0301", "\u0928\u093e", "x\u00b7y", "N\u0663", "\u2115", "\u00e9t\u00e9", "\u5f20\u91cf", "_\u0301", "N\u2080",
               "batch", "a.b", "x1"]


class IdentNameCase:
    """A dimension may be named by any identifier (`parse_symbolic_expression` accepts every `str.isidentifier()` text):
    arithmetic on it must print a text that parses back to the same evaluations (oracle only)."""

    def __init__(self, name: str, src: str = "ident-name"):
        self.name, self.src = name, src
        self.reqs = []

    def prepare(self, P: Part):
        import unicodedata

        import onnx_ir as ir

        name = self.name
        case = {"kind": "ident-name", "name": name}
        P.case(["ident-name", name], nontrivial=True, src=self.src, ident_name_ascii=name.isascii())
        if not name.isidentifier() and "." not in name:
            raise SkipCase
        for what, mk, want in (("+1", lambda d: d + 1, 4), ("2*", lambda d: 2 * d, 6), ("//2", lambda d: d // 2, 1), ("neg", lambda d: -d, -3)):
            st, d = attempt(lambda: mk(ir.SymbolicDim(name)))
            if st != "ok":
                P.fail(f"unicode-identifier:arithmetic:{what}", f"SymbolicDim({name!r}) {what} raises {d}", case)
                continue
            rp = real_parse_outcome(d.value)
            if rp[0] != "ok":
                toks_ok = ""
                for i, ch in enumerate(d.value):
                    if real_tokens(d.value[: i + 1]) is None:
                        toks_ok = unicodedata.category(ch)
                        break
                cat = toks_ok if toks_ok in ("Mn", "Mc", "Nl", "Po", "Lm") else "Other"
                P.fail(f"unicode-identifier:print-parse:{cat}", f"(SymbolicDim({name!r}) {what}).value = {d.value!r} does not parse back ({rp[1]})", case)
                break
            got = real_eval(rp[1], {name: 3})
            if got != [want, 1]:
                P.fail(f"unicode-identifier:print-parse:value:{what}", f"SymbolicDim({d.value!r}).evaluate({{{name!r}: 3}}) = {got}, expected {want}", case)
        raise SkipCase

    def finish(self, P: Part, outs):
        pass


def real_tokens(s: str):
    from onnx_ir._symbolic_shapes import _ExpressionTokenizer

    _mark("tokenize", s)
    tz = _ExpressionTokenizer(s)
    out = []
    try:
        while True:
            t = tz.get_token()
            if t is None:
                break
            out.append([t[0], t[1]])
    except ValueError:
        out = None
    _unmark()
    return out


def _missing_op(t) -> str:
    """which int-on-the-left operator a TypeError came from (best effort: first int // or % dim)"""

    def find(x):
        if x[0] == "b":
            if x[1] in ("fdiv", "mod") and x[2][0] == "n":
                return "int" + {"fdiv": "//", "mod": "%"}[x[1]] + "dim"
            return find(x[2]) or find(x[3])
        if x[0] == "u":
            return find(x[2])
        return None

    return find(t) or "other"


def _shape_sig(t) -> str:
    ops = sorted(set(tree_ops(t, [])))
    return "+".join(ops)[:60]


def _text_sig(s: str) -> str:
    """coarse shape of a text: function names and operator kinds present"""
    if not isinstance(s, str):
        return "<%s>" % type(s).__name__
    fns = sorted(set(re.findall(r"[A-Za-z_]+(?=\()", s)))
    ops = [o for o in ["**", "//", "%", "/", "*", "-", "+"] if o in s]
    return (",".join(fns) + "|" + "".join(ops))[:60]


# --------------------------------------------------------------------------- workers


_CASE_CLASSES = {}


def _make_case(kind, it):
    cls = {"tree": TreeCase, "deriv": DerivCase, "unknown": UnknownDimCase, "nonascii": NonAsciiCase, "glue": GlueCase,
           "alphabet": AlphabetCase, "identname": IdentNameCase, "sympybuilt": SympyDimCase, "bmp": BmpSweepCase,
           "sympytext": SympyTextCase}.get(kind, StringCase)
    return cls(**it)


def _replay_obj(kind, it, c):
    """a case object `replay` understands, for a case that did not get as far as building its own"""
    obj = getattr(c, "case_obj", None)
    if obj:
        return obj
    if kind == "tree":
        return {"kind": "tree", "tree": it.get("tree"), "envs": it.get("envs"), "splits": it.get("splits")}
    if kind == "sympybuilt":
        return {"kind": "sympy-built", **{k: it.get(k) for k in ("tree", "mode", "envs", "splits")}}
    if kind == "alphabet":
        return {"kind": "alphabet", "s": (_CALL[0] or (None, None))[1] or (it.get("first") or [""])[0]}
    return {"kind": kind, **{k: v for k, v in it.items() if k != "src"}}


def _under_cpu_guard(seconds, fn):
    """fn() under the worker's CPU-time alarm; -> ('ok', value) | ('timeout', None) | ('exc', type name)"""
    import signal

    try:
        signal.setitimer(signal.ITIMER_VIRTUAL, seconds)
        return ("ok", fn())
    except CaseTimeout:
        return ("timeout", None)
    except (MemoryError, RecursionError, TooBig, SkipCase) as e:
        return ("exc", type(e).__name__)
    finally:
        signal.setitimer(signal.ITIMER_VIRTUAL, 0)


def _timeout_fail(P, kind, it, c, label, cpu_s, how="CPU"):
    """A call into the real code did not finish under the guard: an input on which the implementation does not terminate
    (in any useful time) - `nontermination:<channel>:<shape>`.  It is SymPy's own (`sympy-upstream:nontermination:...`, a
    signature no known finding covers: still a violation, but attributed) only when SymPy ALONE, driven with the documented
    operations on the standard reading of the same text / tree, does not finish under the same guard either."""
    channel, text, detail = label
    case = _replay_obj(kind, it, c)
    tree = getattr(c, "tree", None)
    try:
        reading = py_tree(text) if isinstance(text, str) else tree
    except Exception:  # noqa: BLE001
        reading = None
    if reading is None and channel in ("build", "construct", "evaluate", "simplify", "shape-evaluate"):
        reading = tree
    envs = [detail] if isinstance(detail, dict) else list(getattr(c, "envs", None) or [])[:2]
    upstream = False
    if reading is not None:
        def _alone():
            for e in envs or [{}]:
                sympy_direct_value(reading, e, simplify=(channel == "simplify"))
        upstream = _under_cpu_guard(cpu_s, _alone)[0] == "timeout"
    shape = _text_sig(text) if isinstance(text, str) else (_shape_sig(tree) if tree is not None else kind)
    sig = ("sympy-upstream:nontermination:" if upstream else "nontermination:") + f"{channel}:{shape}"
    P.count("nontermination=" + ("sympy-alone-too:" if upstream else "") + channel)
    P.fail(sig, f"{channel} did not finish within {cpu_s:g} s {how} time on text {text!r}" + (f" under {detail}" if isinstance(detail, dict) else "")
           + (" [SymPy alone, on the standard reading of the same input, does not finish either]" if upstream
              else " [SymPy alone, on the standard reading of the same input, finishes: the implementation made the input expensive]"), case)


def _run_chunk(arg):
    import resource
    import signal
    import time
    import traceback

    kind, items = arg[0], arg[1]
    chunk_id = arg[2] if len(arg) > 2 else None
    P = Part()
    cases = []
    try:
        resource.setrlimit(resource.RLIMIT_AS, (6 << 30, 6 << 30))
    except (ValueError, OSError):
        pass

    def _alarm(_sig, _frm):
        raise CaseTimeout

    signal.signal(signal.SIGVTALRM, _alarm)  # CPU time of this worker, not wall time: independent of machine load
    signal.signal(signal.SIGALRM, _alarm)  # wall time, generous: a call that blocks without using CPU
    shared, progress, t_end = _LIM["timeouts"], _LIM["progress"], _LIM["t_end"]

    def _disarm():
        signal.setitimer(signal.ITIMER_VIRTUAL, 0)
        signal.setitimer(signal.ITIMER_REAL, 0)

    def _note(i, phase):
        # for the parent: which case this worker is in (see _pmap_guarded)
        if progress is not None and chunk_id is not None:
            k = 4 * chunk_id
            progress[k], progress[k + 1], progress[k + 2], progress[k + 3] = i, os.getpid(), int(1000 * time.process_time()), phase

    def _crashed(c, it, e, phase):
        # never a crash of the check: an exception nobody expected while the real code was being exercised (a changed
        # implementation returned something the harness has no clause for) is a disagreement with a replayable case
        tb = traceback.extract_tb(e.__traceback__)
        where = f"{os.path.basename(tb[-1].filename)}:{tb[-1].lineno} in {tb[-1].name}" if tb else "?"
        P.count("unexpected_exception=" + type(e).__name__)
        P.disagree(f"unexpected {type(e).__name__} while {phase} the case ({str(e)[:200]}; at {where})", _replay_obj(kind, it, c), None, type(e).__name__)

    for i, it in enumerate(items):
        c = _make_case(kind, it)
        cases.append(c)
        ntimeouts = shared.value if shared is not None else 0
        if ntimeouts >= _LIM["max_timeouts"] and kind in ("tree", "string", "deriv", "sympybuilt"):
            # enough non-terminating inputs are on record: do not spend the run's time on more of them
            P.count("skipped=timeout-budget")
            c.reqs, c.skip_all = [], True
            continue
        if t_end is not None and time.time() > t_end:
            P.count("skipped=deadline")
            c.reqs, c.skip_all = [], True
            continue
        cpu_s = _LIM["case_cpu"] if ntimeouts < 4 else max(3.0, _LIM["case_cpu"] / 4)
        _note(i, 1)
        _unmark()
        t0 = time.process_time()
        try:
            signal.setitimer(signal.ITIMER_REAL, _LIM["case_wall"])
            signal.setitimer(signal.ITIMER_VIRTUAL, cpu_s)
            c.prepare(P)
            _disarm()
        except (RecursionError, MemoryError, CaseTimeout, SkipCase) as e:
            _disarm()
            label = _CALL[0]
            _unmark()
            c.reqs = []
            c.skip_all = True
            if isinstance(e, CaseTimeout) and label is not None:
                if shared is not None:
                    shared.value += 1  # a lost update under contention only delays the budget
                how = "CPU" if time.process_time() - t0 >= 0.9 * cpu_s else "wall"
                _timeout_fail(P, kind, it, c, label, cpu_s if how == "CPU" else _LIM["case_wall"], how)
            elif not isinstance(e, SkipCase):
                P.count("skipped=" + type(e).__name__)  # the harness's own oracle / blame computation, or memory / recursion
                P.count("skipped_where=" + type(e).__name__ + ":" + it.get("src", kind) + ":" + str((label or ["oracle"])[0]))
        except Exception as e:  # noqa: BLE001
            _disarm()
            _unmark()
            c.reqs = []
            c.skip_all = True
            _crashed(c, it, e, "running the real code on")
        dt = int(1000 * (time.process_time() - t0))
        P.count("cpu_ms_real_code+oracle:" + it.get("src", kind), dt)
        P["dist"]["cpu_ms_max_case"] = max(P["dist"].get("cpu_ms_max_case", 0), dt)
    _disarm()
    _note(len(items), 2)
    reqs = [r for c in cases for r in c.reqs]
    outs = _lean(reqs) if reqs else []
    k = 0
    for i, c in enumerate(cases):
        n = len(c.reqs)
        if getattr(c, "skip_all", False):
            continue
        o = outs[k : k + n]
        k += n
        for x in o:
            if "err" in x:
                P.disagree("model driver error", getattr(c, "case_obj", None), x, None)
        if n and all("err" not in x for x in o):
            _note(i, 3)
            t0 = time.process_time()
            try:
                signal.setitimer(signal.ITIMER_VIRTUAL, _LIM["finish_cpu"])
                c.finish(P, o)
            except (RecursionError, MemoryError, CaseTimeout) as e:
                P.count("skipped_in_compare=" + type(e).__name__)
            except Exception as e:  # noqa: BLE001
                _disarm()
                _crashed(c, items[i], e, "comparing model and real code on")
            finally:
                signal.setitimer(signal.ITIMER_VIRTUAL, 0)
                P.count("cpu_ms_compare:" + getattr(c, "src", kind), int(1000 * (time.process_time() - t0)))
    _note(len(items), 4)
    return P


def _pmap_guarded(ctx, chunks, wall_s, procs: int = 16):
    """`pmap(_run_chunk, chunks)` that always comes back: the guards inside the workers turn a non-terminating call into a
    failing input; this is the net under them for a call no signal handler can interrupt (a C loop, a blocked lock).  When
    the wall limit of the whole run expires, the chunks that finished are merged, the workers are killed, and for every worker
    still inside a case that has used more CPU than the in-process guard allows (or has been blocked for longer than its wall
    guard) that case is a failing input `nontermination:uninterruptible:*`; a worker merely starved by an overloaded
    machine is an infrastructure problem, not a verdict."""
    import concurrent.futures as cf
    import multiprocessing as mp
    import time
    from concurrent.futures.process import BrokenProcessPool

    from harness.common import Infra

    mpc = mp.get_context("fork")
    _LIM["timeouts"] = mpc.RawValue("i", 0)
    _LIM["progress"] = progress = mpc.RawArray("q", [-1, 0, 0, 0] * len(chunks))
    _LIM["t_end"] = time.time() + 0.8 * wall_s  # workers stop starting new cases before the parent stops waiting
    chunks = [(k, items, i) for i, (k, items) in enumerate(chunks)]
    ex = cf.ProcessPoolExecutor(max(1, min(procs, len(chunks))), mp_context=mpc)  # also for one chunk: never the real code in this process
    t0 = time.time()
    parts, stuck, starved = [], [], 0
    try:
        futs = [ex.submit(_run_chunk, x) for x in chunks]
        clk = os.sysconf("SC_CLK_TCK")

        def inflight(i):
            """(kind, item, CPU seconds into it) of the case the worker of chunk i cannot get out of, else None"""
            idx, pid, cpu0, phase = progress[4 * i : 4 * i + 4]
            if idx < 0 or phase != 1 or idx >= len(chunks[i][1]):
                return None  # not started, waiting for the model driver, or comparing
            try:
                with open(f"/proc/{pid}/stat") as fh:
                    fields = fh.read().rsplit(")", 1)[1].split()
                used = (int(fields[11]) + int(fields[12])) / clk - cpu0 / 1000.0
            except (OSError, ValueError, IndexError):
                return None
            # the in-process guard fires at case_cpu (+ as much again for the SymPy-alone reproduction)
            return (chunks[i][0], chunks[i][1][idx], used) if used > 3 * _LIM["case_cpu"] + 5 else None

        pending = set(range(len(futs)))
        while pending and time.time() - t0 < wall_s:
            cf.wait([futs[i] for i in pending], timeout=5)
            pending = {i for i in pending if not futs[i].done()}
            if pending and len(pending) <= procs and all(inflight(i) is not None for i in pending):
                break  # everything else is done; these workers will never come back
        for i, f in enumerate(futs):
            if i not in pending:
                parts.append(f.result())
                continue
            st = inflight(i)
            if st is not None:
                stuck.append(st)
            else:
                starved += 1
    except BrokenProcessPool as e:
        raise Infra(f"a worker process died abruptly (killed? out of memory?): {e}") from e
    finally:
        workers = list(getattr(ex, "_processes", {}).values())
        ex.shutdown(wait=False, cancel_futures=True)
        for w in workers:
            try:
                w.terminate()
            except Exception:  # noqa: BLE001
                pass
        for w in workers:
            try:
                w.join(2)
                if w.is_alive():
                    w.kill()
            except Exception:  # noqa: BLE001
                pass
    for kind, it, used in stuck:
        ctx.count("nontermination=uninterruptible")
        ctx.fail(f"nontermination:uninterruptible:{kind}:{_shape_sig(it['tree']) if 'tree' in it else _text_sig(it.get('s', ''))}",
                 f"the worker was still inside this case, {used:.0f} s of CPU into it (in-process guard: {_LIM['case_cpu']:g} s), when every other chunk had finished "
                 f"(or the pool's wall limit of {wall_s:g} s expired): a call into the real code that neither returns nor can be interrupted", _replay_obj(kind, it, None))
    if starved:
        ctx.count("chunks_unfinished_at_wall_limit", starved)
        ctx.notes.append(f"{starved} of {len(chunks)} chunks had not finished when the wall limit of {wall_s:g} s expired")
        ctx.extra["unfinished_chunks"] = starved
    ctx.count("pool_wall_s", int(time.time() - t0))
    return parts


def _lean(reqs):
    """lean_batch, waiting out a concurrent `lake build` that is replacing the driver binary"""
    import time

    from harness.common import Infra

    for attempt in range(40):
        try:
            return lean_batch(reqs)
        except (Infra, OSError):
            if attempt == 39:
                raise
            time.sleep(3)


def _chunks(kind, items, n):
    k = max(1, (len(items) + n - 1) // n)
    return [(kind, items[i : i + k]) for i in range(0, len(items), k)]


def make_envs(rng, syms, count, lo=1, hi=9):
    envs = []
    for _ in range(count):
        envs.append({s: rng.randint(lo, hi) for s in syms})
    return envs


def make_splits(rng, env, count):
    syms = sorted(env)
    out = []
    for _ in range(count):
        k = rng.randint(0, len(syms))
        b1s = set(rng.sample(syms, k))
        out.append(({s: env[s] for s in syms if s in b1s}, {s: env[s] for s in syms if s not in b1s}))
    return out


ALLSYMS = SYMS + IDENTS


def run(ctx: Ctx) -> None:
    import onnx_ir  # noqa: F401  (imported before the worker processes fork)
    import sympy  # noqa: F401

    rng = ctx.rng
    ctx.rule = (
        "a tree case = (expression tree, bindings); non-trivial when the tree has >= 1 operator; a string case = one "
        "text; non-trivial when it has > 1 non-blank character; distinct by canonical JSON of the case"
    )
    tree_items, str_items, corpus_other = [], [], []
    # ---- corpus first
    for obj in load_corpus("C16"):
        _add_replay(obj, tree_items, str_items, corpus_other)
    ncorpus = len(tree_items) + len(str_items)
    # ---- exhaustive small scope
    consts = [-2, 0, 1, 3]
    if ctx.quick:
        # depth <= 2 over 2 symbols and 4 constants is ~250k trees; the quick tier enumerates all trees of
        # depth <= 1 and a seed-dependent 1/128 slice of depth 2, the thorough tier all of them
        trees = all_trees(2, ["N", "M"], consts)
        d1 = [t for t in trees if tree_depth(t) <= 1]
        d2 = [t for t in trees if tree_depth(t) == 2]
        off = ctx.seed % 128
        sl = d2[off::128]
        ex = d1 + sl
        ctx.exhaustive_scopes.append(
            f"all {len(d1)} trees of depth <= 1 over symbols N, M and constants -2, 0, 1, 3 (+ - * / // % max min, neg floor ceil trunc), "
            f"all 16 bindings N, M in 1..4; plus slice {off}/128 ({len(sl)} of {len(d2)}) of the depth-2 trees"
        )
    else:
        ex = all_trees(2, ["N", "M"], consts)
        ctx.exhaustive_scopes.append(
            f"all {len(ex)} trees of depth <= 2 over symbols N, M and constants -2, 0, 1, 3, all 16 bindings N, M in 1..4"
        )
    envs16 = [{"N": a, "M": b} for a in range(1, 5) for b in range(1, 5)]
    for t in ex:
        tree_items.append(dict(tree=t, envs=envs16, splits=[({"N": 2}, {"M": 3})], simplify=False, shape=False, src="exhaustive", light=True))
    # ---- identity / unit / small constants on either side of every operator, over operands that are
    #      fractional, negative, or print with ** (shortcuts for "x // 1", "x * 0", ... live here)
    operands = [
        ("s", "N"),
        ("b", "div", ("s", "N"), ("n", 2)),
        ("b", "div", ("b", "sub", ("s", "N"), ("s", "M")), ("n", 3)),
        ("b", "div", ("s", "N"), ("s", "M")),
        ("u", "neg", ("b", "div", ("s", "N"), ("n", 2))),
        ("b", "mul", ("s", "N"), ("s", "N")),
        ("b", "mul", ("b", "mul", ("s", "N"), ("s", "N")), ("s", "M")),
        ("b", "sub", ("s", "M"), ("b", "mul", ("s", "N"), ("s", "N"))),
        ("b", "fdiv", ("s", "N"), ("s", "M")),
        ("b", "mod", ("s", "N"), ("s", "M")),
    ]
    edge_envs = [{"N": 7, "M": 2}, {"N": 3, "M": 5}, {"N": 1, "M": 1}, {"N": 4, "M": 4}]
    nedge = 0
    for x in operands:
        for op in BIN:
            for c in (-1, 0, 1, 2, 3, 4):
                for tree in (("b", op, x, ("n", c)), ("b", op, ("n", c), x)):
                    tree_items.append(dict(tree=tree, envs=edge_envs, splits=[({"N": 7}, {"M": 2})], simplify=(nedge % 6 == 0), shape=(nedge % 3 == 0), src="edge", light=True))
                    nedge += 1
        for op in UN:
            tree_items.append(dict(tree=("u", op, x), envs=edge_envs, splits=[({"M": 2}, {"N": 7})], simplify=False, shape=False, src="edge", light=True))
            nedge += 1
    ctx.exhaustive_scopes.append(
        f"{nedge} edge trees: every binary operator with each constant -1, 0, 1, 2, 3, 4 on either side of {len(operands)} "
        "fractional / negative / power-printing operands, every unary operator on them"
    )
    # ---- zero-valued subexpressions: intermediates that cancel to the constant 0 symbolically (x - x, x % 1, 0 * x, x % x, x // x - 1,
    #      (x + M) - (M + x), 2*x - (x + x)) or only under every positive binding (x // (x + 1), floor(x / (x + 1)), min(0, x)),
    #      alone and inside further arithmetic, through the real overloads, against exact arithmetic
    ztrees = zero_trees()
    zoff = ctx.seed % 3
    zsel = [t for i, (t, alone) in enumerate(ztrees) if alone or not ctx.quick or i % 3 == zoff]
    for i, t in enumerate(zsel):
        tree_items.append(dict(tree=t, envs=edge_envs, splits=[({"N": 7}, {"M": 2}), ({"M": 5}, {"N": 3})], simplify=(i % 8 == 0), shape=(i % 4 == 0), src="zero", light=True))
    ctx.exhaustive_scopes.append(
        f"{len(zsel)} of {len(ztrees)} zero trees (quick: the zero-valued expressions alone + slice {zoff}/3 of the contexts): 12 zero-valued forms over 6 operands, "
        "alone and in 12 arithmetic contexts with 2 other operands"
    )
    # ---- dimensions constructed from user SymPy expressions whose symbols carry other assumptions than the parser's
    sb_items = [it for k, it in corpus_other if k == "sympybuilt"] + sympy_built_items(rng, ctx.pick(150, 1500))
    ctx.exhaustive_scopes.append(
        "dimensions built from SymPy objects: every depth-1 tree over a symbol N with each of 6 assumption sets (none, integer, positive, real, "
        "integer+nonnegative, integer+positive) against 2, a text-built M, an equally flavoured M and the text-built N, leaf-wise and as a whole "
        "SymPy expression (+ max / min as a whole expression), 3 complete and 2 partial bindings; plus random trees with a flavour per leaf"
    )
    # ---- rounding / flooring of a true quotient whose denominator changes sign over the positive bindings, always with
    #      simplify() (seeded C16-r1: ceiling(p/q) rewritten to floor((p + q - 1)/q) before sympy.simplify is right only for
    #      q > 0; the edge family above divides by constants and plain symbols only, and simplifies one tree in six)
    S_, n_ = (lambda k: ("s", k)), (lambda c: ("n", c))
    nums = [S_("N"), ("b", "sub", S_("N"), S_("M")), ("b", "add", S_("N"), n_(1)), ("b", "mul", n_(2), S_("N"))]
    dens = [("b", "sub", S_("M"), n_(5)), ("b", "sub", n_(7), ("b", "mul", n_(2), S_("M"))), ("b", "sub", S_("M"), S_("N")),
            ("u", "neg", S_("M")), ("b", "sub", n_(3), S_("M")), ("b", "sub", S_("M"), n_(2))]
    sign_envs = [{"N": 7, "M": 2}, {"N": 5, "M": 3}, {"N": 4, "M": 7}, {"N": 1, "M": 1}, {"N": 10, "M": 4}, {"N": 3, "M": 8}]
    nsign = 0
    for p_ in nums:
        for q_ in dens:
            quo = ("b", "div", p_, q_)
            for tree in (("u", "floor", quo), ("u", "ceil", quo), ("u", "trunc", quo), ("b", "fdiv", p_, q_), ("b", "mod", p_, q_)):
                if ctx.quick and nsign % 2 != ctx.seed % 2 and tree[1] not in ("ceil", "floor"):
                    nsign += 1
                    continue
                tree_items.append(dict(tree=tree, envs=sign_envs, splits=[({"N": 7}, {"M": 2})], simplify=True, shape=(nsign % 4 == 0), src="signden", light=True))
                nsign += 1
    ctx.exhaustive_scopes.append(
        f"{nsign} sign-changing-denominator trees (quick: floor / ceil all, half of trunc // %): floor ceil trunc of p/q, p // q, p % q for 4 numerators "
        "and 6 denominators that are negative under some positive bindings (M - 5, 7 - 2*M, M - N, -M, 3 - M, M - 2), 6 bindings, always simplified"
    )
    nsimp = 0
    # ---- random deep trees
    for i in range(ctx.pick(300, 4000)):
        depth = rng.choice([2, 3, 3, 4, 4, 5, 6])
        nsyms = rng.choice([1, 2, 2, 3, 4])
        t = gen_tree(rng, depth, nsyms, [-7, -3, -2, -1, 0, 1, 2, 3, 4, 6, 12])
        syms = tree_syms(t)
        envs = make_envs(rng, syms, 3) + [{s: 1 for s in syms}, {s: rng.choice([10**6 + 3, 2**31 - 1, 10**12 + 39, 2**64 + 13]) for s in syms}]
        splits = make_splits(rng, envs[0], 2)
        simp = tree_size(t) <= (10 if ctx.quick else 14) and i % 2 == 0 and nsimp < ctx.pick(80, 1500)
        nsimp += simp
        tree_items.append(dict(tree=t, envs=envs, splits=splits, simplify=simp, shape=True, src="random"))
    # ---- strings: grammar-directed + malformed
    for s in FIXED_MALFORMED:
        str_items.append(dict(s=s, envs=_string_envs(rng, s), src="fixed"))
    # maximal munch, exhaustively: every operator-character string of length <= 3 between two operands, with
    # no blank, and with one blank at every position (`N//M`, `N/ /M`, `N***M`, `N** *M`, `N*-M`, ...)
    nmunch = 0
    for n in (1, 2, 3):
        for ops in itertools.product("*/%+-", repeat=n):
            o = "".join(ops)
            forms = {"N" + o + "M", "2" + o + "3", "N" + o + "(M)"}
            for i in range(len(o) + 1):
                forms.add("N" + o[:i] + " " + o[i:] + "M")
                forms.add("N" + o[:i] + "\t" + o[i:] + "2")
            for s in sorted(forms):
                str_items.append(dict(s=s, envs=[{"N": 7, "M": 2}, {"N": 3, "M": 5}], src="munch"))
                nmunch += 1
    for s in ["1 2", "12 34", "1N", "N1", "N 1", "N_1", "_1", "1_", "N.M", "N .M", "N. M", "N . M", "1.M", "N.1", "N..1", "(N)(M)", "N(M)", "N (M)",
              "max(N)(M)", "N\x1c+\x1dM", "N\x0b*\x0cM", "N \n ** \r 2", "N*\n*2", "/ /", "N/\x1f/M", "0 0", "00", "0N", "N0", "007N", "N007",
              "N,M", "N , M", "max(N,M)", "max(N ,M)", "max( N , M )", "max(N,,M)", "(N,M)", "N;M"]:
        str_items.append(dict(s=s, envs=[{"N": 7, "M": 2, "N1": 3, "N_1": 4, "_1": 5, "N0": 6, "N007": 2, "N.M": 3, "N.1": 4, "N..1": 2, "N.": 5}], src="munch"))
        nmunch += 1
    ctx.exhaustive_scopes.append(
        f"{nmunch} maximal-munch texts: every string of <= 3 operator characters from * / % + - between two operands, without "
        "a blank and with one blank or tab at every position, plus number/identifier/dot/comma adjacency forms"
    )
    other_items = []
    for op in ("add", "sub", "mul", "div", "fdiv", "mod"):
        for side in ("left-dim", "left-int", "right-dim", "right-int"):
            if side == "right-int":
                continue  # int op unknown: the reflected overloads, covered by left/right with an int on the other side
            other_items.append(("unknown", dict(op=op, side=side)))
        other_items.append(("unknown", dict(op=op, side="right-int")))
    for op in ("neg", "floor", "ceil", "trunc", "simplify", "evaluate"):
        other_items.append(("unknown", dict(op=op, side="left-dim")))
    NONASCII = ["\u0661+N", "N+\u0662\u0663", "N\u00a0+\u00a01", "N\u2003*\u20032", "N+\u00b2", "\u00e9+1", "N*\u00e9", "N\uff0b1", "\uff11+N",
                "max(\u0661, N)", "N//\u0969", "\u00bd*N", "N\u3000-\u30001", "N\u200b+1", "\u03b1.\u03b2+1", "N**\u0662", "\u0967\u0966%N"]
    for s in NONASCII:
        names = sorted(set(re.findall(r"[^\W\d][\w.]*", s)) - {"max"})
        other_items.append(("nonascii", dict(s=s, envs=[{n: 3 for n in names}, {n: 8 for n in names}])))
    for op in GLUE_BOPS:
        other_items.append(("glue", dict(what="binop", arg=op)))
    for what in ("unop", "shape", "eq"):
        other_items.append(("glue", dict(what=what)))
    ctx.exhaustive_scopes.append(
        f"operator glue matrix: {len(GLUE_BOPS)} binary operators x all ordered pairs of {len(GLUE_KINDS)} operand kinds with a dimension on "
        f"at least one side (int 3/0/-2/1, plain / computed / text-built dimensions, unknown, unparseable text, float, None, Fraction, str), "
        f"bool operands, {len(GLUE_UOPS)} unary operators x {len(GLUE_DIMS)} dimension kinds, 13 operators without overload, "
        f"{len(GlueCase.SHAPES)} shapes x {len(GlueCase.SHAPE_BINDINGS)} bindings (evaluate / is_static / is_dynamic / free_symbols), the == / hash matrix"
    )
    for name in IDENT_NAMES:
        other_items.append(("identname", dict(name=name)))
    maxlen = 3 if ctx.quick else 4  # not ctx.pick: an escalated quick run must not enumerate length 4
    for n in range(1, maxlen + 1):
        if n == 1:
            other_items.append(("alphabet", dict(first=list(ALPHABET), length=1)))
        else:
            for ch in ALPHABET:
                other_items.append(("alphabet", dict(first=[ch], length=n)))
    ctx.exhaustive_scopes.append(
        f"tokenizer / parser on ALL {sum(len(ALPHABET) ** n for n in range(1, maxlen + 1))} strings of length <= {maxlen} over a {len(ALPHABET)}-character alphabet "
        "(blank, tab, N, _, 1, 0, ., e, + - * / %, ( ) , #, and the non-ASCII classes: letter, decimal digit, no-break space, "
        "superscript digit, vulgar fraction, letter number, combining mark)"
    )
    for lo in range(0, 0x10000, BMP_CHUNK):
        other_items.append(("bmp", dict(lo=lo, hi=lo + BMP_CHUNK)))
    ctx.exhaustive_scopes.append(
        "character classification: ALL 63488 code points of the Basic Multilingual Plane (surrogates excepted) - the class the model tokenizer is run "
        "with against str.isspace / isdigit / isalpha / isalnum / isidentifier / int() as get_token asks them, and the model tokenizer against the "
        "real one on the probe texts c, ac, 1c, c1"
    )
    deriv_items = []
    sdepths = [1, 1, 2, 2, 3] if ctx.quick else [1, 2, 2, 3, 4]
    max_tokens = ctx.pick(120, 400)  # SymPy's Max/Min/Mod construction is the cost of a long sentence

    def bounded_deriv():
        for _ in range(8):
            d = gen_deriv(rng, rng.choice(sdepths))
            if len(flatten_deriv(d)) <= max_tokens:
                return d
        return gen_deriv(rng, 1)

    for i in range(ctx.pick(1200, 30000)):
        d = bounded_deriv()
        toks = flatten_deriv(d)
        s = render_tokens(rng, toks, rng.choice([0, 1, 2]))
        envs = _string_envs(rng, s)
        str_items.append(dict(s=s, envs=envs, src="grammar"))
        if i % 2 == 0:
            deriv_items.append(dict(d=d, envs=envs, src="derivation"))
    for i in range(ctx.pick(1500, 30000)):
        s = gen_malformed(rng, rng.choice([0, 1, 2, 2] if ctx.quick else [0, 1, 2, 3]))
        if len(s) > 6 * max_tokens:
            continue
        str_items.append(dict(s=s, envs=_string_envs(rng, s), src="malformed"))
    ctx.count("corpus_cases", ncorpus)
    rng.shuffle(tree_items)
    # generated LAST: the families above keep the random stream (and so the cases per seed) they had before this family existed
    for it in [it for k, it in corpus_other if k == "sympytext"] + sqrt_items(rng, ctx.pick(160, 2500)):
        other_items.append(("sympytext", it))
    other_chunks = [(k, [it]) for k, it in other_items]
    # guards (see _run_chunk / _pmap_guarded): CPU seconds per case (the slowest case of an unchanged tree needs 1 to 4, measured in CPU time and so
    # independent of the machine's load) do the work; the wall limit of the whole pool (an unchanged tree needs about 30 s / 10 min on an idle
    # machine) is only the net for calls that cannot be interrupted, generous because checks run side by side on a loaded machine
    _LIM.update(case_cpu=15.0 if ctx.quick else 40.0, finish_cpu=40.0 if ctx.quick else 90.0, case_wall=150.0 if ctx.quick else 600.0,
                run_wall=float(os.environ.get("IRVERIF_C16_WALL_S") or (900 if ctx.quick else 3 * 3600)), max_timeouts=24 if ctx.quick else 200)
    parts = _pmap_guarded(ctx, other_chunks + _chunks("sympybuilt", sb_items, 16 if ctx.quick else 64) + _chunks("tree", tree_items, 64 if ctx.quick else 512)
                          + _chunks("string", str_items, 32 if ctx.quick else 128) + _chunks("deriv", deriv_items, 16 if ctx.quick else 64), _LIM["run_wall"])
    ctx.extra["cpu_ms_slowest_case"] = max([p["dist"].pop("cpu_ms_max_case", 0) for p in parts] or [0])
    for p in parts:
        ctx.merge(p)
    _coverage_floors(ctx, len(tree_items), len(str_items) + len(deriv_items), len(sb_items))


def _coverage_floors(ctx: Ctx, ntrees: int, nstrings: int, nsympy: int = 0) -> None:
    """The run is only meaningful if the generated cases were actually exercised: exit 2 (infrastructure)
    when skipped / timed-out cases or thin clauses would make the evidence misleading."""
    from harness.common import Infra

    d = ctx.dist

    def base(quick, thorough):
        """the floor of the plain tier: an escalated quick run (anchored code edited, budgets x3) must not raise the floors,
        only part of the case families scale with the budget"""
        return quick if ctx.quick else thorough

    skipped_infra = sum(v for k, v in d.items() if k.startswith("skipped=") and k.split("=")[1] in ("CaseTimeout", "MemoryError", "RecursionError"))
    skipped_infra += sum(v for k, v in d.items() if k.startswith("skipped_in_compare="))
    floors = [
        ("tree cases evaluated", sum(v for k, v in d.items() if k.startswith("build=")), int(0.97 * ntrees)),
        ("string cases evaluated", d.get("outcome=ok", 0) + d.get("outcome=raised", 0) + d.get("outcome=arith", 0) + d.get("outcome=sympy-assert", 0), int(0.95 * nstrings)),
        ("simplify() clauses checked", d.get("simplify=done", 0), base(150, 800)),
        ("Shape clauses checked", d.get("shape=done", 0), base(450, 2500)),
        ("serialize/deserialize clauses checked", d.get("serde=done", 0), base(450, 2500)),
        ("integer-fragment comparisons", d.get("int_fragment=checked", 0), base(800, 20000)),
        ("standard-meaning oracle applied", d.get("meaning=checked", 0), base(600, 10000)),
        ("parse trees compared structurally", d.get("parse_structure=compared", 0), base(4000, 200000)),
        ("model overloads vs Lean parse of the real text", d.get("overload_tie=compared", 0), int(0.8 * ntrees)),
        ("model of SymPy's printer token-exact", d.get("sympy_pp=token-exact", 0), int(0.7 * ntrees)),
        ("Shape model compared", d.get("shape_model=compared", 0), base(400, 2300)),
        ("operator glue matrix rows", sum(v for k, v in d.items() if k.startswith("glue_outcome=")), 800),
        ("alphabet strings", sum(v for k, v in d.items() if k.startswith("alphabet_outcome=")), base(14000, 300000)),
        ("dimensions built from SymPy objects evaluated", d.get("sympy_built_construct=ok", 0), int(0.95 * nsympy)),
        ("SymPy-built dimensions vs the by-name model", sum(v for k, v in d.items() if k.startswith("sympy_built_dimeval=")), 4 * int(0.9 * nsympy)),
        ("zero-valued subexpression trees", d.get("src=zero", 0), base(200, 600)),
        ("BMP code points: classification and tokenizer swept", d.get("bmp_codepoints", 0), 63488),
        ("sqrt / Rational-power texts through the model of SymPy's printer", d.get("sqrt_pp=token-exact", 0), base(100, 1500)),
    ]
    problems = [f"{name}: {got} < {need}" for name, got, need in floors if got < need]
    if skipped_infra > max(5, (ntrees + nstrings) // 200):
        problems.append(f"{skipped_infra} cases hit the CPU-time / memory / recursion limit")
    ctx.extra["coverage_floors"] = {name: {"got": got, "floor": need} for name, got, need in floors}
    ctx.extra["cases_over_resource_limit"] = skipped_infra
    if ctx.extra.get("unfinished_chunks"):
        problems.append(f"{ctx.extra['unfinished_chunks']} chunks unfinished at the wall limit (machine overloaded?)")
    if problems and (ctx.failures or ctx.disagreements):
        # failing inputs / disagreements are on record: they are the result of this run.  The floors guard a GREEN verdict against thin
        # evidence; an implementation on which cases do not terminate (or do not build) cannot meet them
        ctx.notes.append("coverage floors not met (reported with the failures found): " + "; ".join(problems))
        return
    if problems:
        raise Infra("coverage floors not met: " + "; ".join(problems))


def _string_envs(rng, s):
    toks = lex(s) or []
    names = sorted({t for k, t in toks if k == "id"})
    if s.isidentifier():
        names = [s]
    return [{n: rng.randint(1, 3) for n in names} for _ in range(2)]


def _totuple(x):
    return tuple(_totuple(y) for y in x) if isinstance(x, list) else x


def _add_replay(obj, tree_items, str_items, other_items=None):
    case = obj.get("case", obj)
    other_items = [] if other_items is None else other_items
    if case.get("kind") == "sympy-built":
        envs = case.get("envs") or [{s: 3 for s in tree_syms(_totuple(case["tree"]))}]
        other_items.append(("sympybuilt", dict(tree=_totuple(case["tree"]), mode=case.get("mode", "leaf"), envs=envs, splits=[tuple(x) for x in case.get("splits", [])], src="corpus")))
    elif case.get("kind") == "glue":
        other_items.append(("glue", dict(what=case.get("what"), arg=case.get("arg") or case.get("op") if case.get("what") == "binop" else None)))
    elif case.get("kind") == "alphabet":
        other_items.append(("alphabet", dict(first=[case["s"]], length=1)))
    elif case.get("kind") == "ident-name":
        other_items.append(("identname", dict(name=case["name"])))
    elif case.get("kind") == "bmp":
        other_items.append(("bmp", dict(lo=int(case["lo"]), hi=int(case["hi"]))))
    elif case.get("kind") == "sympytext":
        other_items.append(("sympytext", dict(a=case["a"], op=case.get("op"), b=case.get("b"))))
    elif case.get("kind") == "tree" or "tree" in case:
        envs = case.get("envs") or [{s: 3 for s in tree_syms(_totuple(case["tree"]))}]
        splits = [tuple(x) for x in case.get("splits", [])]
        tree_items.append(dict(tree=_totuple(case["tree"]), envs=envs, splits=splits, simplify=True, shape=True, src="corpus"))
    elif "s" in case or "text" in case:
        s = case.get("s", case.get("text"))
        envs = case.get("envs") or _string_envs(__import__("random").Random(0), s)
        str_items.append(dict(s=s, envs=envs, src="corpus"))


def replay(ctx: Ctx, obj: dict) -> None:
    tree_items, str_items, other_items = [], [], []
    _add_replay(obj, tree_items, str_items, other_items)
    for d in obj.get("correspondence_disagreements", []):
        if isinstance(d.get("case"), dict):
            _add_replay(d["case"], tree_items, str_items, other_items)
    chunks = _chunks("tree", tree_items, 1) + _chunks("string", str_items, 1) + [(k, [it]) for k, it in other_items]
    if not chunks:
        return
    for p in _pmap_guarded(ctx, chunks, 600.0, procs=4):
        p["dist"].pop("cpu_ms_max_case", None)
        ctx.merge(p)

"""C17 — deserializing any proto terminates with an error or a consistent IR (DESIGN.md 5/C17).

Streams
* field: structured random ModelProtos (mostly valid; dangling / duplicate / empty names, missing
  types, shuffled and cyclic node order, nested graphs with captures) plus explicit field-level
  mutations (unknown enum numbers, inconsistent tensor fields, absurd external-data entries, ...).
  Every case that the abstraction covers also goes through the Lean model `IrVerif.Scope`
  (`scope.deser`): raised/ok, the whole resulting IR (connectivity, names, value-info placement,
  producer/index/uses, ownership flags) and the re-serialized proto are diffed.
* bytes: byte-level mutations (bit flips, truncation, insertion, invalid UTF-8) of serialized valid
  models, re-parsed by protobuf; oracle only.

Oracle (independent of the model, on the real objects): `from_proto` terminates within the time limit,
and either raises or returns an IR on which the use-def / ownership invariant holds
(`serde_common.check_consistency`), `to_proto` of it raises or is a fix-point
(`to_proto(from_proto(q)) == q`), and no file-system audit event is raised during `from_proto` or while
reading name/dtype/shape/size/nbytes of any resulting tensor.
"""
from __future__ import annotations

import binascii
import zlib
import logging
import random

import onnx

from harness import serde_common as sc
from harness import serde_meta as sm
from harness import scope_ext9 as sx9
from harness import scope_attr as sa
from harness.common import Ctx, Part, lean_batch, load_corpus, pmap

THEOREMS = [
    "IrVerif.Scope.C17_total",
    "IrVerif.Scope.C17_consistent",
    "IrVerif.Scope.C17_idempotent",
    "IrVerif.Scope.C17_consistent_is_WF",
    "IrVerif.Scope.C17_deserialize_WF",
    "IrVerif.Scope.C17_total_model",
    "IrVerif.Scope.C17_idempotent_model_partial",
    "IrVerif.Scope.C17_idempotent_model",
    "IrVerif.Scope.C17_meta_idempotent",
    "IrVerif.Scope.C17_idempotent_decorated",
    "IrVerif.Scope.C17_meta_aligned",
    "IrVerif.Scope.C17_ir9_not_idempotent",
    "IrVerif.Scope.C17_ext_erasure",
    "IrVerif.Scope.C17_consistent_ext",
    "IrVerif.Scope.C17_total_ext",
    "IrVerif.Scope.C17_ext_sharding_named",
    "IrVerif.Scope.C17_ext_erasure_model",
    "IrVerif.Scope.C17_ext_sharding_named_model",
    "IrVerif.Scope.C17_idempotent_partial",
    "IrVerif.Scope.C17_ext_payload_fixpoint",
    "IrVerif.Scope.C17_ir9_entries_inert",
    "IrVerif.Scope.C17_idempotent_ext",
    "IrVerif.Scope.C17_idempotent_ir9",
    "IrVerif.Scope.C17_idempotent_ext_model",
    "IrVerif.Scope.C17_ext_sharding_resolved",
    "IrVerif.Scope.C17_ext_sharding_resolved_model",
    "IrVerif.Scope.C17_ext9_erasure",
    "IrVerif.Scope.C17_ext9_entries_inert",
    "IrVerif.Scope.C17_idempotent_ext_ir9_partial",
    "IrVerif.Scope.C17_ext9_reloadable",
    "IrVerif.Scope.C17_attr_idempotent",
    "IrVerif.Scope.C17_attr_subs",
    "IrVerif.Scope.C17_attr_wf",
    "IrVerif.Scope.C17_idempotent_attrs",
]
ASSUMPTIONS = [
    "byte-level parsing is protobuf's; Python RecursionError counts as 'raises'",
    "value-info content (type, shape, doc_string) and tensor payloads are opaque tokens in the model; functions are "
    "part of the core model for IR version >= 10 (FunctionProto.value_info format)",
    "decoration layer (Model/ScopeMeta.lean, scope.ddeser): metadata_props of model / graph / node / function, opset "
    "imports, doc strings and the other _get_field fields, model and node device configurations (IR-version gate, "
    "raise conditions; a sharding value is carried by name), function attributes (tokens; valued / valueless). Its "
    "fix-point is a theorem (C17_meta_idempotent, C17_idempotent_decorated) and it is compared with the real "
    "objects on every field case; function attributes of kinds other than INT / FLOAT / STRING / INTS and "
    "reference attributes are outside its abstraction (counted)",
    "extended model (Model/ScopeExt.lean, scope.edeser / scope.medeser; main graph, nested graphs and, for IR version "
    ">= 10, function bodies): value-level metadata_props MERGED over every entry that reaches a value, quantization "
    "annotations, the value each sharding spec resolves to. It erases to the core model (C17_ext_erasure), so "
    "consistency is a theorem (C17_consistent_ext); its serialize-deserialize fix-point is a theorem in full since "
    "round 5: C17_idempotent_ext (graphs) and C17_idempotent_ext_model (models with functions), no hypothesis "
    "beyond 'deserialization succeeded' (payload half: C17_ext_payload_fixpoint; flow half: the lock-step induction "
    "rtE_graph / rtE_func over the certificate ReloadableE / ReloadableME, which every deserialized model satisfies); "
    "the certificate is also EVALUATED by its decision procedure (Model/ScopeCert.lean, reloadableEB) on every "
    "deserialized graph case (counter ext_certificate_holds, must be 100%); the model's first and second "
    "re-serialization are still compared with the real ones on every field case (counter ext_model_fixpoint). Below IR "
    "version 10 only the main graph is part of the extended model",
    "IR version < 10 function value-info format (Model/ScopeFunc9.lean, scope.mdeser9): modelled (post-pass, "
    "experimental names, reserved names of D320's repair); C17_ir9_not_idempotent refutes the fix-point for the code "
    "before the repair; for the repaired code the fix-point is a theorem for every proto (C17_idempotent_ir9; its "
    "main-graph half is C17_ir9_entries_inert); model Q and Q2 are still compared with the real ones on every "
    "IR < 10 case with functions; value-level metadata on such models is compared leniently",
    "C17_idempotent / C17_idempotent_model are proved for every proto of the core model (dangling / duplicate / "
    "shadowed names, placeholders, unproduced outputs, duplicate function identifiers included); the model's "
    "serialize . deserialize is also run twice on every generated proto (counter model_not_fixpoint must stay 0) "
    "and the oracle checks the real code",
    "file access = audit events CPython raises for open/os.*/mmap/shutil/tempfile/glob/pathlib PLUS calls of the "
    "stat family (os.stat/lstat/access/readlink/scandir/listdir/statvfs, os.path.realpath and everything built on "
    "them: exists/getsize/isfile/...), which raise no audit event and are caught by counting wrappers; reads of "
    ".py/.pyc/.so under the interpreter prefix (lazy imports) are not counted. There is no theorem for this "
    "clause: the model has no file system",
    "C17_total is a case split on Except (termination = Lean accepted the structural recursion)",
    "time limit = 20 s CPU time of the worker (ITIMER_PROF) with a 6x wall-clock backstop; an expiry is "
    "re-run once and only a second expiry is reported",
    "attribute layer (Model/ScopeAttr.lean; harness/scope_attr.py): the payload of a non-graph attribute is ONE opaque token = deterministic bytes of an AttributeProto holding only the payload field of the attribute's type; stray payload fields of other types are not in the abstraction; TENSOR(S) / TYPE_PROTO(S) payloads are normalised through their leaf codec and the leaf decoders are the identity on tokens (leafOk = the leaf decoder alone accepts the payload; STRINGS: UTF-8 checked by the harness); the placement of the attribute trees against the core trees (NodeP.subs = subsOfP of the survivors, NodeT.subs = subsOfS) is compared on every case (shape of the tree of graphs), not proved against the core model; AErr.unknownType is unreachable from python-protobuf (a number outside the closed enum reads as 0)",
]

TIME_LIMIT_S = 20.0


# --------------------------------------------------------------------------- helpers


def _det(p) -> bytes:
    return p.SerializeToString(deterministic=True)


def proto_diff_kind(a, b, prefix="") -> str | None:
    """dotted field path (no indices) of the first difference between two messages"""
    if _det(a) == _det(b):
        return None
    for fd in a.DESCRIPTOR.fields:
        x, y = getattr(a, fd.name), getattr(b, fd.name)
        rep = fd.label == fd.LABEL_REPEATED if hasattr(fd, "label") else fd.is_repeated
        path = f"{prefix}{fd.name}"
        if rep:
            if fd.message_type is not None and not fd.message_type.GetOptions().map_entry:
                if len(x) != len(y):
                    return path + "#len"
                for u, v in zip(x, y):
                    d = proto_diff_kind(u, v, path + ".")
                    if d:
                        return d
            elif list(x) != list(y):
                return path
        elif fd.message_type is not None:
            if a.HasField(fd.name) != b.HasField(fd.name):
                return path + "#presence"
            if a.HasField(fd.name):
                d = proto_diff_kind(x, y, path + ".")
                if d:
                    return d
        else:
            try:
                pa, pb = a.HasField(fd.name), b.HasField(fd.name)
            except ValueError:
                pa = pb = True
            if pa != pb or x != y:
                return path
    return prefix + "?"


def _all_graph_protos(g: onnx.GraphProto):
    yield g
    for n in g.node:
        for a in n.attribute:
            if a.type == onnx.AttributeProto.GRAPH:
                yield from _all_graph_protos(a.g)
            elif a.type == onnx.AttributeProto.GRAPHS:
                for s in a.graphs:
                    yield from _all_graph_protos(s)


def has_empty_value_info(m: onnx.ModelProto) -> bool:
    """a value_info entry that carries neither type nor doc nor metadata (symptom of D51)"""
    graphs = list(_all_graph_protos(m.graph))
    lists = [g.value_info for g in graphs] + [f.value_info for f in m.functions]
    for lst in lists:
        for vi in lst:
            if not vi.HasField("type") and not vi.doc_string and not len(vi.metadata_props):
                return True
    return False


def initializer_info_regained(q: onnx.ModelProto, q2: onnx.ModelProto) -> bool:
    """q2 has a value_info entry for a non-input initializer that q does not have (symptom of D101)"""
    for g1, g2 in zip(_all_graph_protos(q.graph), _all_graph_protos(q2.graph)):
        n1 = {v.name for v in g1.value_info}
        ins = {v.name for v in g1.input}
        for v in g2.value_info:
            if v.name not in n1 and v.name not in ins and any(t.name == v.name for t in g1.initializer):
                return True
    return False


def has_duplicate_attribute_names(m: onnx.ModelProto) -> bool:
    def nodes():
        for g in _all_graph_protos(m.graph):
            yield from g.node
        for f in m.functions:
            for n in f.node:
                yield n
                for a in n.attribute:
                    for g in ([a.g] if a.type == onnx.AttributeProto.GRAPH else list(a.graphs)):
                        for gg in _all_graph_protos(g):
                            yield from gg.node

    for n in nodes():
        names = [a.name for a in n.attribute]
        if len(names) != len(set(names)):
            return True
    return False


def has_tensor_metadata(m: onnx.ModelProto) -> bool:
    def tensors(g):
        yield from g.initializer
        for n in g.node:
            for a in n.attribute:
                if a.type == onnx.AttributeProto.TENSOR:
                    yield a.t
                yield from a.tensors
    for g in _all_graph_protos(m.graph):
        for t in tensors(g):
            if len(t.metadata_props):
                return True
    return False


def _tensors_of_model(model):
    import onnx_ir as ir

    def of_graph(g):
        for v in g.initializers.values():
            if v.const_value is not None:
                yield v.const_value
        for n in g:
            for a in n.attributes.values():
                if a.is_ref():
                    continue
                if a.type == ir.AttributeType.TENSOR:
                    yield a.value
                elif a.type == ir.AttributeType.TENSORS:
                    yield from a.value

    for g0 in sc.model_graphs(model):
        for g in sc.iter_graph_tree(g0):
            yield from of_graph(g)


# --------------------------------------------------------------------------- field-level mutations


def _rand_graph(rng, m):
    gs = list(_all_graph_protos(m.graph))
    return rng.choice(gs)


def mutate_fields(rng, m: onnx.ModelProto, hist: dict) -> None:
    """one explicit field-level mutation of a (mostly valid) model, in place"""
    g = _rand_graph(rng, m)
    kind = rng.choice(
        ["unknown_elem_type", "unknown_attr_type", "tensor_inconsistent", "external_absurd", "drop_types",
         "cycle", "dup_attr_name", "tensor_unknown_dtype", "output_of_outer", "rename_to_dup",
         "shape_without_type", "func", "vinfo_metadata", "tensor_metadata", "big_dims", "seq_no_elem",
         "quant_annotation", "quant_annotation", "graph_node_metadata", "device_config", "device_config",
         "map_type", "swap_io", "deco", "deco", "deco", "ir9_collision", "anon_input", "anon_input"]
    )
    hist[f"mut={kind}"] = hist.get(f"mut={kind}", 0) + 1
    vis = list(g.input) + list(g.value_info) + list(g.output)
    if kind == "unknown_elem_type" and vis:
        vi = rng.choice(vis)
        vi.type.tensor_type.elem_type = rng.choice([999, -1, 24, 2**31 - 1])
    elif kind == "unknown_attr_type" and len(g.node):
        a = rng.choice(list(g.node)).attribute.add()
        a.name = "weird"
        r = rng.choice([15, 16, 99, 11, 12])
        if r in (11, 12):
            a.type = r  # SPARSE_TENSOR(S): known number, unsupported kind
        else:
            # closed proto2 enum: an unknown number can only arrive over the wire (field 20, varint)
            a.ParseFromString(a.SerializeToString() + bytes([0xA0, 0x01, r]))
    elif kind == "tensor_inconsistent" and len(g.initializer):
        t = rng.choice(list(g.initializer))
        r = rng.random()
        if r < 0.3:
            t.dims.append(rng.choice([7, 10**6, -1]))
        elif r < 0.6:
            t.raw_data = t.raw_data[: max(0, len(t.raw_data) - 3)] + b"\x00"
        else:
            t.int32_data.extend([1, 2, 3])
            t.float_data.extend([1.0])
    elif kind == "external_absurd":
        t = g.initializer.add()
        t.name = rng.choice(["ext", "ext2"] + [i.name for i in g.input])
        t.data_type = rng.choice([1, 7, 0, 9, 8])
        t.dims.extend([rng.choice([1, 2**40, -5])])
        t.data_location = onnx.TensorProto.EXTERNAL
        entries = rng.sample(
            [("location", "../../../../etc/passwd"), ("location", "/dev/zero"), ("location", ""),
             ("offset", "-1"), ("offset", "99999999999999999999"), ("offset", "abc"),
             ("length", "-7"), ("length", "1e9"), ("checksum", "x" * 50), ("bogus", "1"),
             ("location", "a\x00b"), ("location", "nonexistent/☃.bin")],
            k=rng.randrange(0, 5),
        )
        for k, v in entries:
            e = t.external_data.add()
            e.key, e.value = k, v
    elif kind == "drop_types":
        for vi in vis:
            if rng.random() < 0.5:
                vi.ClearField("type")
    elif kind == "cycle" and len(g.node) >= 1:
        n = rng.choice(list(g.node))
        outs = [o for o in n.output if o]
        if outs:
            n.input.append(rng.choice(outs))
    elif kind == "dup_attr_name" and len(g.node):
        n = rng.choice(list(g.node))
        if len(n.attribute):
            a = n.attribute.add()
            a.CopyFrom(rng.choice(list(n.attribute)))
    elif kind == "tensor_unknown_dtype" and len(g.initializer):
        rng.choice(list(g.initializer)).data_type = rng.choice([0, 99, 24, -3])
    elif kind == "output_of_outer":
        gs = list(_all_graph_protos(m.graph))
        if len(gs) > 1:
            sub = rng.choice(gs[1:])
            names = [i.name for i in m.graph.input] + [o for n in m.graph.node for o in n.output]
            if names:
                sub.output.add().name = rng.choice(names)
    elif kind == "rename_to_dup" and len(g.node) >= 2:
        a, b = rng.sample(list(g.node), 2)
        if len(a.output) and len(b.output):
            b.output[0] = a.output[0]
    elif kind == "shape_without_type" and vis:
        vi = rng.choice(vis)
        vi.ClearField("type")
        vi.type.tensor_type.shape.dim.add().dim_value = 3
    elif kind == "func":
        f = m.functions.add()
        # names with the separators of the IR<10 "domain::name/value" value-info format (D106)
        f.name = rng.choice(["f", "f", "f", "f/g", "f::g"])
        f.domain = rng.choice(["custom", "custom", "custom", "a/b", "a::b", "a:"])
        c = rng.choice(["c", "c", "c", "/blk/c", "s::c", ":c"])
        if rng.random() < 0.5:
            f.overload = "o1"
        f.input.extend(["a", "b"][: rng.randrange(0, 3)])
        n = f.node.add()
        n.op_type = "Add"
        n.input.extend(rng.choice([["a", "b"], ["a", "zz"], ["a", ""]]))
        n.output.extend(rng.choice([[c], ["a"], [c, ""]]))
        f.output.extend(rng.choice([[c], [c, c], ["nope"], []]))
        o = f.opset_import.add()
        o.domain, o.version = "", 18
        if rng.random() < 0.5:
            sc.gen_value_info(rng, f.value_info.add(), c)
        if rng.random() < 0.25:
            sc.gen_value_info(rng, m.graph.value_info.add(), f"{f.domain}::{f.name}/{c}")
    elif kind == "vinfo_metadata" and vis:
        e = rng.choice(vis).metadata_props.add()
        e.key, e.value = "k", "v"
    elif kind == "tensor_metadata" and len(g.initializer):
        e = rng.choice(list(g.initializer)).metadata_props.add()
        e.key, e.value = "tk", "tv"
    elif kind == "big_dims" and vis:
        vi = rng.choice(vis)
        vi.type.tensor_type.elem_type = 1
        vi.type.tensor_type.shape.dim.add().dim_value = rng.choice([2**62, -(2**40)])
    elif kind == "seq_no_elem" and vis:
        vi = rng.choice(vis)
        vi.ClearField("type")
        vi.type.sequence_type.SetInParent()
    elif kind == "map_type" and vis:
        vi = rng.choice(vis)
        vi.ClearField("type")
        vi.type.map_type.key_type = 7
    elif kind == "swap_io" and len(g.input) and len(g.output):
        g.output[0].name = g.input[0].name
    elif kind == "quant_annotation":
        names = [i.name for i in g.input] + [t.name for t in g.initializer] + [o for n in g.node for o in n.output]
        if len(g.input) and rng.random() < 0.3:
            # two graph inputs of one name, an initializer of that name, an annotation for it: the input loop of
            # serialize_graph_into skips BOTH inputs (the name is an initializer key), the initializer loop writes one
            # entry (mutation W8: writing it for the shadowed input as well)
            nme = rng.choice([i.name for i in g.input])
            if nme:
                dup = g.input.add()
                dup.CopyFrom(next(i for i in g.input if i.name == nme))
                sc.gen_tensor_proto(rng, g.initializer.add(), nme)
                a = g.quantization_annotation.add()
                a.tensor_name = nme
                e = a.quant_parameter_tensor_names.add()
                e.key, e.value = "SCALE_TENSOR", "s"
                hist["quant_dup_input_initializer"] = hist.get("quant_dup_input_initializer", 0) + 1
        for _ in range(rng.randrange(1, 3)):
            a = g.quantization_annotation.add()
            a.tensor_name = rng.choice(names + ["ghost_q", ""]) if names else "ghost_q"
            for k, v in rng.sample([("SCALE_TENSOR", "s"), ("ZERO_POINT_TENSOR", "z"), ("", ""), ("k", "v")], k=rng.randrange(0, 3)):
                e = a.quant_parameter_tensor_names.add()
                e.key, e.value = k, v
    elif kind == "graph_node_metadata":
        e = g.metadata_props.add()
        e.key, e.value = rng.choice(["gk", "gk", ""]), "gv"
        if len(g.node):
            n = rng.choice(list(g.node))
            for _ in range(rng.randrange(1, 3)):
                e = n.metadata_props.add()
                e.key, e.value = rng.choice(["nk", "nk", "nk2"]), rng.choice(["nv", ""])
        e = m.metadata_props.add()
        e.key, e.value = "mk", "mv"
    elif kind == "anon_input":
        # A graph input whose name field is ABSENT (ClearField, not name == "") or "", next to values called like
        # the names the IR generates for anonymous values (val_0, val_1, ...): if deserialization made such an input
        # anonymous, Graph.__init__ would name it val_N before the node outputs are known and the second leg
        # from_proto(to_proto(from_proto(p))) would raise `redeclared` (seeded change C17-q1).
        if len(g.input) == 0 or rng.random() < 0.3:
            vi = g.input.add()
            if rng.random() < 0.5:
                vi.type.tensor_type.elem_type = 1
            how_in = "added_absent"
        else:
            vi = rng.choice(list(g.input))
            if rng.random() < 0.7:
                vi.ClearField("name")
                how_in = "absent"
            else:
                vi.name = ""
                how_in = "empty"
        hist[f"anon_input={how_in}"] = hist.get(f"anon_input={how_in}", 0) + 1
        n_anon = sum(1 for i in g.input if not i.name)
        target = rng.choice([f"val_{i}" for i in range(max(1, n_anon) + 1)])
        how = rng.choice(["rename_output", "rename_output", "add_node", "node_input", "initializer", "graph_output"])
        outs = [(n, k) for n in g.node for k, o in enumerate(n.output) if o]
        if how == "rename_output" and outs:
            n, k = rng.choice(outs)
            old_name = n.output[k]
            n.output[k] = target
            for n2 in g.node:
                for j, x in enumerate(n2.input):
                    if x == old_name:
                        n2.input[j] = target
            for o in g.output:
                if o.name == old_name:
                    o.name = target
            for v in g.value_info:
                if v.name == old_name:
                    v.name = target
        elif how == "node_input" and len(g.node):
            rng.choice(list(g.node)).input.append(target)
        elif how == "initializer":
            sc.gen_tensor_proto(rng, g.initializer.add(), target)
        elif how == "graph_output":
            g.output.add().name = target
        else:
            how = "add_node"
            n = g.node.add()
            n.op_type = "Identity"
            n.input.append(rng.choice([i.name for i in g.input] + [""]))
            n.output.append(target)
        hist[f"anon_input_next_to={how}"] = hist.get(f"anon_input_next_to={how}", 0) + 1
        if len(m.functions) and rng.random() < 0.5:
            # function inputs are strings: "" is the only unnamed form; next to a node output called val_N
            f = rng.choice(list(m.functions))
            f.input.append("")
            n = f.node.add()
            n.op_type = "Identity"
            n.input.append("")
            n.output.append(rng.choice(["val_0", "val_1"]))
            hist["anon_function_input"] = hist.get("anon_function_input", 0) + 1
    elif kind == "deco":
        mutate_decorations(rng, m, g, hist)
    elif kind == "ir9_collision":
        # a main-graph value whose NAME has the experimental `domain::function/value` form of the IR < 10
        # function value-info format and names a value of a function of the model (D320)
        m.ir_version = rng.choice([9, 9, 8, 10])
        f = m.functions.add()
        f.name, f.domain = "f", "custom"
        f.input.append("a")
        n = f.node.add()
        n.op_type = "Identity"
        n.input.append("a")
        n.output.append("c")
        f.output.append("c")
        o = f.opset_import.add()
        o.domain, o.version = "", 18
        which = rng.choice(["func", "main", "both"])
        if which in ("func", "both"):
            sc.gen_value_info(rng, f.value_info.add(), rng.choice(["c", "a"]), p_type=1.0)
        top = m.graph
        name = rng.choice(["custom::f/c", "custom::f/c", "custom::f/a"])
        how = rng.choice(["node_output", "node_output", "placeholder", "initializer"])
        if how == "node_output":
            n2 = top.node.add()
            n2.op_type = "Identity"
            n2.input.append(top.input[0].name if len(top.input) else "")
            n2.output.append(name)
        elif how == "placeholder" and len(top.node):
            rng.choice(list(top.node)).input.append(name)
        else:
            sc.gen_tensor_proto(rng, top.initializer.add(), name)
        if which in ("main", "both"):
            sc.gen_value_info(rng, top.value_info.add(), name, p_type=1.0)
        if rng.random() < 0.5:
            # several experimental entries for one function value (the last one wins), no collision needed
            for _ in range(rng.randrange(1, 3)):
                sc.gen_value_info(rng, top.value_info.add(), rng.choice(["custom::f/c", "custom::f/a"]), p_type=1.0)
                hist["ir9_repeated_experimental_entry"] = hist.get("ir9_repeated_experimental_entry", 0) + 1
    elif kind == "device_config":
        m.ir_version = rng.choice([11, 12, 13, 10, 9])
        for cname in rng.sample(["cfg0", "cfg1", "cfg0"], k=rng.randrange(0, 3)):
            c = m.configuration.add()
            c.name, c.num_devices = cname, rng.choice([0, 2, -1])
            c.device.extend(rng.choice([[], ["d0", "d1"], ["d0"]]))
        for n in rng.sample(list(g.node), k=min(len(g.node), rng.randrange(1, 3))):
            dc = n.device_configurations.add()
            dc.configuration_id = rng.choice(["cfg0", "cfg1", "nope", ""])
            if rng.random() < 0.5:
                dc.pipeline_stage = rng.choice([0, 1, -3])
            names = [x for x in list(n.input) + list(n.output)]
            for _ in range(rng.randrange(0, 3)):
                sp = dc.sharding_spec.add()
                sp.tensor_name = rng.choice(names + ["ghost_s", ""]) if names else "ghost_s"
                sp.device.extend(rng.choice([[], [0, 1], [-1]]))
                if rng.random() < 0.5:
                    sd = sp.sharded_dim.add()
                    sd.axis = rng.choice([0, 1, -1, 99])
                    ss = sd.simple_sharding.add()
                    ss.num_shards = rng.choice([2, 0, -1])
                    if rng.random() < 0.5:
                        ss.dim_value = 4
                    else:
                        ss.dim_param = "N"


def _add_entries(rng, field, keys) -> None:
    """string-string entries in random order, with repeated and empty keys"""
    for _ in range(rng.randrange(1, 5)):
        e = field.add()
        e.key, e.value = rng.choice(keys), rng.choice(["1", "2", "", "v"])


def mutate_decorations(rng, m: onnx.ModelProto, g: onnx.GraphProto, hist: dict) -> None:
    """fields of the decoration layer (Model/ScopeMeta.lean): repeated / unsorted / empty metadata keys on every
    carrier, repeated opset domains, present-but-empty optional fields, function attributes (valued, valueless,
    repeated names), device configurations around the IR-version gate"""
    for what in rng.sample(["model_meta", "graph_meta", "node_meta", "func_meta", "opsets", "optional", "func_attrs",
                            "func_opsets", "cfg"], k=rng.randrange(1, 5)):
        if what.startswith("func_") and not len(m.functions):
            continue
        hist[f"deco={what}"] = hist.get(f"deco={what}", 0) + 1
        keys = ["b", "a", "b", "", "é", "Z", "a0"]
        if what == "model_meta":
            _add_entries(rng, m.metadata_props, keys)
        elif what == "graph_meta":
            _add_entries(rng, g.metadata_props, keys)
            if rng.random() < 0.5:
                g.doc_string = rng.choice(["", "gdoc"])
            if rng.random() < 0.3:
                g.name = rng.choice(["", "gname"])
        elif what == "node_meta" and len(g.node):
            n = rng.choice(list(g.node))
            _add_entries(rng, n.metadata_props, keys)
            if rng.random() < 0.5:
                n.doc_string = rng.choice(["", "ndoc"])
            if rng.random() < 0.3:
                n.domain = rng.choice(["ai.onnx", "", "custom"])
        elif what == "opsets":
            for _ in range(rng.randrange(1, 4)):
                o = m.opset_import.add()
                o.domain, o.version = rng.choice(["", "custom", "", "z.dom"]), rng.choice([1, 18, 21])
        elif what == "optional":
            for field, vals in (("producer_name", ["", "verif"]), ("producer_version", ["", "1.0"]),
                                ("domain", ["", "dom"]), ("doc_string", ["", "mdoc"])):
                if rng.random() < 0.5:
                    setattr(m, field, rng.choice(vals))
            if rng.random() < 0.5:
                m.model_version = rng.choice([0, 3])
        elif what == "cfg":
            m.ir_version = rng.choice([10, 11, 11, 12])
            for cname in rng.sample(["cfgA", "cfgB", "cfgA"], k=rng.randrange(1, 3)):
                c = m.configuration.add()
                c.name, c.num_devices = cname, rng.choice([1, 2])
                c.device.extend(rng.choice([[], ["d0"]]))
            if len(g.node):
                n = rng.choice(list(g.node))
                dc = n.device_configurations.add()
                dc.configuration_id = rng.choice(["cfgA", "cfgA", "other", ""])
                if rng.random() < 0.5:
                    dc.pipeline_stage = rng.choice([0, 2])
                for _ in range(rng.randrange(0, 3)):
                    sp = dc.sharding_spec.add()
                    sp.tensor_name = rng.choice([x for x in list(n.input) + list(n.output) if x] + ["ghost_s", "ghost_s", ""])
                    sp.device.extend(rng.choice([[], [0, 1]]))
        elif len(m.functions):
            f = rng.choice(list(m.functions))
            if what == "func_meta":
                _add_entries(rng, f.metadata_props, keys)
                if rng.random() < 0.5:
                    f.doc_string = rng.choice(["", "fdoc"])
                if len(f.node) and rng.random() < 0.5:
                    _add_entries(rng, rng.choice(list(f.node)).metadata_props, keys)
            elif what == "func_opsets":
                for _ in range(rng.randrange(1, 3)):
                    o = f.opset_import.add()
                    o.domain, o.version = rng.choice(["", "custom"]), rng.choice([1, 18])
            elif what == "func_attrs":
                names = ["alpha", "beta", "alpha", "gamma"]
                for _ in range(rng.randrange(1, 4)):
                    a = f.attribute_proto.add()
                    a.name = rng.choice(names)
                    t = rng.choice(["i", "s", "u", "ints"])
                    if t == "i":
                        a.type, a.i = onnx.AttributeProto.INT, rng.choice([0, 7])
                    elif t == "s":
                        a.type, a.s = onnx.AttributeProto.STRING, rng.choice([b"", b"txt"])
                    elif t == "ints":
                        a.type = onnx.AttributeProto.INTS
                        a.ints.extend(rng.choice([[], [1, 2]]))
                    else:
                        a.type = onnx.AttributeProto.UNDEFINED
                    if rng.random() < 0.3:
                        a.doc_string = "adoc"
                for _ in range(rng.randrange(0, 3)):
                    f.attribute.append(rng.choice(names))


def mutate_ext(rng, m: onnx.ModelProto, hist: dict) -> None:
    """inputs of the extended model (Model/ScopeExt.lean): metadata on SEVERAL entries of one name (input /
    value_info / output) with overlapping keys, quantization annotations for every kind of name (twice for one
    name, with an empty map, for names nothing carries), sharding specs that name outer, shadowed, dangling and
    empty names"""
    graphs = list(_all_graph_protos(m.graph))
    for what in rng.sample(["meta_merge", "quant", "shard"], k=rng.randrange(1, 4)):
        g = rng.choice(graphs)
        names = ([i.name for i in g.input] + [t.name for t in g.initializer] + [o for n in g.node for o in n.output]
                 + [x for n in g.node for x in n.input] + [o.name for o in g.output])
        names = [x for x in names if x]
        if not names:
            continue
        hist[f"ext={what}"] = hist.get(f"ext={what}", 0) + 1
        if what == "meta_merge":
            for _ in range(rng.randrange(1, 4)):
                name = rng.choice(names)
                entries = [v for v in list(g.input) + list(g.value_info) + list(g.output) if v.name == name]
                if rng.random() < 0.5 or not entries:
                    e = rng.choice([g.value_info, g.output]).add()
                    e.name = name
                    if rng.random() < 0.5:
                        e.type.tensor_type.elem_type = 1
                    entries.append(e)
                for e in rng.sample(entries, k=rng.randrange(1, len(entries) + 1)):
                    for _k in range(rng.randrange(1, 3)):
                        kv = e.metadata_props.add()
                        kv.key, kv.value = rng.choice(["k", "k", "b", "a", ""]), rng.choice(["1", "2", ""])
        elif what == "quant":
            for _ in range(rng.randrange(1, 4)):
                a = g.quantization_annotation.add()
                a.tensor_name = rng.choice(names + names + ["ghost_q", ""])
                for k, v in rng.sample([("SCALE_TENSOR", "s"), ("ZERO_POINT_TENSOR", "z"), ("SCALE_TENSOR", "s2"),
                                        ("", ""), ("k", "v")], k=rng.randrange(0, 4)):
                    kv = a.quant_parameter_tensor_names.add()
                    kv.key, kv.value = k, v
        elif len(m.functions) and m.ir_version >= 10 and rng.random() < 0.4 and any(len(f.node) for f in m.functions):
            # a device configuration on a node of a FUNCTION body: resolved in the function's own scope
            m.ir_version = rng.choice([11, 11, 12, 10])
            f = rng.choice([f for f in m.functions if len(f.node)])
            n = rng.choice(list(f.node))
            dc = n.device_configurations.add()
            dc.configuration_id = rng.choice(["cfg0", "cfg0", ""])
            fnames = [x for x in list(f.input) + [y for nn in f.node for y in list(nn.input) + list(nn.output)] if x]
            for _ in range(rng.randrange(1, 4)):
                sp = dc.sharding_spec.add()
                sp.tensor_name = rng.choice(fnames + names[:2] + ["ghost_s", ""])
            hist["ext=shard_in_function"] = hist.get("ext=shard_in_function", 0) + 1
        elif len(g.node):
            m.ir_version = rng.choice([11, 11, 12, 10])
            n = rng.choice(list(g.node))
            dc = n.device_configurations.add()
            dc.configuration_id = rng.choice(["cfg0", "cfg0", ""])
            outer = [x for gg in graphs for nn in gg.node for x in list(nn.output) if x]
            for _ in range(rng.randrange(1, 4)):
                sp = dc.sharding_spec.add()
                sp.tensor_name = rng.choice(names + outer + ["ghost_s", ""])
                sp.device.extend(rng.choice([[], [0, 1]]))


def ir9_collides_with_main_graph_value(q, q2) -> bool:
    """a value_info entry of q / q2 in the experimental `domain::function/value` form that names a function of the
    model AND is the name of a value of the main graph (node input / output or initializer): D320"""
    top = {x for n in q.graph.node for x in list(n.input) + list(n.output) if x} | {t.name for t in q.graph.initializer}
    funcs = {(f.domain, f.name) for f in q.functions}
    for v in list(q.graph.value_info) + list(q2.graph.value_info):
        d, sep, rest = v.name.partition("::")
        fn, sep2, _val = rest.partition("/")
        if sep and sep2 and (d, fn) in funcs and v.name in top:
            return True
    return False


def ir9_unparseable_function_value_info(q, q2) -> bool:
    """q has a `domain::name/value` entry for a function of q and q2 lost it (D106)"""
    lost = {v.name for v in q.graph.value_info} - {v.name for v in q2.graph.value_info}
    for f in q.functions:
        pre = f"{f.domain}::{f.name}/"
        for name in lost:
            if name.startswith(pre):
                return True
    return False


def _wire_spans(b: bytes, start: int, end: int, depth: int, out: list) -> bool:
    """walk the protobuf wire format of b[start:end]; append (kind, lo, hi, depth) for varint values and for
    the payloads of length-delimited fields (recursing into payloads that parse as messages).  Returns
    False when the bytes are not a well-formed message."""
    i = start
    spans: list = []

    def varint(i):
        v, shift, j = 0, 0, i
        while j < end:
            c = b[j]
            v |= (c & 0x7F) << shift
            j += 1
            if not c & 0x80:
                return v, j
            shift += 7
            if shift > 63:
                return None, j
        return None, j

    while i < end:
        key, j = varint(i)
        if key is None or key >> 3 == 0:
            return False
        wt = key & 7
        if wt == 0:
            v, k = varint(j)
            if v is None:
                return False
            spans.append(("varint", j, k, depth))
            i = k
        elif wt == 1:
            if j + 8 > end:
                return False
            spans.append(("fixed", j, j + 8, depth))
            i = j + 8
        elif wt == 5:
            if j + 4 > end:
                return False
            spans.append(("fixed", j, j + 4, depth))
            i = j + 4
        elif wt == 2:
            n, k = varint(j)
            if n is None or k + n > end:
                return False
            sub: list = []
            if n and depth < 12 and _wire_spans(b, k, k + n, depth + 1, sub):
                spans.extend(sub)
            elif n:
                spans.append(("bytes", k, k + n, depth))
            i = k + n
        else:
            return False
    out.extend(spans)
    return True


def mutate_bytes_structured(rng, data: bytes, hist: dict) -> bytes:
    """mutations that keep the wire framing valid (so that protobuf accepts the bytes and onnx_ir sees them):
    another value for a varint (enum / dims / versions) of the same encoded length, changed bytes inside a
    string / bytes payload (invalid UTF-8 included), changed fixed32/64 values"""
    spans: list = []
    if not data or not _wire_spans(data, 0, len(data), 0, spans) or not spans:
        return data
    b = bytearray(data)
    for _ in range(rng.randrange(1, 4)):
        kind, lo, hi, _d = rng.choice(spans)
        hist[f"bytemut=struct:{kind}"] = hist.get(f"bytemut=struct:{kind}", 0) + 1
        if kind == "varint":
            n = hi - lo
            val = rng.choice([0, 1, 2, 7, 8, 16, 17, 23, 26, 27, 100, rng.randrange(128)])
            for k in range(n):
                piece = (val >> (7 * k)) & 0x7F if k < 2 else rng.randrange(128) if n > 2 and rng.random() < 0.3 else 0
                b[lo + k] = piece | (0x80 if k < n - 1 else 0)
        elif kind == "bytes":
            for _k in range(rng.randrange(1, 3)):
                i = rng.randrange(lo, hi)
                b[i] = rng.choice([0xFF, 0xC0, 0x80, 0x00, 0x2F, 0x3A, rng.randrange(256)])
        else:
            b[rng.randrange(lo, hi)] ^= 1 << rng.randrange(8)
    return bytes(b)


def mutate_bytes(rng, data: bytes, hist: dict) -> bytes:
    if rng.random() < 0.6:
        return mutate_bytes_structured(rng, data, hist)
    b = bytearray(data)
    kind = rng.choice(["flip", "flip", "truncate", "insert", "utf8", "dup_slice", "zero"])
    hist[f"bytemut={kind}"] = hist.get(f"bytemut={kind}", 0) + 1
    if not b:
        return bytes(b)
    if kind == "flip":
        for _ in range(rng.randrange(1, 4)):
            i = rng.randrange(len(b))
            b[i] ^= 1 << rng.randrange(8)
    elif kind == "truncate":
        del b[rng.randrange(len(b)) :]
    elif kind == "insert":
        i = rng.randrange(len(b))
        b[i:i] = bytes(rng.randrange(256) for _ in range(rng.randrange(1, 6)))
    elif kind == "utf8":
        # overwrite ASCII letters (names, op types, doc strings) with invalid UTF-8 bytes
        idx = [i for i, c in enumerate(b) if 97 <= c <= 122]
        for i in rng.sample(idx, k=min(len(idx), rng.randrange(1, 4))):
            b[i] = rng.choice([0xFF, 0xC0, 0x80, 0xFE])
    elif kind == "dup_slice":
        i = rng.randrange(len(b))
        j = min(len(b), i + rng.randrange(1, 40))
        b[i:i] = b[i:j]
    else:
        i = rng.randrange(len(b))
        b[i] = 0
    return bytes(b)


# --------------------------------------------------------------------------- one case


def run_entrypoints(part, m: onnx.ModelProto, case) -> None:
    """the top-level deserializers other than deserialize_model, on the parts of the proto: each call must
    terminate, touch no file, and what deserialize_graph / deserialize_function return must be consistent"""
    from onnx_ir import serde

    calls = [("deserialize_graph", serde.deserialize_graph, m.graph)]
    calls += [("deserialize_function", serde.deserialize_function, f) for f in list(m.functions)[:2]]
    calls += [("deserialize_node", serde.deserialize_node, n) for n in list(m.graph.node)[:2]]
    calls += [("deserialize_tensor", serde.deserialize_tensor, t) for t in list(m.graph.initializer)[:2]]
    calls += [("deserialize_attribute", serde.deserialize_attribute, a) for n in list(m.graph.node)[:2]
              for a in list(n.attribute)[:2]]
    calls += [("deserialize_value_info_proto", lambda p: serde.deserialize_value_info_proto(p, None), v)
              for v in list(m.graph.value_info)[:1] + list(m.graph.input)[:1]]
    for name, fn, proto in calls:
        audit = sc.FileAudit()
        res = None
        try:
            with sc.TimeLimit(TIME_LIMIT_S), audit:
                try:
                    res = fn(proto)
                except Exception:  # noqa: BLE001 - raising is allowed
                    part.count(f"entry_raised={name}")
        except sc.TimeLimit.Expired:
            try:
                with sc.TimeLimit(TIME_LIMIT_S):
                    try:
                        fn(proto)
                    except Exception:  # noqa: BLE001
                        pass
                part.count(f"timeout_unconfirmed:{name}")
            except sc.TimeLimit.Expired:
                part.fail(f"timeout:{name}", f"{name} did not finish within {TIME_LIMIT_S}s CPU time (twice)", case)
            continue
        part.count(f"entry={name}")
        if audit.events:
            part.fail(f"file-access:{name}", f"file-system events during {name}: {audit.events[:3]}", case)
        if res is not None and name in ("deserialize_graph", "deserialize_function"):
            g = res.graph if name == "deserialize_function" else res
            try:
                bad = sc.check_consistency([g])
            except RecursionError:
                bad = []
            if bad:
                part.fail(f"inconsistent:{name}:" + bad[0].split(":")[0].split(" ")[0], "; ".join(bad[:3]), case)


def run_case(part, m: onnx.ModelProto, stream: str, want_model: bool, lean_reqs: list, pending: list) -> None:
    """Run the real code + oracle on one ModelProto; queue the Lean request (answered later)."""
    import onnx_ir as ir
    from onnx_ir import serde

    case = {"stream": stream, "proto_hex": binascii.hexlify(_det(m)).decode()}
    flags: dict = {}
    gp = None
    mp = None
    mp9 = None
    if want_model:
        try:
            gp = sc.graph_proto_to_model(m.graph, flags)
            if len(m.functions) and m.ir_version >= 10:
                # the function-aware model (FunctionProto.value_info format of IR version >= 10)
                mp = sc.model_proto_to_model(m, flags)
            elif len(m.functions):
                # IR version < 10: the experimental `domain::function/value` format (Model/ScopeFunc9.lean)
                mp9 = sc.model_proto_to_model(m, flags)
        except sc.OutsideModel as e:
            part.count(f"outside_model={e.args[0][:30]}")
            gp = None
        except RecursionError:
            part.count("outside_model=recursion")
            gp = None
    # ---- real code under audit + time limit
    model = None
    err = None
    audit = sc.FileAudit()
    for attempt in (1, 2):
        model, err = None, None
        try:
            with sc.TimeLimit(TIME_LIMIT_S), audit:
                try:
                    model = serde.deserialize_model(m)
                except Exception as e:  # noqa: BLE001 - every exception type is an acceptable "raises"
                    err = e
            break
        except sc.TimeLimit.Expired:
            if attempt == 1:
                part.count("timeout_retry:from_proto")  # confirm before reporting (CPU-time limit, second run)
                continue
            part.fail("timeout:from_proto", f"from_proto did not finish within {TIME_LIMIT_S}s CPU time (twice)", case)
            return
    if audit.events:
        part.fail("file-access:from_proto", f"file-system events during from_proto: {audit.events[:3]}", case)
    outcome = "ok" if err is None else "raised"
    kind = "" if err is None else type(sc.root_cause(err)).__name__
    n_nodes = sum(len(g.node) for g in _all_graph_protos(m.graph)) if stream == "field" else -1
    part.case(
        [stream, case["proto_hex"]],
        nontrivial=True,
        sample={"stream": stream, "nodes": n_nodes, "outcome": outcome, "kind": kind},
        stream=stream,
        outcome=outcome if err is None else f"raised:{kind}",
        nodes=min(n_nodes, 8),
    )
    q = None
    if model is not None:
        # tensors: name/dtype/shape/size/nbytes must not touch the file system
        audit2 = sc.FileAudit()
        with audit2:
            for t in _tensors_of_model(model):
                try:
                    _ = (t.name, t.dtype, t.shape, t.size, t.nbytes)
                except Exception:  # noqa: BLE001
                    part.count("tensor_accessor_raised")
        if audit2.events:
            part.fail("file-access:tensor-accessors", f"file-system events: {audit2.events[:3]}", case)
        bad = sc.check_consistency(sc.model_graphs(model))
        if bad:
            sig = "inconsistent:" + bad[0].split(":")[0].split(" ")[0]
            if any("in no graph of the model" in b for b in bad):
                sig = "inconsistent:phantom-use"
                if has_duplicate_attribute_names(m):
                    sig = "inconsistent:phantom-use:duplicate-attribute-name"  # D102
            part.fail(sig, "; ".join(bad[:4]), case)
        # name resolution, recomputed from the proto alone (innermost scope first), against the IR
        try:
            mism = sc.resolution_mismatches(m.graph, model.graph)
        except RecursionError:
            mism = []
        if mism:
            part.fail("resolution:input-not-bound-to-innermost-definition", "; ".join(mism[:3]), case)
        # fix-point
        try:
            audit3 = sc.FileAudit()
            with sc.TimeLimit(TIME_LIMIT_S):
                try:
                    with audit3:
                        q = serde.serialize_model(model)
                except Exception as e:  # noqa: BLE001
                    part.count(f"to_proto_raised={type(sc.root_cause(e)).__name__}")
                    flags["to_proto_error"] = f"{type(sc.root_cause(e)).__name__}: {sc.root_cause(e)!s:.100}"
                    flags["to_proto_where"] = sc.innermost_wrapper(e)
                    tb = sc.root_cause(e).__traceback__
                    names = set()
                    while tb is not None:
                        names.add(tb.tb_frame.f_code.co_name)
                        tb = tb.tb_next
                    flags["to_proto_frames"] = sorted(names & {"serialize_tensor_into", "serialize_attribute_into",
                                                                 "serialize_type_into", "tobytes", "numpy", "string_data"})
                if audit3.events:
                    # serializing what from_proto returned must not open / stat the files that
                    # external tensors of the (untrusted) proto point to
                    part.fail("file-access:to_proto", f"file-system events during to_proto(from_proto(p)): {audit3.events[:3]}", case)
                if q is not None:
                    try:
                        m2 = serde.deserialize_model(q)
                        q2 = serde.serialize_model(m2)
                    except Exception as e:  # noqa: BLE001
                        sig = "fixpoint:reload-raises:" + type(sc.root_cause(e)).__name__
                        if "is not a valid DataType" in str(sc.root_cause(e)) and sc.innermost_wrapper(e) == "_deserialize_graph":
                            sig += ":shadowed-initializer-with-invalid-dtype"  # D104
                        part.fail(
                            sig,
                            f"to_proto(from_proto(p)) cannot be deserialized+serialized again: {sc.root_cause(e)!s:.200}",
                            case,
                        )
                        q2 = None
                    flags["_q2"] = q2
                    if q2 is not None and _det(q) != _det(q2):
                        d = proto_diff_kind(q, q2) or "?"
                        if has_empty_value_info(q):
                            sig = "fixpoint:value-info-shape-without-type"  # D100
                        elif initializer_info_regained(q, q2):
                            sig = "fixpoint:initializer-with-empty-value-info"  # D101
                        elif q.ir_version < 10 and len(q.functions) and ir9_collides_with_main_graph_value(q, q2):
                            sig = "fixpoint:ir9-function-value-info-collides-with-main-graph-value"  # D320
                        elif q.ir_version < 10 and len(q.functions) and ir9_unparseable_function_value_info(q, q2):
                            sig = "fixpoint:ir9-function-value-info-unparseable-name"  # D106
                        elif q.ir_version < 10 and any(f.overload for f in q.functions) and any(
                            "::" in v.name and "/" in v.name for v in q.graph.value_info
                        ):
                            sig = "fixpoint:ir9-function-value-info-with-overload"  # D103
                        else:
                            sig = "fixpoint:" + d
                        part.fail(sig, f"to_proto(from_proto(q)) != q; first difference at {d}", case)
        except sc.TimeLimit.Expired:
            # confirm with a second run before reporting (the limit is CPU time, but be sure)
            try:
                with sc.TimeLimit(TIME_LIMIT_S):
                    qq = serde.serialize_model(model)
                    serde.serialize_model(serde.deserialize_model(qq))
                part.count("timeout_unconfirmed:to_proto")
            except sc.TimeLimit.Expired:
                part.fail("timeout:to_proto", "serialization / re-deserialization did not finish (twice)", case)
                return
            except Exception:  # noqa: BLE001
                part.count("timeout_unconfirmed:to_proto")
    # ---- the other public entry points (a fifth of the cases, chosen by content)
    if zlib.crc32(_det(m)) % 5 == 0:
        run_entrypoints(part, m, case)
    # ---- attribute layer (Model/ScopeAttr.lean): every case of the field stream
    if want_model:
        sa.c17_request(part, m, lean_reqs, pending, case, model, err, q, flags.get("_q2"))
    # ---- decoration layer (Model/ScopeMeta.lean): every case the core abstraction covers
    if gp is not None:
        try:
            dp = sm.model_proto_to_deco(m)
            lean_reqs.append({"m": "scope.ddeser", "d": dp})
            pending.append(("D", case, flags, model, err, q))
        except sc.OutsideModel as e:
            part.count(f"deco_outside_model={e.args[0][:30]}")
        except RecursionError:
            part.count("deco_outside_model=recursion")
    # ---- extended model (Model/ScopeExt.lean): value metadata merge, quantization annotations, sharding values
    if gp is not None:
        try:
            if mp is not None:
                # IR version >= 10 with functions: main graph AND function bodies
                lean_reqs.append({"m": "scope.medeser", "ver": int(m.ir_version), **sm.model_proto_to_ext(m, {})})
                pending.append(("E", case, dict(flags, ext_functions=1), model, err, q, m))
            else:
                ge = sm.graph_proto_to_ext(m.graph, {})
                lean_reqs.append({"m": "scope.edeser", "p": ge, "ver": int(m.ir_version)})
                pending.append(("E", case, flags, model, err, q, m))
        except sc.OutsideModel as e:
            part.count(f"ext_outside_model={e.args[0][:30]}")
        except RecursionError:
            part.count("ext_outside_model=recursion")
    if gp is not None and mp9 is not None:
        part.count("model_ir9_with_functions")
        lean_reqs.append({"m": "scope.mdeser9", "fixed": True, **mp9})
        pending.append((case, dict(flags, with_functions=1, ir9=1), model, err, q))
        sx9.queue_c17(part, m, case, flags, model, err, q, lean_reqs, pending)
    # ---- model
    if gp is not None and mp is not None:
        part.count("model_with_functions")
        flags["with_functions"] = 1
        lean_reqs.append({"m": "scope.mdeser", **mp})
        pending.append((case, flags, model, err, q))
    elif gp is not None:
        lean_reqs.append({"m": "scope.deser", "p": gp})
        pending.append((case, flags, model, err, q))


def diff_case(part, out: dict, case, flags, model, err, q) -> None:
    from onnx_ir import serde  # noqa: F401

    if "err" in out and "ok" not in out:
        part.disagree("driver error: " + str(out["err"])[:200], case, out, None)
        return
    wf = bool(flags.get("with_functions"))
    if err is not None:
        if sc.error_chain_mentions(err, "Error calling deserialize_function"):
            part.count("raised_in_function")
            if wf:
                # functions are part of the request: a KeyError for an unbound function output and a redeclared
                # node output are the model's error paths; anything else comes from a leaf decoder
                rc = sc.root_cause(err)
                if sc.is_redeclared_error(err):
                    if out.get("ok") or out.get("err", {}).get("kind") != "redeclared":
                        part.disagree("real code rejects a redeclared output in a function, model does not", case,
                                      out.get("err"), "redeclared")
                elif isinstance(rc, KeyError) and sc.innermost_wrapper(err) in ("deserialize_function", ""):
                    if out.get("ok") or out.get("err", {}).get("kind") != "keyError":
                        part.disagree("real code raises KeyError for a function output, model does not", case,
                                      out.get("err"), f"KeyError {rc!s:.60}")
                else:
                    part.count(f"raised_in_function_outside_model={type(rc).__name__}@{sc.innermost_wrapper(err)}")
                    if sc.innermost_wrapper(err) in ("deserialize_function", "_deserialize_node") and out.get("ok"):
                        part.disagree(f"real code raises {type(rc).__name__} in deserialize_function, model returns an IR",
                                      case, "ok", f"{type(rc).__name__}: {rc!s:.120}")
        elif sc.is_redeclared_error(err):
            if out.get("ok") or out.get("err", {}).get("kind") != "redeclared":
                part.disagree("real code rejects a redeclared output, model does not", case, out.get("err"), "redeclared")
        else:
            where = sc.innermost_wrapper(err)
            kind = type(sc.root_cause(err)).__name__
            if kind == "TypeError" and "missing 1 required positional argument: 'base_path'" in str(sc.root_cause(err)):
                where = "deserialize_tensor"  # D105: the error-capturing wrapper of deserialize_tensor itself fails
            part.count(f"raised_outside_model={kind}@{where}")
            if out.get("ok"):
                # The abstraction (graph_proto_to_model) already refuses every proto on which a leaf decoder is
                # known to raise (unknown dtype / attribute type, map or sparse types, malformed external entries):
                # a proto that reaches the model and makes the real code raise anything but `redeclared` /
                # KeyError-in-function is unexplained.
                part.disagree(f"real code raises {kind} in {where or 'deserialize_model'}, model returns an IR",
                              case, "ok", f"{kind}: {sc.root_cause(err)!s:.120}")
        return
    if not out.get("ok"):
        part.disagree("model raises, real code returns an IR", case, out.get("err"), "ok")
        return
    try:
        real = sc.canon_world(sc.ir_model_to_world(model) if wf else sc.ir_graph_to_world(model.graph))
    except sc.OutsideModel as e:
        part.count(f"ir_outside_model={e.args[0][:30]}")
        return
    mod = sc.canon_world(out["world"])
    lenient = bool(flags.get("vinfo_metadata"))
    if lenient:
        # value-info metadata is merged by the real code: documentation tokens not comparable
        for w in (real, mod):
            for c in w["vals"]:
                c["info"] = [c["info"][0], c["info"][1], None]
    if real != mod:
        what = "deserialized IR differs"
        for k in ("root", "tens", "funcs"):
            if real.get(k) != mod.get(k):
                what += f" ({k})"
        if real["vals"] != mod["vals"] and len(real["vals"]) == len(mod["vals"]):
            for i, (a, b) in enumerate(zip(real["vals"], mod["vals"])):
                if a != b:
                    ks = [k for k in a if a[k] != b[k]]
                    what += f" (value {i} {a['name']!r}: {ks})"
                    break
        part.disagree(what, case, mod, real)
        return
    if flags.get("ir9"):
        # IR < 10: the model does not claim a fix-point (C17_ir9_not_idempotent); its second serialization is
        # compared with the real one below.  Hypothesis of C17_ir9_entries_inert (the main-graph initializers are
        # keyed by the name of their value): share published
        part.count(f"ir9_init_keys_named={out.get('init_keys_named')}")
        if out.get("init_keys_named") is not True:
            part.disagree("model: a deserialized IR < 10 model has an initializer keyed by another name than its "
                          "value's (contradicts C17_consistent.tree)", case, out.get("init_keys_named"), True)
    elif not out.get("ser_ok") or not out.get("deser2_ok") or not out.get("ser2_ok") or out.get("q") != out.get("q2"):
        # C17_idempotent is a theorem about the model: the driver contradicting it means the executable is
        # not the model the proofs are about
        part.count("model_not_fixpoint")
        part.disagree("model: serialize(deserialize(serialize(deserialize p))) is not the first serialization",
                      case, out.get("q2"), out.get("q"))
        return
    # serialization of the deserialized IR
    if q is None:
        # to_proto raised although the model serializes: only for reasons that are outside the model by
        # construction (attribute payloads and string fields are not modelled); anything else is flagged
        why = flags.get("to_proto_error", "?")
        known = ("Unsupported attribute type: UNDEFINED", "UnicodeDecodeError", "codec can't decode",
                 "Cannot serialize a ShardingSpec", "Cannot serialize a NodeDeviceConfiguration")
        where = flags.get("to_proto_where", "")
        leaf = where in ("serialize_tensor_into", "serialize_attribute_into", "serialize_type_into",
                         "serialize_shape_into", "serialize_dimension_into")
        if leaf or flags.get("to_proto_frames") or any(k in why for k in known):
            # a leaf encoder (tensor payload, attribute payload, type): opaque tokens in the model
            part.count(f"to_proto_raised_outside_model={why.split(':')[0]}@{where}")
        else:
            part.disagree("to_proto raises for an unexplained reason, model serializes", case, "ok", why)
        return
    if not out.get("ser_ok"):
        part.disagree("model serialization raises, to_proto returns", case, out.get("ser_ok"), True)
        return
    if not lenient and wf:
        try:
            rq = sc.model_proto_to_model(q)
        except sc.OutsideModel:
            return
        if rq != out.get("q"):
            what = "re-serialized model proto differs"
            if rq["p"] != out["q"]["p"]:
                what += " (main graph)"
            else:
                for i, (a, b) in enumerate(zip(rq["funcs"], out["q"]["funcs"])):
                    if a != b:
                        what += f" (function {i}: {[k for k in a if a[k] != b.get(k)]})"
                        break
                else:
                    what += " (number of functions)"
            part.disagree(what, case, out.get("q"), rq)
            return
        if flags.get("ir9"):
            part.count("ir9_first_serialization_agrees")
            q2 = flags.get("_q2")
            if q2 is None:
                if out.get("deser2_ok") and out.get("ser2_ok"):
                    part.disagree("IR<10: from_proto/to_proto of the re-serialized proto raises, the model does not",
                                  case, "ok", "raised")
                return
            try:
                rq2 = sc.model_proto_to_model(q2)
            except sc.OutsideModel:
                return
            if rq2 != out.get("q2"):
                part.disagree("IR<10: second re-serialization differs between model and real code", case,
                              out.get("q2"), rq2)
                return
            part.count("ir9_second_serialization_agrees")
            part.count(f"ir9_model_fixpoint={out.get('q') == out.get('q2')}")
    elif not lenient and not (len(q.functions) and q.ir_version < 10):
        try:
            rq = sc.graph_proto_to_model(q.graph)
        except sc.OutsideModel:
            return
        if rq != out.get("q"):
            what = "re-serialized proto differs"
            for k in ("inputs", "inits", "vinfo", "outputs", "nodes"):
                if rq[k] != out["q"][k]:
                    what += f" ({k})"
                    break
            part.disagree(what, case, out.get("q"), rq)


def diff_deco(part, out: dict, case, flags, model, err, q) -> None:
    """decorations: the Lean model `deserModelD` / `serModelD` against the real objects"""
    if "err" in out and "world" not in out:
        part.disagree("driver error (scope.ddeser): " + str(out["err"])[:200], case, out, None)
        return
    part.count("deco_cases")
    part.count(f"deco_wf={out.get('wf')}")
    if out.get("wf") is not True:
        part.disagree("model: deserialized decorations violate the representation invariant (wfDeserModelD)", case,
                      out.get("wf"), True)
    if out.get("ser_ok"):
        part.count("deco_model_ser=ok")
        if out.get("ser2_ok") is not True or out.get("q2") != out.get("q"):
            # C17_meta_idempotent is a theorem about the model
            part.count("model_deco_not_fixpoint")
            part.disagree("model: decorations of serialize(deserialize(serialize(deserialize p))) differ from the first",
                          case, out.get("q2"), out.get("q"))
        if out.get("reload") != out.get("canon"):
            part.disagree("model: reloaded decorations are not the canonical form (C03_meta_roundtrip)", case,
                          out.get("reload"), out.get("canon"))
    else:
        part.count(f"deco_model_ser=raises:{out.get('ser_err')}")
    if err is not None:
        return
    try:
        real = sm.ir_model_to_deco(model)
    except sc.OutsideModel as e:
        part.count(f"deco_ir_outside_model={e.args[0][:30]}")
        return
    except RecursionError:
        return
    if real != out["world"]:
        d = sm.first_difference(real, out["world"])
        part.disagree(f"decorations of the deserialized IR differ at {d}", case, out["world"], real)
        return
    part.count("deco_world_agrees")
    if q is None:
        why = flags.get("to_proto_error", "")
        if any(k in why for k in sm.DEVICE_ERRORS):
            if out.get("ser_ok"):
                part.disagree("to_proto raises on a device configuration, the model serializes the decorations",
                              case, "ok", why)
            else:
                part.count("deco_both_raise")
        return
    if not out.get("ser_ok"):
        part.disagree("model: serializing the decorations raises, to_proto returns", case, out.get("ser_err"), "ok")
        return
    try:
        rq = sm.model_proto_to_deco(q)
    except (sc.OutsideModel, RecursionError):
        return
    if rq != out["q"]:
        d = sm.first_difference(rq, out["q"])
        part.disagree(f"decorations of the re-serialized proto differ at {d}", case, out["q"], rq)
        return
    part.count("deco_proto_agrees")


def diff_ext(part, out: dict, case, flags, model, err, q, m) -> None:
    """extended model (merged value metadata, quantization annotations, sharding values of node device
    configurations) against the real main graph: IR after from_proto, first and second re-serialization"""
    if "err" in out and "ok" not in out:
        part.disagree("driver error (scope.edeser): " + str(out["err"])[:200], case, out, None)
        return
    if err is not None or not out.get("ok"):
        return  # raise / no raise is compared by the core request of the same case
    part.count("ext_cases")
    wf = bool(flags.get("ext_functions"))
    if wf:
        part.count("ext_cases_with_functions")
    if "reloadable_ext" in out:
        # the certificate ReloadableE (hypothesis of the round-trip theorems; deserializeE_reloadableE proves it for
        # every deserialized model) evaluated by the decision procedure of Model/ScopeCert.lean
        part.count(f"ext_certificate_holds={bool(out['reloadable_ext'])}")
        if not out["reloadable_ext"]:
            part.disagree("extended model: the deserialized model fails the ReloadableE decision procedure "
                          "(contradicts deserializeE_reloadableE: driver / checker defect)", case, out.get("ext"), None)
    to_ext = sm.model_proto_to_ext if wf else (lambda mm, fl: sm.graph_proto_to_ext(mm.graph, fl))
    try:
        real = sm.canon_world_ext(sm.ir_model_to_world_ext(model) if wf else sm.ir_graph_to_world_ext(model.graph))
    except sc.OutsideModel as e:
        part.count(f"ext_ir_outside_model={e.args[0][:30]}")
        return
    except RecursionError:
        return
    mod = sm.canon_world_ext({"world": out["world"], "ext": out["ext"]})
    if real != mod:
        d = sm.first_difference(real, mod)
        part.disagree(f"extended model: deserialized IR differs at {d}", case, mod, real)
        return
    part.count("ext_world_agrees")
    if any(x for x in real["ext"]["quant"]):
        part.count("ext_with_quant_annotation")
    if any(len(x) > 0 for x in real["ext"]["vmeta"]):
        part.count("ext_with_value_metadata")
    if any(sp[0] is not None for ds in real["ext"]["devs"] for d in ds for sp in d["specs"]):
        part.count("ext_with_sharding_value")
    func_devs = (not wf) and any(len(n.device_configurations) for f in m.functions for n in f.node)
    if q is None:
        why = flags.get("to_proto_error", "")
        if any(k in why for k in sm.DEVICE_ERRORS):
            if out.get("ser_ok") and not func_devs:
                part.disagree("to_proto raises on a device configuration, the extended model serializes", case, "ok", why)
            elif not out.get("ser_ok"):
                part.count("ext_both_raise")
        elif not out.get("ser_ok"):
            part.count(f"ext_model_raises_real_raises_elsewhere={out.get('ser_err')}")
        return
    if not out.get("ser_ok"):
        part.disagree("extended model: serialization raises, to_proto returns", case, out.get("ser_err"), "ok")
        return
    if len(q.functions) and q.ir_version < 10:
        return  # the main graph's value_info also carries the experimental entries of the functions (ScopeFunc9)
    try:
        rq = to_ext(q, {})
    except (sc.OutsideModel, RecursionError):
        return
    if rq != out["q"]:
        d = sm.first_difference(rq, out["q"])
        part.disagree(f"extended model: re-serialized {'model' if wf else 'main graph'} differs at {d}", case, out["q"], rq)
        return
    part.count("ext_first_serialization_agrees")
    q2 = flags.get("_q2")
    if q2 is None:
        return
    if not (out.get("deser2_ok") and out.get("ser2_ok")):
        part.disagree("extended model: second round raises, the real code does not", case, "raised", "ok")
        return
    try:
        rq2 = to_ext(q2, {})
    except (sc.OutsideModel, RecursionError):
        return
    if rq2 != out["q2"]:
        d = sm.first_difference(rq2, out["q2"])
        part.disagree(f"extended model: second re-serialization differs at {d}", case, out["q2"], rq2)
        return
    part.count("ext_second_serialization_agrees")
    part.count(f"ext_model_fixpoint={out['q'] == out['q2']}")


# --------------------------------------------------------------------------- worker / run


def _quiet() -> None:
    import warnings

    logging.disable(logging.CRITICAL)
    warnings.simplefilter("ignore")  # showing a warning reads source files (linecache): not the library


def add_functions(rng, pg, m: onnx.ModelProto, hist: dict) -> None:
    """functions with generated bodies: the body of a generated graph becomes the function body (its
    initializer names become dangling references), inputs / outputs by name, value_info for node outputs
    and for some inputs; outputs may name inputs or nothing at all"""
    for k in range(rng.choice([1, 1, 2])):
        tmp = onnx.GraphProto()
        pg.graph(tmp, [], 1)
        f = m.functions.add()
        f.name = rng.choice(["fn", "fn", f"fn{k}"])
        f.domain = rng.choice(["custom", "custom", "f.dom"])
        if m.ir_version >= 10 and rng.random() < 0.2:
            f.overload = "ov"
        o = f.opset_import.add()
        o.domain, o.version = "", 18
        f.input.extend(i.name for i in tmp.input)
        f.node.extend(tmp.node)
        outs = [o.name for o in tmp.output]
        if f.input and rng.random() < 0.2:
            outs.append(rng.choice(list(f.input)))
        if rng.random() < pg.p_bad:
            outs.append("nowhere")
            hist["function_output_unbound"] = hist.get("function_output_unbound", 0) + 1
        f.output.extend(outs)
        f.value_info.extend(tmp.value_info)
        for i in tmp.input:
            if rng.random() < 0.5:
                f.value_info.add().CopyFrom(i)
        for o_ in tmp.output:
            if rng.random() < 0.3:
                f.value_info.add().CopyFrom(o_)
        hist["generated_function"] = hist.get("generated_function", 0) + 1


def _flush(part, lean_reqs: list, pending: list) -> None:
    """answer the queued model requests and diff them; the queues are emptied (bounded memory: the thorough tier
    runs tens of thousands of cases per worker)"""
    outs = lean_batch(lean_reqs)
    for out, p in zip(outs, pending):
        if p[0] == "A":
            sa.c17_diff(part, out, *p[1:])
        elif p[0] == "D":
            diff_deco(part, out, *p[1:])
        elif p[0] == "E":
            diff_ext(part, out, *p[1:])
        elif p[0] == "E9":
            sx9.diff_c17(part, out, *p[1:])
        else:
            diff_case(part, out, *p)
    lean_reqs.clear()
    pending.clear()


def _worker(args) -> Part:
    seed, n_field, n_bytes = args
    _quiet()
    rng = random.Random(seed)
    part = Part()
    lean_reqs: list = []
    pending: list = []
    hist: dict = {}
    valid_pool: list[bytes] = []
    for _ in range(n_field):
        pg = sc.ProtoGen(rng, p_bad=rng.choice([0.0, 0.05, 0.15, 0.3]), max_depth=rng.choice([1, 2, 2, 3]))
        m = pg.model()
        if rng.random() < 0.25:
            add_functions(rng, pg, m, hist)
        for k, v in pg.hist.items():
            hist[k] = hist.get(k, 0) + v
        if rng.random() < 0.35:
            for _ in range(rng.choice([1, 1, 2])):
                mutate_fields(rng, m, hist)
        if rng.random() < 0.3:
            mutate_decorations(rng, m, _rand_graph(rng, m), hist)
            hist["decorated"] = hist.get("decorated", 0) + 1
        if rng.random() < 0.3:
            mutate_ext(rng, m, hist)
            hist["ext_mutated"] = hist.get("ext_mutated", 0) + 1
        sa.mutate_attrs_c17(m, hist)  # attribute layer: duplicate names, all kinds, reference attributes, ...
        if len(valid_pool) < 40:
            valid_pool.append(_det(m))
        run_case(part, m, "field", True, lean_reqs, pending)
        x9 = sx9.derive_case(m, hist)
        if x9 is not None:
            run_case(part, x9, "field", True, lean_reqs, pending)
        if len(lean_reqs) >= 2000:
            _flush(part, lean_reqs, pending)
    for _ in range(n_bytes):
        data = mutate_bytes(rng, rng.choice(valid_pool), hist) if valid_pool else b""
        m = onnx.ModelProto()
        try:
            m.ParseFromString(data)
        except Exception:  # noqa: BLE001 - protobuf rejects the bytes: nothing reaches onnx_ir
            part.count("bytes_rejected_by_protobuf")
            continue
        run_case(part, m, "bytes", False, lean_reqs, pending)
    _flush(part, lean_reqs, pending)
    for k, v in hist.items():
        part.count(k, v)
    return part


def run(ctx: Ctx) -> None:
    _quiet()
    ctx.rule = (
        "a case = one ModelProto (hash of its deterministic bytes); non-trivial = every generated case; "
        "field stream is diffed against the Lean model when the abstraction covers it"
    )
    for obj in load_corpus("C17"):
        replay(ctx, obj)
    sa.c17_odd_stream(ctx, ctx.pick(300, 6000))  # attribute layer: the error paths of _deserialize_attribute
    shards = 16
    n_field = ctx.pick(3200, 200000) // shards
    n_bytes = ctx.pick(1600, 100000) // shards
    seeds = [ctx.rng.randrange(2**62) for _ in range(shards)]
    for part in pmap(_worker, [(s, n_field, n_bytes) for s in seeds]):
        ctx.merge(part)


def _replay_cases(obj: dict) -> list:
    """the case of a corpus line / failing-input replay, or the cases of the recorded correspondence
    disagreements of an unchecked-obligation replay"""
    if obj.get("case"):
        return [obj["case"]]
    ds = [d["case"] for d in obj.get("correspondence_disagreements") or [] if isinstance(d, dict) and d.get("case")]
    return ds or [obj]


def replay(ctx: Ctx, obj: dict) -> None:
    _quiet()
    part = Part()
    reqs: list = []
    pending: list = []
    for case in _replay_cases(obj):
        m = onnx.ModelProto()
        m.ParseFromString(binascii.unhexlify(case["proto_hex"]))
        if case.get("stream") == "attr":
            sa.c17_odd_case(part, m, reqs, pending)
            continue
        run_case(part, m, case.get("stream", "field"), case.get("stream", "field") == "field", reqs, pending)
    for out, p in zip(lean_batch(reqs), pending):
        if p[0] == "A":
            sa.c17_diff(part, out, *p[1:])
        elif p[0] == "D":
            diff_deco(part, out, *p[1:])
        elif p[0] == "E":
            diff_ext(part, out, *p[1:])
        elif p[0] == "E9":
            sx9.diff_c17(part, out, *p[1:])
        else:
            diff_case(part, out, *p)
    ctx.merge(part)

"""Shared helpers of the C03 / C17 checks (serialization <-> deserialization of onnx_ir).

* abstraction of a real `onnx.GraphProto` / of a real IR graph into the JSON forms of the Lean model
  `IrVerif.Scope` (lean/IrVerif/Model/Scope.lean; wire format in lean/IrVerif/Drive/Scope.lean)
* canonical renumbering of IR dumps (object identity -> first-encounter index of one fixed traversal)
* an independent use-def / ownership checker over public accessors (the C01 invariant)
* an independent structural isomorphism check of two IR models over public accessors
* deep snapshots of an IR model, file-access audit hook, wall-clock limit

Tokens.  The model treats what a value / ValueInfoProto knows besides its name as an `Info` =
[type token | None, shape token | None, documentation token | None]; tokens are canonical JSON
strings computed here independently of onnx_ir's serializer.  The documentation token covers
doc_string and metadata_props; because the real code MERGES metadata when two entries reach the same
value, protos whose value infos carry metadata are flagged `vinfo_metadata` and compared leniently
in the C17 stream.
"""
from __future__ import annotations

import binascii
import hashlib
import json
import signal
import os
import sys
import threading
from typing import Any, Iterable

import onnx

import onnx_ir as ir
from onnx_ir import serde


class OutsideModel(Exception):
    """The proto / IR uses something the abstraction does not cover (not an error of the code)."""


# --------------------------------------------------------------------------- tokens

_VALID_DTYPES = {d.value for d in ir.DataType}


def _canon_proto_shape(sp: onnx.TensorShapeProto) -> list:
    dims = []
    for d in sp.dim:
        which = d.WhichOneof("value")
        den = d.denotation if d.HasField("denotation") and d.denotation else ""
        if which == "dim_value":
            dims.append(["v", int(d.dim_value), den])
        elif which == "dim_param":
            dims.append(["p", str(d.dim_param), den])
        else:
            dims.append(["n", None, den])
    return dims


def _canon_proto_type(tp: onnx.TypeProto):
    """(type, shape) as `deserialize_type_proto_for_type/_for_shape` would produce them,
    canonical JSON-able; raises OutsideModel where the real code raises or is unsupported."""
    den = tp.denotation if tp.HasField("denotation") and tp.denotation else ""
    for field, tag in (("tensor_type", "tensor"), ("sparse_tensor_type", "sparse")):
        if tp.HasField(field):
            t = getattr(tp, field)
            sh = _canon_proto_shape(t.shape) if t.HasField("shape") else None
            if not t.HasField("elem_type"):
                return None, sh
            if t.elem_type not in _VALID_DTYPES:
                raise OutsideModel("unknown dtype")
            return [tag, int(t.elem_type), den], sh
    for field, tag in (("sequence_type", "seq"), ("optional_type", "opt")):
        if tp.HasField(field):
            t = getattr(tp, field)
            if not t.HasField("elem_type"):
                raise OutsideModel("nested type without elem_type (real code raises)")
            ety, esh = _canon_proto_type(t.elem_type)
            if ety is None:
                raise OutsideModel("nested type without elem_type (real code raises)")
            return [tag, ety, den], esh
    if tp.HasField("map_type") or tp.HasField("opaque_type"):
        raise OutsideModel("map/opaque type")
    return None, None


def _j(x) -> str:
    return json.dumps(x, separators=(",", ":"))


def _mk_token(ty, sh, doc, meta=None) -> tuple[list, bool]:
    """Info triple [ty, sh, doc] + shape_only flag (a shape without a type: not serializable)"""
    doc = doc if doc else None
    meta = sorted(dict(meta).items()) if meta else None
    shape_only = ty is None and sh is not None
    d = None if (doc is None and meta is None) else _j([doc, meta])
    return [None if ty is None else _j(ty), None if sh is None else _j(sh), d], shape_only


def emitted_info(info: list) -> list:
    """what `serialize_value_into` writes of an Info (a shape needs a type)"""
    return [info[0], info[1] if info[0] is not None else None, info[2]]


def token_of_value_info(vi: onnx.ValueInfoProto) -> tuple[list, bool]:
    ty, sh = _canon_proto_type(vi.type) if vi.HasField("type") else (None, None)
    doc = vi.doc_string if vi.HasField("doc_string") else None
    return _mk_token(ty, sh, doc, {e.key: e.value for e in vi.metadata_props})


def _canon_ir_type(t) -> list | None:
    if t is None:
        return None
    den = t.denotation or ""
    if isinstance(t, ir.TensorType):
        return ["tensor", int(t.dtype.value), den]
    if isinstance(t, ir.SparseTensorType):
        return ["sparse", int(t.dtype.value), den]
    if isinstance(t, ir.SequenceType):
        return ["seq", _canon_ir_type(t.elem_type), den]
    if isinstance(t, ir.OptionalType):
        return ["opt", _canon_ir_type(t.elem_type), den]
    raise OutsideModel(f"type {type(t)}")


def _canon_ir_shape(s) -> list | None:
    if s is None:
        return None
    dims = []
    for i, d in enumerate(s):
        den = s.get_denotation(i) or ""
        if isinstance(d, int):
            dims.append(["v", int(d), den])
        elif d.value is None:
            dims.append(["n", None, den])
        else:
            dims.append(["p", str(d.value), den])
    return dims


def token_of_value(v: ir.Value) -> tuple[list, bool]:
    return _mk_token(_canon_ir_type(v.type), _canon_ir_shape(v.shape), v.doc_string, v.metadata_props)


def _sha(b: bytes) -> str:
    return hashlib.sha1(b).hexdigest()[:12]


_TYPED_FIELDS = ("float_data", "int32_data", "string_data", "int64_data", "double_data", "uint64_data")


def _tensor_token(kind: str, dtype: int, dims, doc, meta: dict, payload) -> tuple[str, str, str]:
    if dtype not in _VALID_DTYPES:
        raise OutsideModel("unknown tensor dtype")
    data = _sha(
        json.dumps([kind, int(dtype), [int(d) for d in dims], doc or None, sorted(meta.items()), payload],
                   separators=(",", ":"), default=str).encode()
    )
    return data, _j(["tensor", int(dtype), ""]), _j([["v", int(d), ""] for d in dims])


def tensor_tokens_of_proto(t: onnx.TensorProto, meta: dict | None = None) -> tuple[str, str, str]:
    """(data, ty, sh): payload token (everything but the name, decoded independently of onnx_ir) and the
    tokens of the TensorType(dtype) / Shape(dims) a fresh initializer value receives.  `meta` overrides the
    metadata of the proto (a proto-backed IR tensor whose metadata_props were edited)."""
    if meta is None:
        meta = {e.key: e.value for e in t.metadata_props}
    doc = t.doc_string if t.HasField("doc_string") else None
    if t.data_location == onnx.TensorProto.EXTERNAL:
        ent = {}
        for e in t.external_data:
            ent[e.key] = e.value
        try:
            payload = [ent.get("location", ""), None if "offset" not in ent else int(ent["offset"]),
                       None if "length" not in ent else int(ent["length"])]
        except ValueError as e:
            raise OutsideModel("external entry not an integer (real code raises)") from e
        if (payload[1] is not None and payload[1] < 0) or (payload[2] is not None and payload[2] < 0):
            raise OutsideModel("external offset / length negative (real code raises)")
        return _tensor_token("external", t.data_type, t.dims, doc, meta, payload)
    if t.data_type == onnx.TensorProto.STRING:
        return _tensor_token("string", t.data_type, t.dims, doc, meta, [binascii.hexlify(x).decode() for x in t.string_data])
    if t.HasField("raw_data"):
        payload = ["raw", binascii.hexlify(t.raw_data).decode()]
    else:
        payload = ["typed", {f: [repr(x) for x in getattr(t, f)] for f in _TYPED_FIELDS if len(getattr(t, f))}]
        if t.HasField("segment"):
            payload.append("segment")
    return _tensor_token("dense", t.data_type, t.dims, doc, meta, payload)


def tensor_tokens_of_ir(t) -> tuple[str, str, str]:
    """the same token computed from an IR tensor object through its public accessors"""
    if isinstance(t, serde.TensorProtoTensor):
        return tensor_tokens_of_proto(t.raw, meta=dict(t.metadata_props))
    meta = dict(t.metadata_props)
    dims = list(t.shape.numpy())
    if isinstance(t, ir.ExternalTensor):
        import os

        return _tensor_token("external", t.dtype.value, dims, t.doc_string, meta,
                             [os.fspath(t.location), t.offset, t.length])
    if isinstance(t, ir.StringTensor):
        return _tensor_token("string", t.dtype.value, dims, t.doc_string, meta,
                             [binascii.hexlify(x).decode() for x in t.string_data()])
    return _tensor_token("dense", t.dtype.value, dims, t.doc_string, meta,
                         ["raw", binascii.hexlify(t.tobytes()).decode()])


# --------------------------------------------------------------------------- proto -> model GraphP


def _subgraphs_of_node_proto(n: onnx.NodeProto) -> list[onnx.GraphProto]:
    """graphs of GRAPH / GRAPHS attributes in attribute order (what `_deserialize_attribute` visits).
    Raises OutsideModel for duplicate attribute names (the earlier one is dropped by the dict) and for
    attribute kinds on which deserialization raises."""
    res = []
    # the last attribute with a name is the one that is deserialized (first position), as in a dict
    for a in {a.name: a for a in n.attribute}.values():
        if a.HasField("ref_attr_name") and a.ref_attr_name:
            continue
        if a.type == onnx.AttributeProto.GRAPH:
            res.append(a.g)
        elif a.type == onnx.AttributeProto.GRAPHS:
            res.extend(a.graphs)
        elif a.type in (onnx.AttributeProto.SPARSE_TENSOR, onnx.AttributeProto.SPARSE_TENSORS):
            raise OutsideModel("sparse attribute")
        elif a.type not in {
            onnx.AttributeProto.UNDEFINED, onnx.AttributeProto.FLOAT, onnx.AttributeProto.INT,
            onnx.AttributeProto.STRING, onnx.AttributeProto.TENSOR, onnx.AttributeProto.FLOATS,
            onnx.AttributeProto.INTS, onnx.AttributeProto.STRINGS, onnx.AttributeProto.TENSORS,
            onnx.AttributeProto.TYPE_PROTO, onnx.AttributeProto.TYPE_PROTOS,
        }:
            raise OutsideModel("unknown attribute type")
    return res


def graph_proto_to_model(g: onnx.GraphProto, flags: dict | None = None) -> dict:
    """Abstract a GraphProto into the model's GraphP JSON. `flags` collects facts about the input
    (shape_only entries, ...)."""
    if flags is None:
        flags = {}

    def vinfo(vi):
        tok, so = token_of_value_info(vi)
        if so:
            flags["shape_only"] = flags.get("shape_only", 0) + 1
        if len(vi.metadata_props):
            flags["vinfo_metadata"] = flags.get("vinfo_metadata", 0) + 1
        return [vi.name, tok]

    if len(g.sparse_initializer):
        raise OutsideModel("sparse_initializer")
    inits = []
    for t in g.initializer:
        inits.append([t.name, *tensor_tokens_of_proto(t)])
    nodes = []
    for n in g.node:
        nodes.append(
            {
                "i": list(n.input),
                "o": list(n.output),
                "g": [graph_proto_to_model(s, flags) for s in _subgraphs_of_node_proto(n)],
            }
        )
    return {
        "inputs": [vinfo(v) for v in g.input],
        "inits": inits,
        "vinfo": [vinfo(v) for v in g.value_info],
        "nodes": nodes,
        "outputs": [vinfo(v) for v in g.output],
    }


def func_proto_to_model(f: onnx.FunctionProto, flags: dict | None = None) -> dict:
    """Abstract a FunctionProto (IR version >= 10 format) into the model's FuncP JSON."""
    if flags is None:
        flags = {}

    def vinfo(vi):
        tok, so = token_of_value_info(vi)
        if so:
            flags["shape_only"] = flags.get("shape_only", 0) + 1
        if len(vi.metadata_props):
            flags["vinfo_metadata"] = flags.get("vinfo_metadata", 0) + 1
        return [vi.name, tok]

    nodes = []
    for n in f.node:
        nodes.append({"i": list(n.input), "o": list(n.output),
                      "g": [graph_proto_to_model(s, flags) for s in _subgraphs_of_node_proto(n)]})
    return {"id": [f.domain, f.name, f.overload], "inputs": list(f.input), "outputs": list(f.output),
            "vinfo": [vinfo(v) for v in f.value_info], "nodes": nodes}


def model_proto_to_model(m: onnx.ModelProto, flags: dict | None = None) -> dict:
    """main graph + functions of a ModelProto as the request of `scope.mdeser`"""
    return {"p": graph_proto_to_model(m.graph, flags), "funcs": [func_proto_to_model(f, flags) for f in m.functions]}


# --------------------------------------------------------------------------- IR -> model World


def _subgraphs_of_node(n: ir.Node) -> list[ir.Graph]:
    res = []
    for a in n.attributes.values():
        if a.is_ref():
            continue
        if a.type == ir.AttributeType.GRAPH:
            res.append(a.value)
        elif a.type == ir.AttributeType.GRAPHS:
            res.extend(a.value)
    return res


class _Numbering:
    def __init__(self):
        self.values: dict[int, int] = {}
        self.vobjs: list = []
        self.nodes: dict[int, int] = {}
        self.nobjs: list = []
        self.graphs: dict[int, int] = {}
        self.gobjs: list = []
        self.tensors: dict[int, int] = {}
        self.tobjs: list = []

    def v(self, x):
        k = id(x)
        if k not in self.values:
            self.values[k] = len(self.vobjs)
            self.vobjs.append(x)
        return self.values[k]

    def n(self, x):
        k = id(x)
        if k not in self.nodes:
            self.nodes[k] = len(self.nobjs)
            self.nobjs.append(x)
        return self.nodes[k]

    def g(self, x):
        k = id(x)
        if k not in self.graphs:
            self.graphs[k] = len(self.gobjs)
            self.gobjs.append(x)
        return self.graphs[k]

    def t(self, x):
        k = id(x)
        if k not in self.tensors:
            self.tensors[k] = len(self.tobjs)
            self.tobjs.append(x)
        return self.tensors[k]


def ir_graph_to_world(graph: ir.Graph, flags: dict | None = None, funcs: list | None = None) -> dict:
    """Dump a real IR graph (with nested graphs) as the model's World JSON.  Numbering = first
    encounter in the traversal: graph inputs, initializers, per node (inputs, outputs, subgraphs),
    graph outputs.  Raises OutsideModel when a Graph object occurs twice (nesting is not a tree)."""
    if flags is None:
        flags = {}
    num = _Numbering()
    seen_graphs: set[int] = set()

    def walk_graph(g) -> dict:
        if id(g) in seen_graphs:
            raise OutsideModel("graph object shared or cyclic")
        seen_graphs.add(id(g))
        gid = num.g(g)
        ins = [num.v(v) for v in g.inputs]
        inits = []
        for k, v in g.initializers.items():
            inits.append([k, num.v(v)])
        nodes = []
        for n in g:
            nid = num.n(n)
            i = [None if v is None else num.v(v) for v in n.inputs]
            o = [num.v(v) for v in n.outputs]
            subs = [walk_graph(s) for s in _subgraphs_of_node(n)]
            nodes.append({"id": nid, "graph": None, "i": i, "o": o, "g": subs, "_obj": n})
        outs = [num.v(v) for v in g.outputs]
        return {"id": gid, "inputs": ins, "inits": inits, "nodes": nodes, "outputs": outs}

    root = walk_graph(graph)
    fworlds = []
    for fid, fg in funcs or []:
        fworlds.append([list(fid), walk_graph(fg)])

    def fix_nodes(gt):
        for n in gt["nodes"]:
            obj = n.pop("_obj")
            n["graph"] = num.graphs.get(id(obj.graph)) if obj.graph is not None else None
            for s in n["g"]:
                fix_nodes(s)

    fix_nodes(root)
    for _, fw in fworlds:
        fix_nodes(fw)
    vals = []
    for v in num.vobjs:
        tok, so = token_of_value(v)
        if so:
            flags["shape_only"] = flags.get("shape_only", 0) + 1
        prod = v.producer()
        uses = []
        for u in v.uses():
            if id(u.node) in num.nodes:
                uses.append([num.nodes[id(u.node)], u.idx])
            else:
                flags["foreign_use"] = flags.get("foreign_use", 0) + 1
        og = owner_graph_of(v)
        vals.append(
            {
                "name": v.name,
                "info": tok,
                "const": None if v.const_value is None else num.t(v.const_value),
                "producer": None if prod is None else num.nodes.get(id(prod)),
                "index": v.index() if (v.index() is None or v.index() >= 0) else None,
                "uses": uses,
                "graph": None if og is None else num.graphs.get(id(og)),
                "isIn": v.is_graph_input(),
                "isOut": v.is_graph_output(),
                "isInit": v.is_initializer(),
            }
        )
    tens = []
    for t in num.tobjs:
        tens.append([t.name, *tensor_tokens_of_ir(t)])
    res = {"vals": vals, "tens": tens, "nn": len(num.nobjs), "ng": len(num.gobjs), "root": root}
    if funcs is not None:
        res["funcs"] = fworlds
    return res


def ir_model_to_world(model: ir.Model, flags: dict | None = None) -> dict:
    """main graph and functions (in dict order) of an IR model as the model's MWorld JSON"""
    return ir_graph_to_world(model.graph, flags, funcs=[(k, f.graph) for k, f in model.functions.items()])


def owner_graph_of(v: ir.Value):
    """The graph that owns `v` as input/output/initializer (the `_graph` slot), through public
    accessors only: `v.graph` returns `_graph` when set, else the producer's graph."""
    if v.is_graph_input() or v.is_graph_output() or v.is_initializer():
        return v.graph
    return None


def canon_world(w: dict) -> dict:
    """Renumber a World JSON (values, nodes, graphs, tensors) by first encounter in the same
    traversal as `ir_graph_to_world`; unreachable cells are dropped."""
    vmap: dict[int, int] = {}
    nmap: dict[int, int] = {}
    gmap: dict[int, int] = {}

    def v(x):
        if x not in vmap:
            vmap[x] = len(vmap)
        return vmap[x]

    def walk(g):
        gmap.setdefault(g["id"], len(gmap))
        for x in g["inputs"]:
            v(x)
        for _, x in g["inits"]:
            v(x)
        for n in g["nodes"]:
            nmap.setdefault(n["id"], len(nmap))
            for x in n["i"]:
                if x is not None:
                    v(x)
            for x in n["o"]:
                v(x)
            for s in n["g"]:
                walk(s)
        for x in g["outputs"]:
            v(x)

    walk(w["root"])
    for _, fg in w.get("funcs") or []:
        walk(fg)

    def ren_graph(g):
        return {
            "id": gmap[g["id"]],
            "inputs": [vmap[x] for x in g["inputs"]],
            "inits": [[k, vmap[x]] for k, x in g["inits"]],
            "nodes": [
                {
                    "id": nmap[n["id"]],
                    "graph": None if n["graph"] is None else gmap.get(n["graph"], -1),
                    "i": [None if x is None else vmap[x] for x in n["i"]],
                    "o": [vmap[x] for x in n["o"]],
                    "g": [ren_graph(s) for s in n["g"]],
                }
                for n in g["nodes"]
            ],
            "outputs": [vmap[x] for x in g["outputs"]],
        }

    root = ren_graph(w["root"])
    tmap: dict[int, int] = {}
    vals = [None] * len(vmap)
    for old, new in sorted(vmap.items(), key=lambda kv: kv[1]):
        c = dict(w["vals"][old])
        if c["const"] is not None:
            c["const"] = tmap.setdefault(c["const"], len(tmap))
        if c["producer"] is not None:
            c["producer"] = nmap.get(c["producer"], -1)
        c["uses"] = [[nmap.get(n, -1), i] for n, i in c["uses"]]
        if c["graph"] is not None:
            c["graph"] = gmap.get(c["graph"], -1)
        vals[new] = c
    tens = [None] * len(tmap)
    for old, new in tmap.items():
        tens[new] = list(w["tens"][old])
    res = {"vals": vals, "tens": tens, "root": root}
    if "funcs" in w:
        res["funcs"] = [[list(fid), ren_graph(fg)] for fid, fg in w["funcs"]]
    return res


def world_for_ser(w: dict) -> dict:
    """World JSON as the driver's `scope.ser` expects it (ids must be list positions)."""
    return w


# --------------------------------------------------------------------------- consistency checker


def iter_graph_tree(graph: ir.Graph):
    """yield every Graph reachable through GRAPH / GRAPHS attributes (pre-order), the root first"""
    stack = [graph]
    seen = set()
    while stack:
        g = stack.pop()
        if id(g) in seen:
            continue
        seen.add(id(g))
        yield g
        subs = []
        for n in g:
            subs.extend(_subgraphs_of_node(n))
        stack.extend(reversed(subs))


def check_consistency(graphs: Iterable[ir.Graph]) -> list[str]:
    """The use-def / ownership invariant (C01) over public accessors, on everything reachable from
    `graphs` (each with its nested graphs).  Returns a list of violations (empty = consistent)."""
    bad: list[str] = []
    all_graphs: list[ir.Graph] = []
    for g0 in graphs:
        all_graphs.extend(iter_graph_tree(g0))
    gset = {id(g) for g in all_graphs}
    nodes: dict[int, ir.Node] = {}
    values: dict[int, ir.Value] = {}
    for g in all_graphs:
        for n in g:
            if id(n) in nodes:
                bad.append(f"node {n.name!r} listed in two graphs or twice")
            nodes[id(n)] = n
            if n.graph is not g:
                bad.append(f"node {n.name!r}.graph is not the graph that lists it")
            for i, v in enumerate(n.inputs):
                if v is None:
                    continue
                values[id(v)] = v
                if (n, i) not in [(u.node, u.idx) for u in v.uses()]:
                    bad.append(f"input slot {i} of node {n.name!r} is not registered as a use of {v.name!r}")
            for i, o in enumerate(n.outputs):
                values[id(o)] = o
                if o.producer() is not n or o.index() != i:
                    bad.append(f"output {i} of node {n.name!r}: producer/index do not point back")
                if o.graph is not g:
                    bad.append(f"output {i} of node {n.name!r}: Value.graph is another graph than its producer's")
        for v in g.inputs:
            values[id(v)] = v
            if not v.is_graph_input() or owner_graph_of(v) is not g:
                bad.append(f"graph input {v.name!r}: flag/owner inconsistent")
            if v.producer() is not None:
                bad.append(f"graph input {v.name!r} has a producer")
        for v in g.outputs:
            values[id(v)] = v
            if not v.is_graph_output() or owner_graph_of(v) is not g:
                bad.append(f"graph output {v.name!r}: flag/owner inconsistent")
            if v.producer() is not None and v.producer().graph is not g:
                bad.append(f"graph output {v.name!r}: produced by a node of another graph")
        for k, v in g.initializers.items():
            values[id(v)] = v
            if k != v.name:
                bad.append(f"initializer key {k!r} != value name {v.name!r}")
            if not v.is_initializer() or owner_graph_of(v) is not g:
                bad.append(f"initializer {k!r}: flag/owner inconsistent")
            if v.producer() is not None:
                bad.append(f"initializer {k!r} has a producer")
    for v in values.values():
        seen_uses = set()
        for u in v.uses():
            key = (id(u.node), u.idx)
            if key in seen_uses:
                bad.append(f"value {v.name!r}: duplicate use")
            seen_uses.add(key)
            if id(u.node) not in nodes:
                bad.append(f"value {v.name!r} is used by a node that is in no graph of the model")
            elif not (0 <= u.idx < len(u.node.inputs)) or u.node.inputs[u.idx] is not v:
                bad.append(f"value {v.name!r}: use ({u.node.name!r},{u.idx}) is not an input slot holding it")
        p = v.producer()
        if p is not None:
            if id(p) not in nodes:
                bad.append(f"value {v.name!r}: producer is in no graph of the model")
            idx = v.index()
            if idx is None or not (0 <= idx < len(p.outputs)) or p.outputs[idx] is not v:
                bad.append(f"value {v.name!r}: producer/index is not an output slot holding it")
        elif v.index() is not None:
            bad.append(f"value {v.name!r}: index without producer")
        og = owner_graph_of(v)
        if v.is_graph_input() and (og is None or id(og) not in gset or not any(x is v for x in og.inputs)):
            bad.append(f"value {v.name!r}: is_graph_input but not in its graph's inputs")
        if v.is_graph_output() and (og is None or id(og) not in gset or not any(x is v for x in og.outputs)):
            bad.append(f"value {v.name!r}: is_graph_output but not in its graph's outputs")
        if v.is_initializer() and (
            og is None or id(og) not in gset or not any(x is v for x in og.initializers.values())
        ):
            bad.append(f"value {v.name!r}: is_initializer but not in its graph's initializers")
    return bad


def resolution_mismatches(gp: onnx.GraphProto, g: ir.Graph, outer: list | None = None, where: str = "graph") -> list[str]:
    """Independent oracle for name resolution: the names of the proto are resolved innermost scope first
    (graph inputs, initializers and ALL node outputs of a graph are in scope for its nodes; a name
    found nowhere is a placeholder of the current scope from then on) and the Value object each node
    input of the deserialized IR holds is compared, by identity, with the object the name resolves to.
    Proto and IR are walked in lock step (nodes by position, graph attributes by name, the last
    attribute of a name being the one that is kept).  Returns descriptions of mismatches."""
    outer = outer or []
    bad: list[str] = []
    nodes = list(g)
    if len(nodes) != len(gp.node) or len(g.inputs) != len(gp.input):
        return [f"{where}: node / input count differs from the proto"]
    scope: dict[str, object] = {}
    for vi, v in zip(gp.input, g.inputs):
        scope[vi.name] = v
    for t in gp.initializer:
        if t.name and t.name not in scope and t.name in g.initializers:
            scope[t.name] = g.initializers[t.name]
    for np_, n in zip(gp.node, nodes):
        outs = list(n.outputs)
        if len(outs) != len(np_.output):
            return bad + [f"{where}: output count of node {np_.name!r} differs from the proto"]
        for name, o in zip(np_.output, outs):
            if name:
                scope[name] = o
    chain = outer + [scope]
    for i, (np_, n) in enumerate(zip(gp.node, nodes)):
        ins = list(n.inputs)
        if len(ins) != len(np_.input):
            return bad + [f"{where}: input count of node {np_.name!r} differs from the proto"]
        for k, (name, v) in enumerate(zip(np_.input, ins)):
            if name == "":
                if v is not None:
                    bad.append(f"{where}.node[{i}].input[{k}]: empty name but a value")
                continue
            want = None
            for sc_ in reversed(chain):
                if name in sc_:
                    want = sc_[name]
                    break
            if want is None:
                scope[name] = v  # a placeholder of the current scope from now on
            elif v is not want:
                bad.append(f"{where}.node[{i}].input[{k}] {name!r}: bound to another value than the innermost "
                           f"definition of the name")
        kept = {a.name: a for a in np_.attribute}
        for aname, a in kept.items():
            if a.HasField("ref_attr_name") and a.ref_attr_name:
                continue
            if aname not in n.attributes or n.attributes[aname].is_ref():
                continue
            iv = n.attributes[aname].value
            if a.type == onnx.AttributeProto.GRAPH and isinstance(iv, ir.Graph):
                bad.extend(resolution_mismatches(a.g, iv, chain, f"{where}.node[{i}].{aname}"))
            elif a.type == onnx.AttributeProto.GRAPHS and isinstance(iv, (list, tuple)) and len(iv) == len(a.graphs):
                for j, (sg, sv) in enumerate(zip(a.graphs, iv)):
                    if isinstance(sv, ir.Graph):
                        bad.extend(resolution_mismatches(sg, sv, chain, f"{where}.node[{i}].{aname}[{j}]"))
    return bad


def tensors_of_model(model: ir.Model) -> list:
    """const tensors of initializers and tensor attributes, of every graph of the model"""
    res = []
    for g0 in model_graphs(model):
        for g in iter_graph_tree(g0):
            for v in g.initializers.values():
                if v.const_value is not None:
                    res.append(v.const_value)
            for n in g:
                for a in n.attributes.values():
                    if a.is_ref() or a.value is None:
                        continue
                    if a.type == ir.AttributeType.TENSOR:
                        res.append(a.value)
                    elif a.type == ir.AttributeType.TENSORS:
                        res.extend(a.value)
    return res


def model_graphs(model: ir.Model) -> list[ir.Graph]:
    return [model.graph] + [f.graph for f in model.functions.values()]


# --------------------------------------------------------------------------- audit hook / time limit

_FILE_EVENTS = ("open", "os.open", "os.listdir", "os.scandir", "os.stat", "os.mkdir", "os.remove",
                "os.rename", "os.replace", "os.truncate", "os.chmod", "os.link", "os.symlink",
                "os.rmdir", "os.utime", "os.walk", "mmap.__new__", "shutil.", "tempfile.", "glob.",
                "pathlib.", "os.readlink", "os.chdir", "os.fwalk", "io.open", "io.open_code",
                "os.lstat", "os.access")


# The stat family raises NO audit event in CPython (os.stat, os.lstat, os.access, os.readlink,
# os.path.exists / getsize / realpath ...): these are caught by counting wrappers installed in the `os`
# and `posixpath` modules while the audit is armed (os.path.* and pathlib look the functions up in the
# `os` module at call time).
_STAT_FUNCS = ("stat", "lstat", "access", "readlink", "scandir", "listdir", "statvfs", "getxattr", "listxattr")
_PATH_FUNCS = ("realpath",)


def _is_import_machinery(path: str) -> bool:
    """a source / byte-code / extension file of the interpreter or of an installed package: a lazy
    `import` inside a library function reads these in a freshly forked worker (not a file access of
    the library on behalf of the proto)"""
    if not isinstance(path, str):
        return False
    if not path.endswith((".py", ".pyc", ".so", ".pth")) and "__pycache__" not in path:
        return False
    roots = {sys.prefix, sys.base_prefix, getattr(sys, "exec_prefix", sys.prefix)}
    return any(path.startswith(r) for r in roots if r) or "site-packages" in path


class FileAudit:
    """Records file-system accesses while `armed`: the audit events CPython raises (one process-wide
    hook; audit hooks cannot be removed, so the hook is installed once and switched) AND calls of the
    stat family, which raises no audit event (counting wrappers, installed for the duration)."""

    _installed = False
    _armed = False
    _events: list = []
    _tid: int | None = None

    @classmethod
    def _record(cls, event, arg):
        if cls._armed and threading.get_ident() == cls._tid:
            cls._armed = False  # formatting may itself touch files
            try:
                try:
                    path = os.fspath(arg) if isinstance(arg, (str, bytes, os.PathLike)) else arg
                    if isinstance(path, bytes):
                        path = path.decode("utf-8", "replace")
                except Exception:  # noqa: BLE001
                    path = arg
                if not _is_import_machinery(path):
                    cls._events.append((event, repr(path)[:120]))
            finally:
                cls._armed = True

    @classmethod
    def _hook(cls, event, args):
        if cls._armed and event.startswith(_FILE_EVENTS):
            cls._record(event, args[0] if args else None)

    def _wrap(self, module, name, label):
        orig = getattr(module, name, None)
        if orig is None:
            return

        def wrapper(*a, **kw):
            FileAudit._record("stat-family:" + label, a[0] if a else kw.get("path"))
            return orig(*a, **kw)

        wrapper.__wrapped__ = orig
        setattr(module, name, wrapper)
        self._patched.append((module, name, orig))

    def __enter__(self):
        import posixpath

        cls = FileAudit
        if not cls._installed:
            sys.addaudithook(cls._hook)
            cls._installed = True
        cls._events = []
        cls._tid = threading.get_ident()
        self._patched: list = []
        for name in _STAT_FUNCS:
            self._wrap(os, name, "os." + name)
        for name in _PATH_FUNCS:
            self._wrap(posixpath, name, "os.path." + name)
        cls._armed = True
        return self

    def __exit__(self, *exc):
        FileAudit._armed = False
        for module, name, orig in reversed(self._patched):
            setattr(module, name, orig)
        self._patched = []
        self.events = list(FileAudit._events)
        return False


class TimeLimit:
    """limit on the CPU time of this process (ITIMER_PROF: user + system time, so that a loaded machine
    does not produce spurious expiries) plus a generous wall-clock backstop (6x); main thread of a worker"""

    class Expired(BaseException):
        pass

    def __init__(self, seconds: float):
        self.seconds = seconds

    def _raise(self, *_):
        raise TimeLimit.Expired()

    def __enter__(self):
        self._old_prof = signal.signal(signal.SIGPROF, self._raise)
        self._old_alrm = signal.signal(signal.SIGALRM, self._raise)
        signal.setitimer(signal.ITIMER_PROF, self.seconds)
        signal.setitimer(signal.ITIMER_REAL, self.seconds * 6)
        return self

    def __exit__(self, *exc):
        signal.setitimer(signal.ITIMER_PROF, 0)
        signal.setitimer(signal.ITIMER_REAL, 0)
        signal.signal(signal.SIGPROF, self._old_prof)
        signal.signal(signal.SIGALRM, self._old_alrm)
        return False


def root_cause(e: BaseException) -> BaseException:
    seen = set()
    while e.__cause__ is not None and id(e) not in seen:
        seen.add(id(e))
        e = e.__cause__
    return e


def error_chain_mentions(e: BaseException, text: str) -> bool:
    seen = set()
    while e is not None and id(e) not in seen:
        seen.add(id(e))
        if text in str(e):
            return True
        e = e.__cause__
    return False


def innermost_wrapper(e: BaseException) -> str:
    """name of the serde function in which the root cause was raised: the `SerdeError` closest to the
    root of the `__cause__` chain says 'Error calling <function> with: ...'."""
    seen = set()
    name = ""
    while e is not None and id(e) not in seen:
        seen.add(id(e))
        msg = str(e)
        if msg.startswith("Error calling "):
            name = msg[len("Error calling "):].split(" ", 1)[0]
        e = e.__cause__
    return name


def is_redeclared_error(e: BaseException) -> bool:
    r = root_cause(e)
    return isinstance(r, ValueError) and "is redeclared in the current graph scope" in str(r)


# --------------------------------------------------------------------------- proto generator

import numpy as np  # noqa: E402

_OPS = ["Add", "Relu", "Identity", "If", "Loop", "Split", "Custom", "Concat"]
_DTYPES = [1, 6, 7, 10, 11, 9, 2, 16]


def gen_type_proto(rng, tp: onnx.TypeProto, allow_weird: bool = False) -> None:
    """fill a TypeProto: tensor / sparse / sequence / optional, with static, symbolic and unknown dims"""
    r = rng.random()
    if r < 0.7:
        tt = tp.tensor_type
    elif r < 0.78:
        tt = tp.sparse_tensor_type
    elif r < 0.9:
        gen_type_proto(rng, tp.sequence_type.elem_type)
        if rng.random() < 0.2:
            tp.denotation = "SEQ"
        return
    else:
        gen_type_proto(rng, tp.optional_type.elem_type)
        return
    if not (allow_weird and rng.random() < 0.3):
        tt.elem_type = rng.choice(_DTYPES)
    if rng.random() < 0.75:
        tt.shape.SetInParent()
        for _ in range(rng.randrange(0, 4)):
            d = tt.shape.dim.add()
            k = rng.random()
            if k < 0.5:
                d.dim_value = rng.randrange(0, 5)
            elif k < 0.8:
                d.dim_param = rng.choice(["N", "M", "batch", ""])
            if rng.random() < 0.1:
                d.denotation = "DATA_BATCH"
    if rng.random() < 0.1:
        tp.denotation = "TENSOR"


def gen_value_info(rng, vi: onnx.ValueInfoProto, name: str, p_type: float = 0.7, weird: bool = False) -> None:
    vi.name = name
    if rng.random() < p_type:
        gen_type_proto(rng, vi.type, allow_weird=weird)
    if rng.random() < 0.15:
        vi.doc_string = rng.choice(["doc", "d2", ""])


def gen_tensor_proto(rng, t: onnx.TensorProto, name: str, kinds: str = "rfise") -> None:
    """kinds: r raw float, f float_data, i int64_data, s string, e external"""
    t.name = name
    dims = [rng.randrange(0, 4) for _ in range(rng.randrange(0, 3))]
    n = int(np.prod(dims)) if dims else 1
    t.dims.extend(dims)
    k = rng.choice(kinds)
    if k == "r":
        t.data_type = onnx.TensorProto.FLOAT
        t.raw_data = np.array([rng.randrange(-5, 5) for _ in range(n)], dtype="<f4").tobytes()
    elif k == "f":
        t.data_type = onnx.TensorProto.FLOAT
        t.float_data.extend([float(rng.randrange(-5, 5)) for _ in range(n)])
    elif k == "i":
        t.data_type = onnx.TensorProto.INT64
        t.int64_data.extend([rng.randrange(-5, 5) for _ in range(n)])
    elif k == "s":
        t.data_type = onnx.TensorProto.STRING
        t.string_data.extend([rng.choice([b"a", b"bc", b""]) for _ in range(n)])
    else:
        t.data_type = rng.choice([1, 7, 10])
        t.data_location = onnx.TensorProto.EXTERNAL
        for key, val in (("location", rng.choice(["w.bin", "sub/w.bin", "../w.bin", "/etc/passwd"])),
                         ("offset", str(rng.randrange(0, 4096))), ("length", str(4 * n))):
            if rng.random() < 0.85:
                e = t.external_data.add()
                e.key, e.value = key, val
    if rng.random() < 0.1:
        t.doc_string = "tdoc"


class ProtoGen:
    """Structured random GraphProto generator: mostly valid graphs (SSA names, nested subgraphs that
    capture outer values) with a controllable rate of deliberate irregularities."""

    def __init__(self, rng, p_bad: float = 0.15, max_depth: int = 2):
        self.rng = rng
        self.p_bad = p_bad
        self.max_depth = max_depth
        self.counter = 0
        self.hist: dict[str, int] = {}

    def note(self, k):
        self.hist[k] = self.hist.get(k, 0) + 1

    def fresh(self, prefix="v"):
        self.counter += 1
        return f"{prefix}{self.counter}"

    def bad(self, scale=1.0):
        return self.rng.random() < self.p_bad * scale

    def graph(self, g: onnx.GraphProto, outer: list[str], depth: int = 0) -> None:
        rng = self.rng
        g.name = self.fresh("g")
        defined: list[str] = []
        for _ in range(rng.randrange(0, 3 if depth else 4)):
            name = self.fresh("in")
            if depth and outer and rng.random() < 0.12:
                name = rng.choice(outer)  # shadows a name of an enclosing scope
                self.note("shadowing_input")
            if self.bad(0.3) and defined:
                name = rng.choice(defined)
                self.note("dup_input")
            if self.bad(0.15):
                name = ""
                self.note("empty_input")
            gen_value_info(rng, g.input.add(), name)
            defined.append(name)
        for _ in range(rng.randrange(0, 3)):
            name = self.fresh("w")
            r = rng.random()
            if r < 0.2 and defined:
                name = rng.choice(defined)  # initializer for an input (or a duplicate initializer)
                self.note("init_for_defined")
            elif self.bad(0.2):
                name = ""
                self.note("empty_init")
            gen_tensor_proto(rng, g.initializer.add(), name)
            if name:
                defined.append(name)
        n_nodes = rng.randrange(0, 5 if depth else 7)
        planned = [[self.fresh("t") for _ in range(rng.choice([1, 1, 1, 2, 3]))] for _ in range(n_nodes)]
        if depth and outer and n_nodes and rng.random() < 0.15:
            cand = [x for x in outer if x and x not in defined]
            if cand:
                planned[rng.randrange(n_nodes)][0] = rng.choice(cand)  # an output shadowing an outer name
                self.note("shadowing_output")
        all_outs = [x for o in planned for x in o]
        vi_names: list[str] = []
        for k in range(n_nodes):
            n = g.node.add()
            n.op_type = rng.choice(_OPS)
            if rng.random() < 0.7:
                n.name = self.fresh("n")
            if rng.random() < 0.1:
                n.domain = rng.choice(["", "ai.onnx", "custom"])
            outs = planned[k]
            # inputs: earlier outputs mostly (sorted), sometimes any output (unsorted / cyclic)
            earlier = [x for o in planned[:k] for x in o]
            for _ in range(rng.randrange(0, 4)):
                r = rng.random()
                pool = defined + earlier + outer
                if r < 0.08:
                    n.input.append("")
                    self.note("optional_input")
                elif r < 0.08 + self.p_bad * 0.6:
                    n.input.append(rng.choice(all_outs))  # maybe later node or itself: unsorted / cycle
                    self.note("unsorted_or_cyclic_ref")
                elif r < 0.08 + self.p_bad * 1.0:
                    n.input.append(rng.choice(["ghost", "ghost2", self.fresh("dangling")]))
                    self.note("dangling_input")
                elif pool:
                    n.input.append(rng.choice(pool))
            for x in outs:
                if self.bad(0.25):
                    x = rng.choice(defined + all_outs) if (defined + all_outs) else x
                    self.note("redeclared_candidate")
                if self.bad(0.25) or (rng.random() < 0.06):
                    x = ""
                    self.note("empty_output")
                n.output.append(x)
            if rng.random() < 0.12:
                n.output.append("")
                self.note("trailing_empty_output")
            # attributes
            if rng.random() < 0.3:
                a = n.attribute.add()
                a.name = "alpha"
                a.type = onnx.AttributeProto.INT
                a.i = rng.randrange(10)
            if rng.random() < 0.15:
                a = n.attribute.add()
                a.name = "value"
                a.type = onnx.AttributeProto.TENSOR
                gen_tensor_proto(rng, a.t, rng.choice(["", "c"]), kinds="rfi")
            if depth < self.max_depth and rng.random() < (0.35 if depth == 0 else 0.2):
                visible = outer + defined + all_outs
                if rng.random() < 0.75:
                    a = n.attribute.add()
                    a.name = "body"
                    a.type = onnx.AttributeProto.GRAPH
                    self.graph(a.g, visible, depth + 1)
                    self.note("subgraph")
                else:
                    a = n.attribute.add()
                    a.name = "branches"
                    a.type = onnx.AttributeProto.GRAPHS
                    for _ in range(rng.randrange(1, 3)):
                        self.graph(a.graphs.add(), visible, depth + 1)
                    self.note("subgraphs_list")
            if rng.random() < 0.1:
                n.doc_string = "ndoc"
        if self.bad(0.5) and n_nodes > 1:
            nodes = list(g.node)
            rng.shuffle(nodes)
            del g.node[:]
            g.node.extend(nodes)
            self.note("shuffled_nodes")
        # value_info
        for x in all_outs:
            if rng.random() < 0.5:
                gen_value_info(rng, g.value_info.add(), x, p_type=0.9)
                vi_names.append(x)
        if self.bad(0.6):
            x = rng.choice(["ghost", "ghost2"] + defined + vi_names + outer + [""])
            gen_value_info(rng, g.value_info.add(), x, p_type=0.9)
            self.note("odd_value_info")
        # outputs
        produced = [x for x in all_outs]
        for _ in range(rng.randrange(0, 3) if produced else 0):
            gen_value_info(rng, g.output.add(), rng.choice(produced))
        if self.bad(0.5):
            x = rng.choice(defined + ["ghost", "nowhere", ""] + outer)
            gen_value_info(rng, g.output.add(), x)
            self.note("odd_output")
        if self.bad(0.3) and len(g.output):
            g.output.add().CopyFrom(rng.choice(list(g.output)))
            self.note("dup_output")
        if rng.random() < 0.1:
            g.doc_string = "gdoc"

    def model(self) -> onnx.ModelProto:
        m = onnx.ModelProto()
        m.ir_version = self.rng.choice([3, 7, 8, 9, 10, 10, 11, 12, 13])
        o = m.opset_import.add()
        o.domain, o.version = "", self.rng.choice([13, 18, 21])
        if self.rng.random() < 0.2:
            o = m.opset_import.add()
            o.domain, o.version = "custom", 1
        if self.rng.random() < 0.3:
            m.producer_name = "verif"
        self.graph(m.graph, [], 0)
        return m


# --------------------------------------------------------------------------- snapshots (purity oracle)


def _falsy_none(x):
    return x if x else None


def tensor_content(t) -> list:
    """content of a tensor object through public accessors, without file access for external tensors"""
    if isinstance(t, ir.ExternalTensor):
        import os

        return ["external", t.dtype.value, list(t.shape.numpy()), os.fspath(t.location), t.offset, t.length,
                _falsy_none(t.doc_string), sorted(t.metadata_props.items())]
    if isinstance(t, ir.StringTensor) or t.dtype == ir.DataType.STRING:
        return ["string", t.dtype.value, list(t.shape.numpy()), [binascii.hexlify(x).decode() for x in t.string_data()]
                if hasattr(t, "string_data") else [binascii.hexlify(x).decode() for x in t.numpy().ravel().tolist()],
                _falsy_none(t.doc_string), sorted(t.metadata_props.items())]
    # element VALUES (bit patterns of numpy(), row-major), not tobytes(): a tensor backed by a non-C-contiguous
    # array must describe the same elements before and after a round trip
    try:
        payload = np.ascontiguousarray(t.numpy()).tobytes()
    except Exception:  # noqa: BLE001 - no numpy view: fall back to the byte form
        payload = t.tobytes()
    return ["dense", t.dtype.value, list(t.shape.numpy()), _sha(payload), _falsy_none(t.doc_string),
            sorted(t.metadata_props.items())]


def _attr_content(a, num: "_Numbering", graph_fn) -> list:
    if a.is_ref():
        return ["ref", a.name, a.type.value, a.ref_attr_name, _falsy_none(a.doc_string)]
    t = a.type
    v = a.value
    AT = ir.AttributeType
    if v is None:
        return ["attr", a.name, t.value, None, _falsy_none(a.doc_string)]
    if t == AT.FLOAT:
        val = np.float32(v).tobytes().hex()
    elif t == AT.FLOATS:
        val = [np.float32(x).tobytes().hex() for x in v]
    elif t == AT.INT:
        val = int(v)
    elif t == AT.INTS:
        val = [int(x) for x in v]
    elif t == AT.STRING:
        val = v if isinstance(v, str) else ["bytes", bytes(v).hex()]
    elif t == AT.STRINGS:
        val = list(v)
    elif t == AT.TENSOR:
        val = [tensor_content(v), _falsy_none(v.name)]
    elif t == AT.TENSORS:
        val = [[tensor_content(x), _falsy_none(x.name)] for x in v]
    elif t == AT.GRAPH:
        val = graph_fn(v)
    elif t == AT.GRAPHS:
        val = [graph_fn(g) for g in v]
    elif t == AT.TYPE_PROTO:
        val = [_canon_ir_type(v.type), _canon_ir_shape(v.shape)]
    elif t == AT.TYPE_PROTOS:
        val = [[_canon_ir_type(x.type), _canon_ir_shape(x.shape)] for x in v]
    elif t == AT.UNDEFINED:
        val = None
    else:
        val = repr(v)
    return ["attr", a.name, t.value, val, _falsy_none(a.doc_string)]


def snapshot_model(model: ir.Model) -> dict:
    """Deep snapshot of an IR model through public accessors; object identities -> first-encounter
    indices.  Tensor names are kept apart (`tensor_names`), everything else in `body`."""
    num = _Numbering()

    def value_ref(v):
        return None if v is None else num.v(v)

    def graph_snap(g) -> dict:
        gid = num.g(g)
        return {
            "id": gid, "name": g.name, "doc": g.doc_string, "meta_props": sorted(g.metadata_props.items()),
            "meta": sorted((k, repr(v)) for k, v in g.meta.items()),
            "opsets": sorted(g.opset_imports.items()),
            "inputs": [value_ref(v) for v in g.inputs],
            "outputs": [value_ref(v) for v in g.outputs],
            "inits": [[k, value_ref(v)] for k, v in g.initializers.items()],
            "nodes": [node_snap(n) for n in g],
        }

    def node_snap(n) -> dict:
        return {
            "id": num.n(n), "name": n.name, "domain": n.domain, "op": n.op_type, "overload": n.overload,
            "version": n.version, "doc": n.doc_string, "meta_props": sorted(n.metadata_props.items()),
            "meta": sorted((k, repr(v)) for k, v in n.meta.items()),
            "graph": None if n.graph is None else num.g(n.graph),
            "inputs": [value_ref(v) for v in n.inputs], "outputs": [value_ref(v) for v in n.outputs],
            "attrs": [_attr_content(a, num, graph_snap) for a in n.attributes.values()],
            "devcfg": [
                [None if c.configuration is None else c.configuration.name, c.pipeline_stage,
                 [[value_ref(sp.value), list(sp.device), repr(sp.index_to_device_group_map), repr(sp.sharded_dims)]
                  for sp in c.sharding_specs]]
                for c in n.device_configurations
            ],
        }

    body = {
        "ir_version": model.ir_version, "producer_name": model.producer_name,
        "producer_version": model.producer_version, "domain": model.domain,
        "model_version": model.model_version, "doc": model.doc_string,
        "meta_props": sorted(model.metadata_props.items()),
        "devcfg": repr(model.device_configurations),
        "graph": graph_snap(model.graph),
        "functions": [
            [list(k), f.domain, f.name, f.overload, f.doc_string, sorted(f.metadata_props.items()),
             sorted(f.opset_imports.items()), [_attr_content(a, num, graph_snap) for a in f.attributes.values()],
             graph_snap(f.graph)]
            for k, f in model.functions.items()
        ],
    }
    vals = []
    i = 0
    while i < len(num.vobjs):  # uses may reach values not met yet
        v = num.vobjs[i]
        i += 1
        p = v.producer()
        vals.append({
            "name": v.name, "type": _canon_ir_type(v.type), "shape": _canon_ir_shape(v.shape), "doc": v.doc_string,
            "meta_props": sorted(v.metadata_props.items()), "meta": sorted((k, repr(x)) for k, x in v.meta.items()),
            "const": None if v.const_value is None else num.t(v.const_value),
            "producer": None if p is None else num.n(p), "index": v.index(),
            "uses": [[num.n(u.node), u.idx] for u in v.uses()],
            "flags": [v.is_graph_input(), v.is_graph_output(), v.is_initializer()],
            "owner": None if owner_graph_of(v) is None else num.g(owner_graph_of(v)),
        })
    body["values"] = vals
    body["tensors"] = [[type(t).__name__, tensor_content(t)] for t in num.tobjs]
    return {"body": body, "tensor_names": [t.name for t in num.tobjs],
            # only initializers of graphs that are part of the model are written (and aligned); a value
            # can still be the initializer of a graph that was detached from the model
            "init_tensor": {num.t(v.const_value): v.name for v in num.vobjs
                            if v.is_initializer() and v.const_value is not None
                            and id(v.graph) in {id(g) for g0 in model_graphs(model) for g in iter_graph_tree(g0)}}}


# --------------------------------------------------------------------------- isomorphism oracle


class IsoMismatch(Exception):
    pass


def _strip_trailing(outs):
    outs = list(outs)
    while outs and not outs[-1].name:
        outs.pop()
    return outs


class IsoChecker:
    """Structural comparison of two IR models through public accessors: node order, operator
    identifiers, connectivity (bijection between values, `None` inputs), names, types, shapes,
    attributes, initializer and constant bytes, doc strings, metadata, functions, opset imports,
    device configurations (IR >= 11).  Accepted normalisations (DESIGN 5/C03 **P**): empty string ==
    None for doc strings and model strings; trailing empty-named node outputs; Node.version, `meta`
    stores, opset imports of nested graphs and graph names of functions are IR-only; a non-input
    initializer without type/shape receives them from its tensor; a shape without a type is not
    serializable; FLOAT attributes are float32; tensor classes may change (content is compared)."""

    def __init__(self):
        self.fw: dict[int, Any] = {}
        self.bw: dict[int, Any] = {}
        self.pairs: list = []
        self.nodes_a: set[int] = set()
        self.nodes_b: set[int] = set()

    def fail(self, what):
        raise IsoMismatch(what)

    def value(self, a, b, where):
        if a is None or b is None:
            if a is not b:
                self.fail(f"{where}: optional input differs")
            return
        if id(a) in self.fw:
            if self.fw[id(a)] is not b:
                self.fail(f"{where}: value {a.name!r} maps to two different values")
            return
        if id(b) in self.bw:
            self.fail(f"{where}: two values map to {b.name!r} (sharing lost)")
        self.fw[id(a)] = b
        self.bw[id(b)] = a
        self.pairs.append((a, b, where))

    def eq(self, x, y, where):
        if x != y:
            self.fail(f"{where}: {x!r} != {y!r}")

    def attr(self, a, b, where):
        self.eq(a.is_ref(), b.is_ref(), where + ".is_ref")
        if a.is_ref():
            self.eq([a.name, a.type, a.ref_attr_name, _falsy_none(a.doc_string)],
                    [b.name, b.type, b.ref_attr_name, _falsy_none(b.doc_string)], where)
            return
        if a.value is None and b.value is None:
            # an attribute without a default: ONNX records only its name (FunctionProto.attribute)
            self.eq(a.name, b.name, where)
            return
        self.eq([a.name, a.type, _falsy_none(a.doc_string)], [b.name, b.type, _falsy_none(b.doc_string)], where)
        AT = ir.AttributeType
        if a.type == AT.GRAPH:
            self.graph(a.value, b.value, where + ".g", main=False, ir_version=self.ir_version)
        elif a.type == AT.GRAPHS:
            self.eq(len(a.value), len(b.value), where + ".graphs#len")
            for i, (x, y) in enumerate(zip(a.value, b.value)):
                self.graph(x, y, f"{where}.graphs[{i}]", main=False, ir_version=self.ir_version)
        else:
            self.eq(_attr_content(a, _Numbering(), None), _attr_content(b, _Numbering(), None), where)

    def node(self, a, b, where, ir_version):
        self.nodes_a.add(id(a))
        self.nodes_b.add(id(b))
        self.eq([a.domain, a.op_type, a.overload, a.name, _falsy_none(a.doc_string), dict(a.metadata_props)],
                [b.domain, b.op_type, b.overload, b.name, _falsy_none(b.doc_string), dict(b.metadata_props)], where)
        self.eq(len(a.inputs), len(b.inputs), where + ".inputs#len")
        for i, (x, y) in enumerate(zip(a.inputs, b.inputs)):
            self.value(x, y, f"{where}.inputs[{i}]")
        ao, bo = _strip_trailing(a.outputs), _strip_trailing(b.outputs)
        self.eq(len(ao), len(bo), where + ".outputs#len")
        for i, (x, y) in enumerate(zip(ao, bo)):
            self.value(x, y, f"{where}.outputs[{i}]")
        self.eq(list(a.attributes.keys()), list(b.attributes.keys()), where + ".attributes")
        for k in a.attributes:
            self.attr(a.attributes[k], b.attributes[k], f"{where}.attr[{k}]")
        if ir_version >= 11:
            self.devcfg(a.device_configurations, b.device_configurations, where + ".device_configurations")

    cfgs_a: tuple = ()
    cfgs_b: tuple = ()
    ir_version: int = 0

    @staticmethod
    def _cfg_index(c, cfgs):
        for i, x in enumerate(cfgs):
            if x is c:
                return i
        return None

    def devcfg(self, a, b, where):
        self.eq(len(a), len(b), where + "#len")
        for x, y in zip(a, b):
            self.eq([x.configuration.name if x.configuration else None, x.pipeline_stage],
                    [y.configuration.name if y.configuration else None, y.pipeline_stage], where)
            # the node refers to the model's configuration (devices included), not to a name-only stand-in
            if self._cfg_index(x.configuration, self.cfgs_a) is not None:
                self.eq([_cfg_token(x.configuration), self._cfg_index(x.configuration, self.cfgs_a)],
                        [_cfg_token(y.configuration), self._cfg_index(y.configuration, self.cfgs_b)], where + ".configuration")
            self.eq(len(x.sharding_specs), len(y.sharding_specs), where + ".specs#len")
            for s, t in zip(x.sharding_specs, y.sharding_specs):
                self.value(s.value, t.value, where + ".spec.value")
                self.eq([s.device, s.index_to_device_group_map, repr(s.sharded_dims)],
                        [t.device, t.index_to_device_group_map, repr(t.sharded_dims)], where + ".spec")

    def graph(self, a, b, where, main, ir_version=0, function=False):
        if not function:
            self.eq(_falsy_none(a.name), _falsy_none(b.name), where + ".name")
        self.eq([_falsy_none(a.doc_string), dict(a.metadata_props)], [_falsy_none(b.doc_string), dict(b.metadata_props)], where)
        if main or function:
            self.eq(dict(a.opset_imports), dict(b.opset_imports), where + ".opset_imports")
        self.eq(len(a.inputs), len(b.inputs), where + ".inputs#len")
        for i, (x, y) in enumerate(zip(a.inputs, b.inputs)):
            self.value(x, y, f"{where}.inputs[{i}]")
        self.eq(list(a.initializers.keys()), list(b.initializers.keys()), where + ".initializers")
        for k in a.initializers:
            self.value(a.initializers[k], b.initializers[k], f"{where}.init[{k}]")
        self.eq(len(a), len(b), where + ".nodes#len")
        for i, (x, y) in enumerate(zip(a, b)):
            self.node(x, y, f"{where}.node[{i}]", ir_version)
        self.eq(len(a.outputs), len(b.outputs), where + ".outputs#len")
        for i, (x, y) in enumerate(zip(a.outputs, b.outputs)):
            self.value(x, y, f"{where}.outputs[{i}]")

    def finish_values(self):
        for a, b, where in self.pairs:
            w = f"{where} value {a.name!r}"
            self.eq(a.name, b.name, w + ".name")
            ta = emitted_info(token_of_value(a)[0])
            tb = emitted_info(token_of_value(b)[0])
            if a.is_initializer() and not a.is_graph_input() and not a.is_graph_output() and a.const_value is not None:
                # a non-input, non-output initializer receives a missing type / shape from its tensor
                # (a graph output takes exactly what its output entry says)
                _, tty, tsh = tensor_tokens_of_ir(a.const_value)
                if ta[0] is None:
                    ta = [tty, None, ta[2]]
                if ta[1] is None:
                    ta[1] = tsh
            self.eq(ta, tb, w + ".type/shape/doc")
            self.eq(dict(a.metadata_props), dict(b.metadata_props), w + ".metadata_props")
            if not where.startswith("function"):
                # quantization annotations live in GraphProto.quantization_annotation (FunctionProto has none)
                self.eq(dict(a.meta.get("quant_parameter_tensor_names") or {}),
                        dict(b.meta.get("quant_parameter_tensor_names") or {}), w + ".quantization_annotation")
            self.eq([a.is_graph_input(), a.is_graph_output(), a.is_initializer()],
                    [b.is_graph_input(), b.is_graph_output(), b.is_initializer()], w + ".flags")
            if a.is_initializer():
                if (a.const_value is None) != (b.const_value is None):
                    self.fail(w + ": const_value presence differs")
                if a.const_value is not None:
                    self.eq(tensor_content(a.const_value), tensor_content(b.const_value), w + ".const_value")
                    self.eq(b.const_value.name, b.name, w + ".const_value.name")
            pa, pb = a.producer(), b.producer()
            if (pa is None) != (pb is None):
                self.fail(w + ": producer presence differs")
            self.eq(a.index() if pa is not None else None, b.index() if pb is not None else None, w + ".index")
            # uses by nodes that belong to a graph (a node removed from its graph may still be registered)
            self.eq(len([u for u in a.uses() if id(u.node) in self.nodes_a]),
                    len([u for u in b.uses() if id(u.node) in self.nodes_b]), w + ".uses#len")

    def model(self, a: ir.Model, b: ir.Model):
        self.cfgs_a, self.cfgs_b = tuple(a.device_configurations), tuple(b.device_configurations)
        self.ir_version = a.ir_version
        self.eq([a.ir_version, _falsy_none(a.producer_name), _falsy_none(a.producer_version), _falsy_none(a.domain),
                 _falsy_none(a.model_version), _falsy_none(a.doc_string), dict(a.metadata_props)],
                [b.ir_version, _falsy_none(b.producer_name), _falsy_none(b.producer_version), _falsy_none(b.domain),
                 _falsy_none(b.model_version), _falsy_none(b.doc_string), dict(b.metadata_props)], "model")
        self.graph(a.graph, b.graph, "graph", main=True, ir_version=a.ir_version)
        self.eq(list(a.functions.keys()), list(b.functions.keys()), "functions")
        for k in a.functions:
            fa, fb = a.functions[k], b.functions[k]
            w = f"function[{k}]"
            self.eq([fa.domain, fa.name, fa.overload], [fb.domain, fb.name, fb.overload], w)
            self.eq(list(fa.attributes.keys()), list(fb.attributes.keys()), w + ".attributes")
            for an in fa.attributes:
                self.attr(fa.attributes[an], fb.attributes[an], f"{w}.attr[{an}]")
            self.graph(fa.graph, fb.graph, w, main=False, ir_version=a.ir_version, function=True)
        if a.ir_version >= 11:
            self.eq([(c.name, c.num_devices, tuple(c.device_names)) for c in a.device_configurations],
                    [(c.name, c.num_devices, tuple(c.device_names)) for c in b.device_configurations],
                    "model.device_configurations")
        self.finish_values()


def _cfg_token(c):
    return None if c is None else [c.name, c.num_devices, tuple(c.device_names)]


def iso_mismatch(a: ir.Model, b: ir.Model) -> str | None:
    try:
        IsoChecker().model(a, b)
    except IsoMismatch as e:
        return str(e)
    return None


# --------------------------------------------------------------------------- serializability (oracle side)


def serializable_reason(model: ir.Model, notes: list | None = None) -> str | None:
    """None when the model can be expected to round-trip isomorphically: names needed for references
    are non-empty and unique per graph, every referenced value is defined in an enclosing scope and
    is the innermost definition of its name seen from the referencing node (a nested graph may
    shadow a name of an enclosing graph; "shadowing" is then appended to `notes`), graphs nest as a
    tree, initializers carry tensors.  Otherwise the first reason."""
    seen_graphs: set[int] = set()

    def graph(g, chain_names: dict, chain_vals: set[int], function=False) -> str | None:
        if id(g) in seen_graphs:
            return "graph object shared"
        seen_graphs.add(id(g))
        defs: list = []
        for v in g.inputs:
            defs.append(v)
        for k, v in g.initializers.items():
            if k != v.name:
                return "initializer key != name"
            if v.const_value is None:
                return "initializer without const_value"
            if not any(v is x for x in g.inputs):
                defs.append(v)
        for n in g:
            for o in n.outputs:
                defs.append(o)
        ids = [id(v) for v in defs]
        if len(ids) != len(set(ids)):
            return "value defined twice"
        if set(ids) & chain_vals:
            return "value defined in two scopes"
        names = dict(chain_names)
        local: set[str] = set()
        for v in defs:
            if v.name is None:
                return "defined value without a name"
            if v.name == "":
                if v.producer() is None:
                    return "graph input/initializer with empty name"
                if v.uses() or v.is_graph_output() or emitted_info(token_of_value(v)[0]) != [None, None, None]:
                    return "empty-named output that is used or carries information"
                continue
            if v.name in local:
                return "duplicate name in one graph"
            local.add(v.name)
            if v.name in names and notes is not None:
                notes.append("shadowing")
            names[v.name] = id(v)
        vals = chain_vals | set(ids)
        for v in g.outputs:
            if id(v) not in set(ids) or not v.name:
                return "graph output not defined in its graph"
        for n in g:
            for v in n.inputs:
                if v is not None and (id(v) not in vals or not v.name):
                    return "node input not defined in an enclosing scope"
                if v is not None and names.get(v.name) != id(v):
                    return "node input shadowed by an inner definition of the same name"
            for o in n.outputs:
                if o.is_graph_output() != any(o is x for x in g.outputs):
                    return "is_graph_output flag of a node output disagrees with its graph"
            for c in n.device_configurations:
                for s in c.sharding_specs:
                    if s.value is None or id(s.value) not in vals or not s.value.name:
                        return "sharding spec value not defined in scope"
                    if names.get(s.value.name) != id(s.value):
                        return "sharding spec value shadowed by an inner definition of the same name"
                if c.configuration is None or not c.configuration.name:
                    return "device configuration without name"
            if len({a.name for a in n.attributes.values()}) != len(n.attributes):
                return "attribute names"
            for s in _subgraphs_of_node(n):
                r = graph(s, names, vals)
                if r:
                    return r
        return None

    r = graph(model.graph, {}, set())
    if r:
        return r
    for f in model.functions.values():
        if len(f.graph.initializers):
            return "function with initializers"
        if f.overload and model.ir_version < 10:
            return "function overload in IR version < 10"
        if model.ir_version < 10:
            # the IR<10 format stores function value info under "domain::name/value" in the main graph;
            # identifiers that cannot be split back at the first "::" and the first "/" have no representation
            for v in list(f.inputs) + [o for n in f for o in n.outputs]:
                full = f"{f.domain}::{f.name}/{v.name}"
                d2, _, rest = full.partition("::")
                n2, _, v2 = rest.partition("/")
                if (d2, n2, v2) != (f.domain, f.name, v.name):
                    return "function identifier not representable in IR version < 10 value-info names"
        r = graph(f.graph, {}, set(), function=True)
        if r:
            return "function: " + r
    return None


def serializable_core(graph: ir.Graph) -> bool:
    """Independent re-implementation of the Lean predicate `IrVerif.Scope.serializableB` (the
    hypothesis of C03_roundtrip) on the main graph tree; used to check that the oracle's gate
    `serializable_reason` implies the theorem's hypothesis."""

    def truthy(v):
        return bool(v.name)

    def live(n):
        return _strip_trailing(n.outputs)

    def defs(g):
        ins = list(g.inputs)
        res = list(ins)
        res += [v for v in g.initializers.values() if not any(v is x for x in ins)]
        for n in g:
            res += live(n)
        return res

    all_defs: list = []

    def ok_graph(g, od) -> bool:
        D = defs(g)
        all_defs.extend(D)
        if any(any(v is o for o in od) for v in D):
            return False
        vis = D + od
        for a in vis:
            if truthy(a):
                for b in vis:
                    if a.name == b.name and a is not b:
                        return False
        if not all(truthy(v) for v in g.inputs):
            return False
        keys, vals = [], []
        for k, v in g.initializers.items():
            if v.name != k or k == "" or v.const_value is None:
                return False
            keys.append(k)
            vals.append(id(v))
        if len(set(keys)) != len(keys) or len(set(vals)) != len(vals):
            return False
        for v in g.outputs:
            if not any(v is d for d in D) or not truthy(v):
                return False
        for n in g:
            for v in n.inputs:
                if v is not None and (not any(v is x for x in vis) or not truthy(v)):
                    return False
            for v in n.outputs:
                if v.name is None:
                    return False
            for s in _subgraphs_of_node(n):
                if not ok_graph(s, vis):
                    return False
        return True

    r = ok_graph(graph, [])
    ids = [id(v) for v in all_defs]
    return r and len(ids) == len(set(ids)) and info_core(graph)


def info_core(graph: ir.Graph) -> bool:
    """mirror of the Lean predicate `infoGB`: a non-input, non-output initializer has a type and a
    shape; an empty-named (live) node output carries no type and no documentation"""
    for g in iter_graph_tree(graph):
        for v in g.initializers.values():
            if any(v is x for x in g.inputs) or any(v is x for x in g.outputs):
                continue
            tok = token_of_value(v)[0]
            if tok[0] is None or tok[1] is None:
                return False
        for n in g:
            for v in _strip_trailing(n.outputs):
                if not v.name:
                    tok = token_of_value(v)[0]
                    if tok[0] is not None or tok[2] is not None:
                        return False
    return True


"""C14 — passes honour their contract: identity, modified flag, fixpoint, no damage (DESIGN.md 5/C14).

Five parts, all run on every check:

A  infrastructure correspondence: random trees of scripted passes (Sequential / PassManager /
   functionalize around user passes whose requires/call/ensures follow a script) are run through the
   real ``PassBase.__call__`` machinery and through the Lean model ``IrVerif.PassInfra.Pass.run``
   (driver ``passinfra.run`` / ``passinfra.mgrloop``); outcome, returned object, flag and the whole
   call log are compared.  Oracle: identity rule and "manager flag = OR of step flags" on the real run.
B  ``call_onnx_api`` correspondence with fault injection: generated initializer configurations
   (big/small/no tensor, lazy tensors, tensors whose attributes raise, missing shape/type, already an
   input) x {ok, tensor attribute raises, serialization raises, wrapped call raises}; the proto handed
   to the wrapped call and the world afterwards are compared with ``CApi.callOnnxApi``.  Oracle: the
   model is exactly as before (objects, keys, order, tensors, shapes, types, inputs, ownership flags).
G  (deepening round) IdentityElimination / CSE / LiftSubgraphInitializers / OutputFix: flag, RESULT model, measure and
   second application vs `passinfra.flags2` (C05's pass models + the flag transcriptions of Model/PassFlags2.lean);
   RemoveUnusedOpsets / RemoveUnusedFunctions vs their transcriptions; NameFix vs C15's model `names.fix`;
   `sortedModel` vs the oracle's is_sorted.  Every clause of the new theorems is also evaluated on the real objects.
C  every built-in pass and random PassManager compositions on generated models: identity,
   modified=False => same bytes, rounds until modified=False <= size+1 and one more application changes
   nothing, use-def/ownership checker, sorted stays sorted, names kept; concrete flag models
   (ClearMetadataAndDocString, TopologicalSort, Remove/AddInitializers{From,To}Inputs) compared with Lean.
D  fault injection at the ONNX boundary for CheckerPass / ShapeInferencePass on the generated models.
H  (second deepening round) InlinePass vs C05's model of the pass + the flag / measure of Model/PassFlags3.lean (driver
   `passinfra.inline`: flag, counter, #accepted calls before / after, RESULT model, second application, hypotheses
   `funcIdsNodup` / `stuck` / `validF`); RemoveUnusedNodes and IdentityElimination as programs over C01's kernel
   (`passinfra.kpass`, Model/PassKernel.lean): a world is built through C01's alphabet on the real objects
   (harness/kernel_ops.Real), the real pass runs on it, and the change of the canonical world dump is compared with the
   kernel program's; C01's invariant is evaluated on the real objects after the pass (kernel_ops.wf_oracle).
I  (wave 5) CSE / LiftConstants / LiftSubgraphInitializers / Deduplicate(Hashed) as kernel programs (`passinfra.kpass`, pass =
   cse | lc | lsi | dd, Model/PassKernel2.lean; stream kpass2: own history generator, Value / Node construction recorded, 1-bit
   digest injected into the hashed pass, the data-level decisions sent as parameters); AddDefaultAttributes vs
   Model/PassFlags4.lean with the schema table read off onnx.defs per case (`passinfra.adddef`); exhaustive small scope + oracle
   for the conjectured linear round bound of CSE (stream cserounds).
Every item of every stream runs under a CPU / wall-clock interval timer (`_guard`): a call of the implementation that
does not return becomes the failure `nontermination:<stream>[:<pass>]`, never a hung check.
"""
from __future__ import annotations

import contextlib
import json
import logging
import random

import numpy as np

from harness.common import Ctx, Part, lean_batch_parallel, load_corpus, pmap

THEOREMS = [
    # identity rule, functionalize
    "IrVerif.PassInfra.C14_identity_rule",
    "IrVerif.PassInfra.C14_identity_violation_raises",
    "IrVerif.PassInfra.C14_functionalize_returns_clone",
    # flags of Sequential / PassManager, honesty of compositions
    "IrVerif.PassInfra.C14_sequential_modified",
    "IrVerif.PassInfra.C14_manager_modified",
    "IrVerif.PassInfra.C14_manager_pass_modified",
    "IrVerif.PassInfra.C14_manager_steps",
    "IrVerif.PassInfra.C14_sequential_honest",
    "IrVerif.PassInfra.C14_manager_honest",
    "IrVerif.PassInfra.C14_functionalize_honest",
    # rounds / fixpoint
    "IrVerif.PassInfra.C14_rounds",
    "IrVerif.PassInfra.C14_fixpoint",
    "IrVerif.PassInfra.C14_fixpoint_obs",
    "IrVerif.PassInfra.C14_counting_flag",
    "IrVerif.PassInfra.C14_counting_measure",
    "IrVerif.PassInfra.C14_counting_rounds",
    "IrVerif.PassInfra.C14_counting_manager",
    # transcribed passes
    "IrVerif.PassInfra.ClearMeta.C14_flag_clear",
    "IrVerif.PassInfra.ClearMeta.C14_fix_clear",
    "IrVerif.PassInfra.ClearMeta.C14_measure_clear",
    "IrVerif.PassInfra.InitInputs.C14_rm_init_measure",
    "IrVerif.PassInfra.InitInputs.C14_rm_init_contract",
    "IrVerif.PassInfra.InitInputs.C14_add_init_flag",
    "IrVerif.PassInfra.Dce.C14_dce_measure",
    "IrVerif.PassInfra.Dce.C14_dce_contract",
    # flags / measures on C05's pass models, sort pass on C12's model
    "IrVerif.PassInfra.C14_flag_dce",
    "IrVerif.PassInfra.C14_measure_dce",
    "IrVerif.PassInfra.C14_flag_lift_const",
    "IrVerif.PassInfra.C14_measure_lift_const",
    "IrVerif.PassInfra.C14_flag_dedup",
    "IrVerif.PassInfra.C14_measure_dedup",
    "IrVerif.PassInfra.C14_sort_flag_iff",
    "IrVerif.PassInfra.C14_sort_keeps_sorted",
    # call_onnx_api, CheckerPass, ShapeInferencePass
    "IrVerif.PassInfra.CApi.C14_c_api_restore",
    "IrVerif.PassInfra.CApi.C14_c_api_restore_exact",
    "IrVerif.PassInfra.CApi.C14_c_api_restore_seq",
    "IrVerif.PassInfra.CApi.C14_c_api_no_fault_outcome",
    "IrVerif.PassInfra.CApi.C14_checker_unchanged",
    "IrVerif.PassInfra.CApi.C14_shape_inference_failure_unchanged",
    "IrVerif.PassInfra.CApi.C14_shape_inference_raise_unchanged",
    "IrVerif.PassInfra.CApi.C14_shape_merge_flag",
    "IrVerif.PassInfra.CApi.C14_shape_inference_flag",
    # deepening round: flag / fix-point / measure of further built-in passes
    "IrVerif.PassInfra.C14_pure_rounds",
    "IrVerif.PassInfra.C14_idempotent_rounds",
    "IrVerif.PassInfra.C14_flag_identity",
    "IrVerif.PassInfra.C14_measure_identity",
    "IrVerif.PassInfra.C14_fix_identity",
    "IrVerif.PassInfra.C14_rounds_identity",
    "IrVerif.PassInfra.C14_flag_cse",
    "IrVerif.PassInfra.C14_measure_cse_partial",
    "IrVerif.PassInfra.C14_measure_cse_weighted_partial",
    "IrVerif.PassInfra.C14_flag_lift_sub_inits",
    "IrVerif.PassInfra.C14_fix_lift_sub_inits",
    "IrVerif.PassInfra.C14_measure_lift_sub_inits",
    "IrVerif.PassInfra.C14_flag_output_fix",
    "IrVerif.PassInfra.C14_fix_output_fix",
    "IrVerif.PassInfra.C14_measure_output_fix",
    "IrVerif.PassInfra.C14_flag_namefix",
    "IrVerif.PassInfra.C14_fix_namefix",
    "IrVerif.PassInfra.C14_unused_opsets_contract",
    "IrVerif.PassInfra.C14_unused_functions_flag",
    "IrVerif.PassInfra.C14_unused_functions_measure",
    "IrVerif.PassInfra.C14_fix_unused_functions",
    "IrVerif.PassInfra.C14_keeps_sorted_delete",
    "IrVerif.PassInfra.C14_keeps_sorted_subst",
    # second deepening round: Inline, CSE weight, node-adding passes stay ordered, kernel programs keep C01's invariant
    "IrVerif.PassInfra.C14_flag_inline",
    "IrVerif.PassInfra.C14_measure_inline",
    "IrVerif.PassInfra.C14_fix_inline",
    "IrVerif.PassInfra.C14_inline_valid",
    "IrVerif.PassInfra.C14_cse_weight_mono",
    "IrVerif.PassInfra.C14_measure_cse",
    "IrVerif.PassInfra.C14_rounds_cse",
    "IrVerif.PassInfra.C14_keeps_sorted_add",
    "IrVerif.PassInfra.C14_wf_remove_unused_nodes",
    "IrVerif.PassInfra.C14_wf_identity_elimination",
    "IrVerif.PassInfra.C14_wf_init_inputs",
    "IrVerif.PassInfra.C14_wf_output_fix",
    "IrVerif.PassInfra.C14_wf_replay",
    "IrVerif.PassInfra.C14_wf_cse",
    "IrVerif.PassInfra.C14_wf_lift_constants",
    "IrVerif.PassInfra.C14_wf_lift_sub_inits",
    "IrVerif.PassInfra.C14_wf_dedup",
    "IrVerif.PassInfra.C14_names_dedup",
    "IrVerif.PassInfra.C14_names_lift_constants",
    "IrVerif.PassInfra.C14_names_kept",
    "IrVerif.PassInfra.C14_names_initializers",
    "IrVerif.PassInfra.C14_flag_add_defaults",
    "IrVerif.PassInfra.C14_fix_add_defaults",
    "IrVerif.PassInfra.C14_measure_add_defaults",
    "IrVerif.PassInfra.C14_rounds_add_defaults",
    "IrVerif.PassInfra.C14_flag_kernel",
    "IrVerif.PassInfra.C14_names_cse_outputs",
    "IrVerif.PassInfra.C14_names_lift_sub_inits",
]
ASSUMPTIONS = [
    "passes are modelled as arbitrary functions of an abstract world (identity rule, manager flag, honesty of "
    "compositions, rounds) or as counting traversals over an abstract rewrite system; transcribed models exist for "
    "ClearMetadataAndDocString, Remove/AddInitializers{From,To}Inputs, RemoveUnusedNodes (flat: own model; nested "
    "graphs + functions: count next to C05's dceModel), LiftConstantsToInitializers and Deduplicate(Hashed)Initializers "
    "(counts next to C05's models), the TopologicalSort flag (on C12's passEffect) and the ShapeInference merge",
    "deepening round: flag honesty (False => same model value), idempotence and a decreasing measure are theorems for "
    "IdentityElimination, LiftSubgraphInitializers, OutputFix (flag transcriptions Model/PassFlags2.lean next to C05's "
    "pass models; idempotence of IdentityElimination under C05's validModel + 'Identity nodes hold no graphs', both "
    "evaluated by the driver on every case), NameFix (C15's fixModel; idempotence under C15's PassWF, evaluated), "
    "RemoveUnusedOpsets and RemoveUnusedFunctions (own transcriptions); for CSE flag honesty is a theorem, the measure is "
    "PARTIAL (weighted node count strictly decreases unless a one-output Identity node is replaced by another Identity "
    "node - `cseStalled`, evaluated and counted) and idempotence is false (3 equal nodes at the outputs need 2 rounds); "
    "'ordered stays ordered' (C05's noFwdG for all graphs = `sortedModel`, compared with the oracle's is_sorted on "
    "ordered and unordered models) is a theorem for RemoveUnusedNodes, LiftConstants, LiftSubgraphInitializers, "
    "Remove/AddInitializers{From,To}Inputs, IdentityElimination and Deduplicate(Hashed)Initializers (the last under ssaG)",
    "second deepening round: InlinePass on C05's model of the pass (Model/Inline.lean, read-only; flag = bool(total_inlined) = "
    "ISt.count != 0, Model/PassFlags3.lean): flag honesty under funcIdsNodup (model.functions is a dictionary), 'a run that is "
    "not stuck leaves no accepted call', idempotence and the measure #accepted call nodes under stuck = false (the unrolling "
    "budget of the MODEL sufficed); on validF models that do not make the pass raise everything holds of inlineModel, the "
    "function compared with the real pass (stuck = false by C05_inline_total); all three hypotheses evaluated and published per "
    "case.  CSE: C14_measure_cse / C14_rounds_cse hold on C05's validModel (evaluated; 100% of the compared cases): cseMu = "
    "W*(W*W+1) + (W*W - Identity-chain depth) strictly decreases in EVERY modifying round (also the 'stalled' ones), the bound "
    "on the rounds is cubic in the size of the main graph.  'Ordered stays ordered' for the node-adding passes CSE and OutputFix "
    "is a theorem on validModel inputs only (corollary of C05_pass_valid).  Use-def / ownership / names: RemoveUnusedNodes "
    "(without the schema-driven part), IdentityElimination, Remove/AddInitializers{From,To}Inputs and OutputFix (which creates nodes) are written as programs over "
    "C01's kernel (Model/PassKernel.lean) and keep C01's invariant WF; the tie to the code is the comparison of the kernel-visible "
    "world (names, producers, uses, ownership flags and counters, initializer keys, node sequences, name authority) after the "
    "real pass with the world after the kernel program, on worlds built through C01's alphabet (harness/kernel_ops.Real); shapes, "
    "types and metadata are not in that world",
    "wave 5: CSE, LiftConstants, LiftSubgraphInitializers and Deduplicate(Hashed) are kernel programs too (Model/PassKernel2.lean): "
    "what they decide from data outside C01's world (attribute values, tensor contents / sizes / names, digests) is a PARAMETER of "
    "the program (akey, big, tnamed, hkey, tkey) that the theorems quantify over and that this harness computes from the real "
    "objects with its own reading of the documented rule; LiftConstants: the tensor of a `value` attribute carries no name or the "
    "output's name (the two spellings of the program); the rename loop of LiftSubgraphInitializers has a fuel (never exhausted); "
    "'names kept' means: a value that HAS a name keeps exactly it (Deduplicate, LiftConstants: always; CSE: unless the pass issued "
    "Value.name = ... for it; LiftSubgraphInitializers: unless it ends as an initializer of the main graph), every initializer is "
    "registered under its name, and CSE keeps the names of the graph outputs position by position; an unnamed value may be named by "
    "the name authority.  "
    "AddDefaultAttributes (Model/PassFlags4.lean): flag / idempotence / measure are theorems over an arbitrary schema table (read "
    "off the installed onnx package per case), opset imports and SEQUENCE of visited nodes with opaque value tokens (the pass adds "
    "no graph attribute, so the sequence is the same before and after: checked).  The LINEAR round bound of CSE is a conjecture "
    "(exhaustive on small forests + oracle modifying rounds <= nodes-1), the proved bound is cseMu+1",
    "NO theorem (oracle only, on generated models): flag honesty / fixpoint / measure of "
    "the schema-driven optional-output removal inside RemoveUnusedNodes; use-def/ownership consistency and 'names kept' for the "
    "passes that are not kernel programs (Inline, NameFix, TopologicalSort, AddDefaultAttributes: Inline clones function bodies "
    "through private state, AddDefaultAttributes only writes node.attributes, NameFix / TopologicalSort "
    "are the subject of C15 / C12); 'ordered stays ordered' for Inline and AddDefaultAttributes and for CSE / "
    "OutputFix on models that are ordered but not well-formed; "
    "no theorem is about serialized bytes (the theorems speak about the model value of C05's IR - structure and value "
    "identities, not names / shapes / types / metadata - resp. about every name and initializer key for NameFix, resp. about "
    "C01's kernel world); C01's, C05's and C15's models are imported read-only and are tied to the real passes on every run",
    "C14_rounds/C14_fixpoint(_obs) assume a measure that decreases when modified=True and an honest False flag; both are "
    "proved for the transcribed passes above and checked by the oracle for all others",
    "call_onnx_api / CheckerPass / failed ShapeInference leave the model unchanged EXCEPT tensor.name: serialization "
    "sets the name of every initializer tensor it reaches to the value name (documented C03 side effect, serde.py "
    "`value.const_value.name = value.name`); the model, the theorem (SameUpToTensorNames) and the oracle allow exactly "
    "that; the restore statements of the finally block are assumed not to raise on a well-formed initializer mapping "
    "(distinct keys = value names); ownership flags/ref-counts are not in the model (checked by the oracle); "
    "serialization, the ONNX C++ call and the deserialization of the inferred proto are parameters that may fail",
    "an exception of a built-in pass on a generated model is a failure unless it is on the allow-list of `raise_allowed` "
    "(checker on unsorted / non-SSA / cyclic models, strict full_check shape errors, cloning or inlining use-before-def "
    "graphs, InlinePass precondition on cyclic functions, merge of a non-SSA inferred proto, lifting onto an existing name)",
    "Model.clone returns a new object (C13); CPython object identity",
]

logging.getLogger("onnx_ir").setLevel(logging.CRITICAL)


class _Timeout(BaseException):
    """a call of the implementation did not return within the CPU / wall-clock guard (not an Exception: neither the code
    under test nor an `except Exception` of the harness may swallow it)"""


_ITEM_CPU_S = float(__import__("os").environ.get("C14_ITEM_CPU_S", "20"))    # one item takes milliseconds to ~1 s
_ITEM_WALL_S = float(__import__("os").environ.get("C14_ITEM_WALL_S", "900"))  # a blocked (not spinning) call; generous under load


@contextlib.contextmanager
def _guard(cpu_s: float | None = None, wall_s: float | None = None):
    """CPU-time and wall-clock interval timers around one item of a stream (main thread of the process only - that is
    where the main process and the pmap workers run the harness).  Not re-entrant: the streams never nest it."""
    import signal
    import threading

    if threading.current_thread() is not threading.main_thread():
        yield
        return

    def _h(signum, frame):
        raise _Timeout("CPU guard" if signum == signal.SIGVTALRM else "wall-clock guard")

    old_v = signal.signal(signal.SIGVTALRM, _h)
    old_r = signal.signal(signal.SIGALRM, _h)
    signal.setitimer(signal.ITIMER_VIRTUAL, cpu_s or _ITEM_CPU_S)
    signal.setitimer(signal.ITIMER_REAL, wall_s or _ITEM_WALL_S)
    try:
        yield
    finally:
        signal.setitimer(signal.ITIMER_VIRTUAL, 0)
        signal.setitimer(signal.ITIMER_REAL, 0)
        signal.signal(signal.SIGVTALRM, old_v)
        signal.signal(signal.SIGALRM, old_r)


def _nonterm_sig(kind: str, it) -> str:
    if kind == "pass":
        try:
            return f"nontermination:pass:{pass_table()[it[2]][0]}"
        except Exception:  # noqa: BLE001
            pass
    if kind == "boundary":
        return f"nontermination:boundary:{it[1]}"
    return f"nontermination:{kind}"


# =========================================================================== A. scripted infrastructure

_DEFAULT_BEH = {"req": 0, "ret": 0, "mod": False, "ens": 0}


def gen_beh(rng: random.Random, ip: bool, wild: bool) -> dict:
    r = rng.random()
    if not wild or r < 0.75:
        ret = 0 if ip else 1  # honours its declaration
    else:
        ret = rng.choice([0, 1, 2, 3, 4])
    return {
        "req": rng.choice([0, 0, 0, 0, 0, 0, 1, 2]) if wild else 0,
        "ret": ret,
        "mod": rng.random() < 0.5,
        "ens": rng.choice([0, 0, 0, 0, 0, 0, 1, 2]) if wild else 0,
    }


def gen_tree(rng: random.Random, depth: int, counter: list, wild: bool) -> dict:
    kinds = ["leaf"] * 3 + (["seq", "mgr", "mgr", "func"] if depth < 3 else [])
    k = rng.choice(kinds)
    if k == "leaf":
        counter[0] += 1
        ip = rng.random() < 0.7
        return {
            "k": "leaf",
            "id": counter[0],
            "ip": ip,
            "beh": [gen_beh(rng, ip, wild) for _ in range(rng.randint(1, 4))],
        }
    if k == "func":
        return {"k": "func", "p": gen_tree(rng, depth + 1, counter, wild)}
    n = rng.choice([1, 1, 2, 2, 3]) if rng.random() > 0.03 else 0
    ps = [gen_tree(rng, depth + 1, counter, wild) for _ in range(n)]
    if k == "seq":
        return {"k": "seq", "ps": ps}
    return {"k": "mgr", "ps": ps, "steps": rng.choice([0, 1, 1, 2, 3, 5]), "es": rng.random() < 0.6}


class _Env:
    def __init__(self):
        self.models = []  # strong refs; index = identity
        self.index = {}
        self.log = []
        self.step_flags = []  # (manager object id, flags) recorded by the probes

    def reg(self, m) -> int:
        i = self.index.get(id(m))
        if i is None:
            i = len(self.models)
            self.models.append(m)
            self.index[id(m)] = i
        return i


def _tiny_model():
    import onnx_ir as ir

    return ir.Model(ir.Graph([], [], nodes=[], name="g"), ir_version=10)


def build_real(spec: dict, env: _Env):
    import onnx_ir as ir

    P = ir.passes

    if spec["k"] == "leaf":

        class Scripted(P.PassBase):
            def __init__(self):
                self.k = 0

            @property
            def in_place(self):
                return spec["ip"]

            @property
            def changes_input(self):
                return True

            def _beh(self, k):
                bs = spec["beh"]
                return bs[k % len(bs)] if bs else _DEFAULT_BEH

            def requires(self, model):
                env.log.append([0, spec["id"], env.reg(model)])
                b = self._beh(self.k)
                if b["req"] == 1:
                    raise P.PreconditionError("scripted")
                if b["req"] == 2:
                    raise ValueError("scripted")

            def call(self, model):
                env.log.append([1, spec["id"], env.reg(model)])
                b = self._beh(self.k)
                self.k += 1
                if b["ret"] == 0:
                    return P.PassResult(model, b["mod"])
                if b["ret"] == 1:
                    m = _tiny_model()
                    env.reg(m)
                    return P.PassResult(m, b["mod"])
                if b["ret"] == 2:
                    return P.PassResult(env.models[0], b["mod"])
                if b["ret"] == 3:
                    return model  # not a PassResult
                raise RuntimeError("scripted")

            def ensures(self, model):
                env.log.append([2, spec["id"], env.reg(model)])
                b = self._beh(self.k - 1)
                if b["ens"] == 1:
                    raise P.PostconditionError("scripted")
                if b["ens"] == 2:
                    raise KeyError("scripted")

        return Scripted()
    if spec["k"] == "func":
        return P.functionalize(build_real(spec["p"], env))
    ps = [build_real(p, env) for p in spec["ps"]]
    if spec["k"] == "seq":
        return P.Sequential(*ps)
    return P.PassManager(ps, steps=spec["steps"], early_stop=spec["es"])


@contextlib.contextmanager
def _patched_clone(env: _Env):
    import onnx_ir as ir

    orig = ir.Model.clone

    def clone(self, *a, **kw):
        env.log.append([3, 0, env.reg(self)])
        m = orig(self, *a, **kw)
        env.reg(m)
        return m

    ir.Model.clone = clone
    try:
        yield
    finally:
        ir.Model.clone = orig


def _exc_name(e: BaseException) -> str:
    n = type(e).__name__
    return n if n in ("PreconditionError", "PostconditionError", "PassError", "TypeError") else "other"


def P_result(model):
    import onnx_ir as ir

    return ir.passes.PassResult(model, True)


def run_infra_real(spec: dict) -> dict:
    env = _Env()
    try:
        p = build_real(spec, env)
    except ValueError:
        return {"ctor": False}
    m0 = _tiny_model()
    env.reg(m0)
    with _patched_clone(env):
        try:
            # a PassResult is accepted in place of the model (its flag is ignored)
            arg = m0 if len(json.dumps(spec)) % 2 else P_result(m0)
            r = p(arg)
            res = ["ok", env.reg(r.model), bool(r.modified)]
        except Exception as e:  # noqa: BLE001
            res = ["raised", _exc_name(e)]
    return {"ctor": True, "res": res, "log": env.log, "inplace": bool(p.in_place)}


def infra_oracle(part: Part, spec: dict, obs: dict) -> None:
    """The identity rule itself, on the real result."""
    if not obs.get("ctor") or obs["res"][0] != "ok":
        return
    same = obs["res"][1] == 0
    if obs["inplace"] and not same:
        part.fail("infra/identity/in-place-returned-other", "in-place pass expression returned another object", spec)
    if not obs["inplace"] and same:
        part.fail("infra/identity/functional-returned-input", "not-in-place pass expression returned its input", spec)


# =========================================================================== B. call_onnx_api

# (dtype, shape): sizes around _BIG_TENSOR_SIZE_LIMIT = 1000 bytes are hit exactly with uint8 tensors
_KINDS = {
    "small": ("f32", (1, 64)),  # 256 bytes
    "tiny": ("f32", (1, 1)),  # 4 bytes
    "big": ("f32", (4, 64)),  # 1024 bytes
    "f996": ("f32", (249,)),
    "f1000": ("f32", (250,)),
    "f1004": ("f32", (251,)),
    "u999": ("u8", (999,)),
    "u1000": ("u8", (1000,)),  # == limit: NOT stripped (the test is `>`)
    "u1001": ("u8", (1001,)),  # limit + 1: stripped
    "u0": ("u8", (0,)),
}
_SHAPES = {k: v[1] for k, v in _KINDS.items()}  # (the model generator of part C uses small/tiny/big)


def gen_call(rng: random.Random, n: int) -> dict:
    """One call: where it fails.  `prim` = the k-th primitive effect of the strip loop raises, before or
    after taking effect (k may lie beyond the last effect: then nothing is injected)."""
    kind = rng.choice(["none", "none", "func", "ser", "prim", "prim", "prim", "attr_shape", "attr_dtype", "deser"])
    c = {"fault": kind}
    if kind == "prim":
        c["k"] = rng.randrange(0, 4 * n + 2)
        c["after"] = rng.random() < 0.4
    return c


def gen_capi_case(rng: random.Random) -> dict:
    n = rng.choice([0, 1, 1, 2, 2, 3, 3, 4, 5])
    inits = []
    for i in range(n):
        kind = rng.choice(
            ["small", "small", "big", "big", "tiny", "none", "lazy_small", "lazy_big", "lazybad_small", "lazybad_big",
             "f996", "f1000", "f1004", "u999", "u1000", "u1001", "u0"]
        )
        inits.append(
            {
                "name": f"w{i}",
                "kind": kind,
                "has_shape": rng.random() < 0.4,
                "has_type": rng.random() < 0.4,
                "is_input": rng.random() < 0.25,
                "tname": rng.choice(["same", "same", "other", "none"]),  # tensor.name vs value.name
            }
        )
    rng.shuffle(inits)
    calls = [gen_call(rng, n) for _ in range(rng.choice([1, 1, 1, 2, 3]))]
    return {
        "inits": inits,
        "calls": calls,
        "target": rng.randrange(n) if n else 0,
        "mode": rng.choice(["call", "call", "checker", "shape"]),
        "n_inputs": rng.choice([1, 2]),
    }


class _Armed:
    on = False


def _faulty_tensor_class():
    import onnx_ir as ir

    class FaultyTensor(ir.Tensor):
        """A tensor whose `shape` / `dtype` attribute raises while the fault is armed."""

        _fault_attr = "shape"

        @property
        def shape(self):
            if _Armed.on and self._fault_attr == "shape":
                raise RuntimeError("injected: tensor.shape")
            return super().shape

        @property
        def dtype(self):
            if _Armed.on and self._fault_attr == "dtype":
                raise RuntimeError("injected: tensor.dtype")
            return super().dtype

    return FaultyTensor


def build_capi_model(case: dict):
    import onnx_ir as ir

    FT = _faulty_tensor_class()
    F = ir.DataType.FLOAT
    attr_fault = next((c["fault"] for c in case["calls"] if c["fault"] in ("attr_shape", "attr_dtype")), None)
    xs = [
        ir.Value(name=f"x{i}", shape=ir.Shape([4, 64]), type=ir.TensorType(F)) for i in range(case["n_inputs"])
    ]
    vals, inputs = [], list(xs)
    for k, spec in enumerate(case["inits"]):
        kind = spec["kind"]
        base = kind.split("_")[-1] if "_" in kind else kind
        dt, shape = _KINDS.get(base, ("f32", (1, 64)))
        npdt = np.float32 if dt == "f32" else np.uint8
        irdt = F if dt == "f32" else ir.DataType.UINT8
        arr = np.full(shape, k + 1, dtype=npdt)
        name = spec["name"]
        tname = {"same": name, "other": "t_" + name, "none": None}[spec.get("tname", "same")]
        if kind == "none":
            t = None
        elif kind.startswith("lazybad"):

            def boom():
                raise RuntimeError("injected: lazy tensor")

            t = ir.LazyTensor(boom, dtype=irdt, shape=ir.Shape(list(shape)), name=tname)
        elif kind.startswith("lazy"):
            t = ir.LazyTensor(lambda arr=arr, tname=tname: ir.Tensor(arr, name=tname), dtype=irdt, shape=ir.Shape(list(shape)), name=tname)
        else:
            if attr_fault and k == case["target"]:
                t = FT(arr, name=tname)
                t._fault_attr = attr_fault.split("_")[1]
            else:
                t = ir.Tensor(arr, name=tname)
        v = ir.Value(name=name, const_value=t)
        if spec["has_shape"] or t is None:
            v.shape = ir.Shape(list(shape))
        if spec["has_type"] or t is None:
            v.type = ir.TensorType(irdt)
        vals.append(v)
        if spec["is_input"]:
            inputs.append(v)
    cur = xs[0]
    nodes = []
    for j, v in enumerate(vals + xs[1:]):
        n = ir.node("Add", [cur, v], name=f"n{j}")
        n.outputs[0].name = f"y{j}"
        nodes.append(n)
        cur = n.outputs[0]
    if not nodes:
        n = ir.node("Relu", [cur], name="n0")
        n.outputs[0].name = "y0"
        nodes.append(n)
        cur = n.outputs[0]
    cur.shape = ir.Shape([4, 64])
    cur.type = ir.TensorType(F)
    g = ir.Graph(inputs, [cur], nodes=nodes, initializers=vals, opset_imports={"": 20}, name="g")
    return ir.Model(g, ir_version=10), vals, xs


class _Tokens:
    def __init__(self):
        self.d = {}

    def tok(self, key):
        if key is None:
            return None
        return self.d.setdefault(key, len(self.d) + 1)


def _world_snapshot(graph, universe, tens, shp, typ) -> dict:
    """Canonical view of what call_onnx_api may touch (identities -> indices)."""
    uidx = {id(v): i for i, v in enumerate(universe)}

    def tid(t):
        if t is None:
            return None
        for i, x in enumerate(tens):
            if x is t:
                return i
        tens.append(t)
        return len(tens) - 1

    vals = []
    for v in universe:
        vals.append(
            {
                "name": v.name,
                "const": tid(v.const_value),
                "shape": shp.tok(None if v.shape is None else str(v.shape)),
                "type": typ.tok(None if v.type is None else str(v.dtype)),
            }
        )
    return {
        "vals": vals,
        "inits": [[k, uidx.get(id(v), -1)] for k, v in graph.initializers.items()],
        "inputs": [uidx.get(id(v), -1) for v in graph.inputs],
        "tnames": [t.name or "" for t in tens],  # tensor.name: the one thing serialization writes
    }


def _ownership_snapshot(graph, universe):
    return [
        (v.is_graph_input(), v.is_initializer(), v.is_graph_output(), v.graph is graph, len(v.uses()))
        for v in universe
    ] + [(id(v.shape), id(v.type), id(v.const_value)) for v in universe]


@contextlib.contextmanager
def _prim_fault(k, after):
    """Make the k-th primitive effect of the strip loop of call_onnx_api raise (before or after taking
    effect) by wrapping the five operations it is made of; disarmed when serialization starts or the fault
    has fired, so the `finally` block runs undisturbed."""
    import onnx_ir as ir
    from onnx_ir import _graph_containers as gc

    st = {"n": 0, "armed": k is not None}

    def hit(do):
        if not st["armed"]:
            return do()
        me = st["n"]
        st["n"] += 1
        if me == k:
            st["armed"] = False
            if after:
                do()
            raise RuntimeError(f"injected: strip step {k} ({'after' if after else 'before'} its effect)")
        return do()

    V = ir.Value
    p_shape, p_dtype, p_const = V.shape, V.dtype, V.const_value
    o_append, had_pop = gc.GraphInputs.append, "pop" in gc.GraphInitializers.__dict__
    o_pop = gc.GraphInitializers.pop

    V.shape = property(p_shape.fget, lambda self, x: hit(lambda: p_shape.fset(self, x)))
    V.dtype = property(p_dtype.fget, lambda self, x: hit(lambda: p_dtype.fset(self, x)))
    V.const_value = property(
        p_const.fget, lambda self, x: hit(lambda: p_const.fset(self, x)) if x is None else p_const.fset(self, x)
    )
    gc.GraphInputs.append = lambda self, item: hit(lambda: o_append(self, item))
    gc.GraphInitializers.pop = lambda self, *a: hit(lambda: o_pop(self, *a))

    def disarm():
        st["armed"] = False

    try:
        yield disarm
    finally:
        V.shape, V.dtype, V.const_value = p_shape, p_dtype, p_const
        gc.GraphInputs.append = o_append
        if had_pop:
            gc.GraphInitializers.pop = o_pop
        else:
            del gc.GraphInitializers.pop


def run_capi_real(case: dict) -> tuple[dict, dict, list]:
    """Returns (lean request, implementation observation, oracle failures)."""
    import onnx
    import onnx_ir as ir
    from onnx_ir.passes.common import _c_api_utils, onnx_checker, shape_inference

    if "calls" not in case:  # recorded cases of the first format: a single call
        case = {**case, "calls": [{"fault": case.get("fault", "none")}]}
    model, vals, xs = build_capi_model(case)
    g = model.graph
    universe = list(ir.convenience.create_value_mapping(g).values())
    for v in list(xs) + list(vals):
        if all(v is not u for u in universe):
            universe.append(v)
    tens, shp, typ = [], _Tokens(), _Tokens()
    before = _world_snapshot(g, universe, tens, shp, typ)
    own_before = _ownership_snapshot(g, universe)
    tensors_before = list(tens)
    req_vals = []
    for v, b in zip(universe, before["vals"]):
        t = v.const_value
        c = None
        if t is not None:
            kind = next((s["kind"] for s in case["inits"] if s["name"] == v.name), "")
            c = {
                "id": b["const"],
                "nbytes": int(t.nbytes),
                "shape": shp.tok(str(t.shape)),
                "dtype": typ.tok(str(t.dtype)),
                "bad": kind.startswith("lazybad"),
            }
        req_vals.append({"name": b["name"], "const": c, "shape": b["shape"], "type": b["type"]})
    merge_ids = [i for i, v in enumerate(universe) if v.name and ir.convenience.create_value_mapping(g).get(v.name) is v]
    req = {
        "m": "passinfra.capi",
        "mode": case["mode"],
        "vals": req_vals,
        "inits": [{"k": k, "v": i} for k, i in before["inits"]],
        "inputs": before["inputs"],
        "tnames": before["tnames"],
        "seq": [],
    }
    orig_ser = ir.serde.serialize_model
    orig_deser = ir.serde.deserialize_model
    orig_check = onnx.checker.check_model
    orig_infer = onnx.shape_inference.infer_shapes
    trace, fails, protos = [], [], []
    cur_before, own_cur = before, own_before
    for ci, call in enumerate(case["calls"]):
        fault = call["fault"]
        if fault == "deser" and case["mode"] != "shape":
            fault = "none"
        lc = {"fault": None, "ser_fail": fault == "ser", "func_ok": fault != "func", "fault_on": None,
              "deser_ok": fault != "deser", "inferred": [], "merge_ids": merge_ids}
        if fault == "prim":
            lc["fault"] = [call["k"], call["after"]]
        if fault in ("attr_shape", "attr_dtype") and case["inits"]:
            tname = case["inits"][case["target"]]["name"]
            tv = next(v for v in vals if v.name == tname)
            if type(tv.const_value).__name__ == "FaultyTensor":
                lc["fault_on"] = ["setShape" if fault == "attr_shape" else "setDtype", universe.index(tv)]
        seen = {}

        def func(proto, real=None):
            gi = proto.graph
            seen["proto"] = {
                "inits": [t.name for t in gi.initializer],
                "inputs": [
                    [
                        i.name,
                        shp.tok(
                            "[" + ",".join(str(d.dim_value) for d in i.type.tensor_type.shape.dim) + "]"
                            if i.type.tensor_type.HasField("shape")
                            else None
                        ),
                        typ.tok(str(ir.DataType(i.type.tensor_type.elem_type)) if i.type.HasField("tensor_type") and i.type.tensor_type.elem_type else None),
                    ]
                    for i in gi.input
                ],
            }
            if fault == "func":
                raise RuntimeError("injected: onnx call")
            if real is not None:
                try:
                    res = real(proto)
                except Exception:  # noqa: BLE001 - a natural failure of the ONNX call: the model says func_ok
                    lc["func_ok"] = False
                    raise
                seen["inferred"] = res
                return res
            return proto

        out = None
        with _prim_fault(call.get("k") if fault == "prim" else None, call.get("after", False)) as disarm:

            def ser(m, *a, **kw):
                disarm()
                if fault == "ser":
                    raise RuntimeError("injected: serialize_model")
                return orig_ser(m, *a, **kw)

            def deser(p, *a, **kw):
                if fault == "deser":
                    raise RuntimeError("injected: deserialize_model")
                return orig_deser(p, *a, **kw)

            _Armed.on = fault in ("attr_shape", "attr_dtype")
            ir.serde.serialize_model = ser
            ir.serde.deserialize_model = deser
            try:
                if case["mode"] == "call":
                    try:
                        _c_api_utils.call_onnx_api(func, model)
                        out = ["ok"]
                    except Exception:  # noqa: BLE001
                        out = ["raised"]
                else:
                    onnx.checker.check_model = lambda proto, *a, **kw: func(proto) and None
                    onnx.shape_inference.infer_shapes = lambda proto, *a, **kw: func(
                        proto, lambda p: orig_infer(p, *a, **kw)
                    )
                    p = onnx_checker.CheckerPass() if case["mode"] == "checker" else shape_inference.ShapeInferencePass()
                    try:
                        r = p(model)
                        out = ["ok", bool(r.modified)]
                    except Exception:  # noqa: BLE001
                        out = ["raised"]
            finally:
                _Armed.on = False
                ir.serde.serialize_model = orig_ser
                ir.serde.deserialize_model = orig_deser
                onnx.checker.check_model = orig_check
                onnx.shape_inference.infer_shapes = orig_infer
        if case["mode"] == "shape" and seen.get("inferred") is not None and fault != "deser":
            try:
                inf_model = orig_deser(seen["inferred"])
                lc["inferred"] = [
                    {"n": n, "s": shp.tok(None if v.shape is None else str(v.shape)), "d": typ.tok(None if v.type is None else str(v.dtype))}
                    for n, v in ir.convenience.create_value_mapping(inf_model.graph).items()
                ]
            except Exception:  # noqa: BLE001
                lc["deser_ok"] = False
        after = _world_snapshot(g, universe, tens, shp, typ)
        own_after = _ownership_snapshot(g, universe)
        trace.append({"out": out, "world": after})
        protos.append(seen.get("proto"))
        req["seq"].append(lc)
        # ---- oracle: the property itself, after every call of the sequence.  A successful shape
        # inference merges inferred shapes (flag honesty: bytes, below); everything else leaves the model
        # unchanged - except tensor.name, which serialization aligns with the value name (documented).
        sig = f"call_onnx_api/{case['mode']}/{fault}" + ("" if ci == 0 else "/later-call-of-a-sequence")
        merged = case["mode"] == "shape" and out == ["ok", True]
        if after["inits"] != cur_before["inits"]:
            fails.append((sig + "/initializer-keys-or-order", "initializer mapping differs after the call"))
        if after["inputs"] != cur_before["inputs"]:
            fails.append((sig + "/graph-inputs", "graph inputs differ after the call"))
        if not merged and after["vals"] != cur_before["vals"]:
            fails.append((sig + "/value-const-shape-type", "tensor/shape/type of a value differs after the call"))
        if merged and [(v["name"], v["const"]) for v in after["vals"]] != [(v["name"], v["const"]) for v in cur_before["vals"]]:
            fails.append((sig + "/value-const", "tensor of a value differs after a successful shape inference"))
        if case["mode"] == "shape" and out == ["ok", False] and after["vals"] != cur_before["vals"]:
            fails.append((sig + "/modified-false-but-changed", "ShapeInference reports False but a shape/type was written"))
        if len(tens) != len(tensors_before):
            fails.append((sig + "/new-tensor-object", "a value carries a tensor object that did not exist before"))
        init_names = {}
        for k, i in before["inits"]:
            c = before["vals"][i]["const"]
            if c is not None:
                init_names.setdefault(c, set()).add(k)
        for ti, (tb, ta) in enumerate(zip(cur_before["tnames"], after["tnames"])):
            if ta != tb and ta not in init_names.get(ti, ()):
                fails.append((sig + "/tensor-name", f"tensor.name changed from {tb!r} to {ta!r}, which is not the name of an initializer value holding it"))
        if not merged and own_after != own_cur and not fails:
            fails.append((sig + "/ownership-or-object-identity", "ownership flags, uses or field object identities differ"))
        cur_before, own_cur = after, own_after
    obs = {"trace": trace, "proto": protos[-1], "out": trace[-1]["out"]}
    return req, obs, fails


# =========================================================================== C. generated models and passes

_UNARY = ["Relu", "Neg", "Abs", "Identity", "Identity", "Sigmoid"]
_BINARY = ["Add", "Mul", "Sub"]


class ModelGen:
    """Structured generator of mostly checker-valid models (see module docstring)."""

    def __init__(self, seed, *, messy_names=False, unsorted=False, sub_unsorted=False, shared_fn_names=False, cyclic=False):
        import onnx_ir as ir

        self.ir = ir
        self.seed = seed
        self.rng = random.Random(seed)
        self.n = 0
        self.messy = messy_names
        self.unsorted = unsorted
        self.sub_unsorted = sub_unsorted  # only nested subgraphs are out of order
        self.shared_fn_names = shared_fn_names
        self.cyclic = cyclic
        self.fn_pool = []
        self.F = ir.DataType.FLOAT
        self.functions = []

    def name(self, p="v"):
        self.n += 1
        return f"{p}{self.n}"

    def val(self, name=None, shape=(4, 64), dtype=None):
        ir = self.ir
        return ir.Value(
            name=name or self.name(), shape=ir.Shape(list(shape)), type=ir.TensorType(dtype or self.F)
        )

    def meta(self, obj, p=0.25):
        r = self.rng
        if r.random() < p:
            obj.metadata_props[f"k{r.randrange(3)}"] = f"m{r.randrange(5)}"
        if r.random() < p * 0.7:
            obj.doc_string = f"doc{r.randrange(5)}"

    def initializer(self, pool):
        ir, r = self.ir, self.rng
        kind = r.choice(["small", "small", "tiny", "big", "big"])
        shape = _SHAPES[kind]
        if pool and r.random() < 0.35:
            arr = r.choice(pool)  # duplicate content
        else:
            arr = np.full(shape, float(r.randrange(4)), dtype=np.float32)
            if r.random() < 0.3:
                arr = arr + np.arange(arr.size, dtype=np.float32).reshape(arr.shape)
            pool.append(arr)
        name = self.name("w")
        # tensor.name need not be the value name (a side stream of randomness: model seeds stay stable)
        tn = random.Random(f"tn:{self.seed}:{name}").choice([name, name, name, "t_" + name, None])
        if r.random() < 0.2:
            t = ir.LazyTensor(
                lambda arr=arr, tn=tn: ir.Tensor(arr, name=tn), dtype=self.F, shape=ir.Shape(list(arr.shape)), name=tn
            )
        else:
            t = ir.Tensor(arr, name=tn)
        v = ir.Value(name=name, const_value=t)
        if r.random() < 0.5:
            v.shape = ir.Shape(list(arr.shape))
            v.type = ir.TensorType(self.F)
            self.meta(v, 0.1)  # only typed values: a value_info entry needs a type
        return v

    def optional_output_node(self, avail, nodes):
        """LayerNormalization (Y, Mean?, InvStdDev?) or LSTM (Y?, Y_h?, Y_c?) from the standard domain, so
        that the schema lookup of RemoveUnusedNodesPass finds the optional outputs.  Each optional output
        is independently: used by a following node / unused / unused and already blank."""
        ir, r = self.ir, self.rng
        F = ir.TensorType(self.F)

        def const(shape, fill):
            c = ir.node("Constant", [], {"value": ir.tensor(np.full(shape, fill, dtype=np.float32))}, name=self.name("n"))
            c.outputs[0].name = self.name()
            c.outputs[0].shape = ir.Shape(list(shape))
            c.outputs[0].type = F
            nodes.append(c)
            return c.outputs[0]

        side = random.Random(f"bn:{self.seed}:{self.n}")
        if r.random() < 0.6:
            x = r.choice(avail)
            if side.random() < 0.35:
                # BatchNormalization in training mode: running_mean / running_var are the optional outputs,
                # and the pass drops the training_mode attribute together with them
                node = ir.node(
                    "BatchNormalization",
                    [x, const((64,), 1.0), const((64,), 0.0), const((64,), 0.0), const((64,), 1.0)],
                    {"training_mode": 1},
                    num_outputs=3,
                    name=self.name("n"),
                )
                shapes = [[4, 64], [64], [64]]
            else:
                node = ir.node("LayerNormalization", [x, const((64,), 1.0), const((64,), 0.0)], {"axis": -1}, num_outputs=3, name=self.name("n"))
                shapes = [[4, 64], [4, 1], [4, 1]]
            first_optional = 1
        else:
            # X: [seq=4, batch=1, input=64] would need a reshape; use dedicated constants instead
            x3 = const((2, 1, 3), 0.5)
            node = ir.node(
                "LSTM", [x3, const((1, 8, 3), 0.1), const((1, 8, 2), 0.1)], {"hidden_size": 2}, num_outputs=3, name=self.name("n")
            )
            shapes = [[2, 1, 1, 2], [1, 1, 2], [1, 1, 2]]
            first_optional = 0
        for o, shp in zip(node.outputs, shapes):
            o.name = self.name()
            o.shape = ir.Shape(shp)
            o.type = F
        self.meta(node)
        nodes.append(node)
        followers = []
        bn_mode = None
        for i in range(first_optional, 3):
            mode = r.choice(["used", "used", "unused", "unused", "blank"])
            if node.op_type == "BatchNormalization":
                # 1 or 3 outputs are the only valid counts: both optional outputs share their fate
                bn_mode = bn_mode or mode
                mode = bn_mode
            o = node.outputs[i]
            if mode == "blank":
                o.name = ""
            elif mode == "used":
                f = ir.node("Relu", [o], name=self.name("n"))
                f.outputs[0].name = self.name()
                f.outputs[0].shape = ir.Shape(shapes[i])
                f.outputs[0].type = F
                followers.append(f)
        nodes.extend(followers)
        # the value handed back to the generator is a [4,64]-compatible one
        if first_optional == 1:
            return [node.outputs[0]] + [f.outputs[0] for f in followers]
        keep = ir.node("Relu", [r.choice(avail)], name=self.name("n"))
        keep.outputs[0].name = self.name()
        self.out_shape(keep)
        nodes.append(keep)
        # make the followers live: they are unused otherwise, which is fine (dead code), but some must survive
        self.extra_outputs = getattr(self, "extra_outputs", []) + [f.outputs[0] for f in followers]
        return [keep.outputs[0]]

    def out_shape(self, node):
        for o in node.outputs:
            o.shape = self.ir.Shape([4, 64])
            o.type = self.ir.TensorType(self.F)

    def graph(self, outer, cond, depth, is_main, fn_inputs=None):
        ir, r = self.ir, self.rng
        inputs, inits, pool = [], [], []
        if is_main:
            inputs = [self.val(self.name("x")) for _ in range(r.randint(1, 3))]
        elif fn_inputs is not None:
            inputs = fn_inputs
        avail = list(outer) + list(inputs)
        if fn_inputs is None:
            for _ in range(r.choice([0, 1, 2, 3] if is_main else [0, 0, 1, 2])):
                w = self.initializer(pool)
                inits.append(w)
                avail.append(w)
            if is_main:
                for w in inits:
                    if r.random() < 0.12 and w.type is not None:
                        inputs.append(w)
        if not avail:
            w = self.initializer(pool)
            inits.append(w)
            avail.append(w)
        nodes, produced, history = [], [], []
        for _ in range(r.randint(1, 6 if is_main else 3)):
            k = r.random()
            if history and k < 0.15:
                op, ins = r.choice(history)  # common subexpression
                node = ir.node(op, list(ins), name=self.name("n"))
            elif k < 0.40:
                op = r.choice(_UNARY)
                ins = [r.choice(avail)]
                node = ir.node(op, ins, name=self.name("n"))
                history.append((op, ins))
            elif k < 0.65:
                op = r.choice(_BINARY)
                ins = [r.choice(avail), r.choice(avail)]
                node = ir.node(op, ins, name=self.name("n"))
                history.append((op, ins))
            elif k < 0.70:
                node = ir.node("Clip", [r.choice(avail), None, None][: r.choice([1, 2, 3])], name=self.name("n"))
            elif k < 0.745:
                # optional outputs in every used/unused pattern, in particular an UNUSED optional output
                # FOLLOWED by a USED one (it can be blanked but not truncated)
                outs = self.optional_output_node(avail, nodes)
                produced.append(outs[0])
                avail.append(outs[0])
                continue
            elif k < 0.78:
                node = ir.node("Dropout", [r.choice(avail)], num_outputs=2, name=self.name("n"))
                node.outputs[1].name = self.name("mask")
                node.outputs[1].shape = ir.Shape([4, 64])
                node.outputs[1].type = ir.TensorType(ir.DataType.BOOL)
                node.outputs[0].name = self.name()
                node.outputs[0].shape = ir.Shape([4, 64])
                node.outputs[0].type = ir.TensorType(self.F)
                self.meta(node)
                nodes.append(node)
                produced.append(node.outputs[0])
                avail.append(node.outputs[0])
                continue
            elif k < 0.88:
                which = r.choice(["value_small", "value_small", "value_large", "value_float", "value_dup"])
                if which == "value_float":
                    node = ir.node("Constant", [], {"value_float": float(r.randrange(3))}, name=self.name("n"))
                else:
                    shape = (1, 64) if which == "value_large" else (1, 2)
                    arr = np.full(shape, float(r.randrange(2)), dtype=np.float32)
                    node = ir.node("Constant", [], {"value": ir.tensor(arr)}, name=self.name("n"))
            elif k < (0.99 if self.sub_unsorted else 0.95) and depth < 2 and cond is not None:
                subs = []
                for _b in range(2):
                    subs.append(self.graph(avail, cond, depth + 1, False))
                if random.Random(f"loop:{self.seed}:{self.n}").random() < 0.3:
                    # a Loop whose body (inputs: iteration number, condition, carried value) captures an outer
                    # value and nests the first generated subgraph's work behind it
                    it = ir.Value(name=self.name("it"), shape=ir.Shape([]), type=ir.TensorType(ir.DataType.INT64))
                    cin = ir.Value(name=self.name("ci"), shape=ir.Shape([]), type=ir.TensorType(ir.DataType.BOOL))
                    xin = self.val(self.name("lx"))
                    cid = ir.node("Identity", [cin], name=self.name("n"))
                    cid.outputs[0].name = self.name("co")
                    cid.outputs[0].shape = ir.Shape([])
                    cid.outputs[0].type = ir.TensorType(ir.DataType.BOOL)
                    step = ir.node(r.choice(_BINARY), [xin, r.choice(avail)], name=self.name("n"))
                    step.outputs[0].name = self.name()
                    self.out_shape(step)
                    dead = ir.node("Neg", [xin], name=self.name("n"))  # dead code inside the body
                    dead.outputs[0].name = self.name()
                    self.out_shape(dead)
                    body = ir.Graph([it, cin, xin], [cid.outputs[0], step.outputs[0]], nodes=[cid, dead, step], name=self.name("g"))
                    self.meta(body, 0.3)
                    trip = ir.node("Constant", [], {"value_int": 2}, name=self.name("n"))
                    trip.outputs[0].name = self.name()
                    trip.outputs[0].shape = ir.Shape([])
                    trip.outputs[0].type = ir.TensorType(ir.DataType.INT64)
                    nodes.append(trip)
                    node = ir.node("Loop", [trip.outputs[0], cond, r.choice(avail)], {"body": body}, name=self.name("n"))
                else:
                    node = ir.node("If", [cond], {"then_branch": subs[0], "else_branch": subs[1]}, name=self.name("n"))
            elif self.functions:
                f = r.choice(self.functions) if not self.shared_fn_names else self.functions[-1]
                ins = [r.choice(avail) for _ in f.inputs]
                node = ir.node(f.name, ins, domain=f.domain, name=self.name("n"))
                history.append((f.name, ins)) if False else None
            else:
                node = ir.node("Relu", [r.choice(avail)], name=self.name("n"))
            node.outputs[0].name = self.name()
            self.out_shape(node)
            self.meta(node)
            self.meta(node.outputs[0], 0.08)
            if self.messy and r.random() < 0.25:
                node.outputs[0].name = r.choice([None, "dup", "dup"])
            if self.messy and r.random() < 0.2:
                node.name = r.choice([None, "ndup"])
            nodes.append(node)
            produced.append(node.outputs[0])
            avail.append(node.outputs[0])
        n_out = 1 if not is_main else r.randint(1, 2)
        outputs = [r.choice(produced) for _ in range(n_out)]
        if is_main:
            live = [n.outputs[0] for n in nodes if n.op_type == "Relu" and n.inputs[0] is not None
                    and n.inputs[0].producer() is not None and n.inputs[0].producer().op_type in ("LayerNormalization", "LSTM")]
            for v in live:
                if r.random() < 0.8 and all(v is not o for o in outputs):
                    outputs.append(v)
        if is_main and r.random() < 0.15:
            outputs.append(r.choice(inputs))  # a graph input used directly as output
        if is_main and r.random() < 0.1:
            outputs.append(outputs[0])  # the same value twice
        if self.unsorted and len(nodes) > 1 and r.random() < 0.7:
            r.shuffle(nodes)
        if self.sub_unsorted and depth > 0 and fn_inputs is None and len(nodes) > 1:
            nodes.reverse()
        g = ir.Graph(
            inputs,
            outputs,
            nodes=nodes,
            initializers=inits,
            opset_imports={"": 20, "custom": 1, **({"unused.domain": 1} if r.random() < 0.3 else {})} if is_main or fn_inputs is not None else None,
            name=self.name("g"),
        )
        self.meta(g, 0.3)
        return g

    def function(self):
        ir, r = self.ir, self.rng
        ins = [self.val(self.name("fi")) for _ in range(r.randint(1, 2))]
        g = self.graph([], None, 1, False, fn_inputs=ins)
        fname = self.fn_pool.pop() if self.fn_pool else self.name("F")
        f = ir.Function("custom", fname, graph=g, attributes=[])
        return f

    def model(self):
        ir, r = self.ir, self.rng
        nfun = r.choice([0, 0, 1, 2])
        if self.shared_fn_names:
            # identifiers shared between models (a long-lived pass object sees the same names again, with a
            # different callee structure); the pool order is random, so "Fa" may call "Fc" here and not there
            nfun = r.choice([1, 1, 2, 3])
            self.fn_pool = ["Fa", "Fb", "Fc"]
            r.shuffle(self.fn_pool)
        if self.cyclic:
            nfun = 2
        for _ in range(nfun):
            self.functions.append(self.function())
        if self.cyclic:
            # Fa calls Fb (generated) ... and Fb calls Fa: InlinePass.requires must reject the model
            f0, f1 = self.functions
            back = ir.node(f1.name, [f0.inputs[0] for _ in f1.inputs], domain=f1.domain, name=self.name("n"))
            back.outputs[0].name = self.name()
            self.out_shape(back)
            f0.append(back)
            if not any(n.op_type == f0.name for n in f1):
                fwd = ir.node(f0.name, [f1.inputs[0] for _ in f0.inputs], domain=f0.domain, name=self.name("n"))
                fwd.outputs[0].name = self.name()
                self.out_shape(fwd)
                f1.append(fwd)
        cond = ir.Value(name="cond", shape=ir.Shape([]), type=ir.TensorType(ir.DataType.BOOL))
        g = self.graph([], cond, 0, True)
        g.inputs.append(cond)
        m = ir.Model(g, ir_version=10, functions=self.functions)
        if r.random() < 0.2:
            m.metadata_props["model_k"] = "v"
        return m


FLAVOURS = ["plain", "plain", "unsorted", "messy", "subunsorted", "plain", "cyclic", "plain"]


def build_model(seed, flavour="plain"):
    return ModelGen(
        seed,
        messy_names=flavour == "messy",
        unsorted=flavour == "unsorted",
        sub_unsorted=flavour == "subunsorted",
        shared_fn_names=flavour == "reuse",
        cyclic=flavour == "cyclic",
    ).model()


def pass_table():
    import onnx_ir as ir
    import onnx_ir.passes.common as cp

    P = ir.passes
    return [
        ("Checker", lambda: cp.CheckerPass()),
        ("ShapeInference", lambda: cp.ShapeInferencePass()),
        ("NameFix", lambda: cp.NameFixPass()),
        ("TopologicalSort", lambda: cp.TopologicalSortPass()),
        ("ClearMetadataAndDocString", lambda: cp.ClearMetadataAndDocStringPass()),
        ("LiftConstantsToInitializers", lambda: cp.LiftConstantsToInitializersPass()),
        ("LiftConstantsToInitializers(all,0)", lambda: cp.LiftConstantsToInitializersPass(lift_all_constants=True, size_limit=0)),
        ("LiftSubgraphInitializersToMainGraph", lambda: cp.LiftSubgraphInitializersToMainGraphPass()),
        ("RemoveInitializersFromInputs", lambda: cp.RemoveInitializersFromInputsPass()),
        ("AddInitializersToInputs", lambda: cp.AddInitializersToInputsPass()),
        ("RemoveUnusedNodes", lambda: cp.RemoveUnusedNodesPass()),
        ("RemoveUnusedFunctions", lambda: cp.RemoveUnusedFunctionsPass()),
        ("RemoveUnusedOpsets", lambda: cp.RemoveUnusedOpsetsPass()),
        ("DeduplicateInitializers", lambda: cp.DeduplicateInitializersPass()),
        ("DeduplicateHashedInitializers", lambda: cp.DeduplicateHashedInitializersPass()),
        ("IdentityElimination", lambda: cp.IdentityEliminationPass()),
        ("CommonSubexpressionElimination", lambda: cp.CommonSubexpressionEliminationPass()),
        ("Inline", lambda: cp.InlinePass()),
        ("OutputFix", lambda: cp.OutputFixPass()),
        ("AddDefaultAttributes", lambda: cp.AddDefaultAttributesPass()),
        ("ShapeInference(lenient)", lambda: cp.ShapeInferencePass(check_type=False, strict_mode=False, data_prop=False)),
        ("Checker(full)", lambda: cp.CheckerPass(full_check=True)),
        ("RemoveUnusedOpsets(main-only)", lambda: cp.RemoveUnusedOpsetsPass(process_functions=False)),
        ("DeduplicateInitializers(limit=70)", lambda: cp.DeduplicateInitializersPass(size_limit=70)),
        ("CommonSubexpressionElimination(limit=0)", lambda: cp.CommonSubexpressionEliminationPass(size_limit=0)),
        ("LiftConstantsToInitializers(limit=3)", lambda: cp.LiftConstantsToInitializersPass(size_limit=3)),
        ("functionalize(RemoveUnusedNodes)", lambda: P.functionalize(cp.RemoveUnusedNodesPass())),
        ("functionalize(IdentityElimination)", lambda: P.functionalize(cp.IdentityEliminationPass())),
    ]


def dangling_calls(model, known_functions) -> list[str]:
    """Nodes anywhere in the model that call a function which existed before the pass and is gone now."""
    res = []
    for gl, _e, _p in all_graph_likes(model):
        for n in gl:
            ident = n.op_identifier()
            if ident in known_functions and ident not in model.functions:
                res.append(f"node {n.name} calls {ident[0]}::{ident[1]}, which the pass removed")
    return res[:3]


_FP_KEEP: list = []


def _fp_hold(*objs):
    """Objects whose id() is part of a fingerprint are kept alive until the case ends (`_FP_KEEP.clear()` in
    the worker loop): a freed object's address can be reused and would make two different objects look equal."""
    _FP_KEEP.extend(objs)


def ir_fingerprint(model):
    """Everything a pass can change that serialization may hide (None vs "" names and doc strings, object
    identities and order, tensors of non-initializers, meta stores are NOT included: they never serialize)."""
    import onnx_ir as ir

    _FP_KEEP.append(model)  # id() is only an identity while the object lives: see _fp_scope
    fp = [sorted(map(str, model.functions)), dict(model.metadata_props), model.doc_string]
    for gl, _e, _p in all_graph_likes(model):
        ent = [
            type(gl).__name__, gl.name, repr(gl.doc_string), dict(gl.metadata_props), dict(gl.opset_imports or {}),
            [id(v) for v in gl.inputs], [id(v) for v in gl.outputs],
            [(k, id(v)) for k, v in gl.initializers.items()] if hasattr(gl, "initializers") else None,
        ]
        vals = {}
        for v in list(gl.inputs) + list(gl.outputs) + (list(gl.initializers.values()) if hasattr(gl, "initializers") else []):
            vals[id(v)] = v
        _fp_hold(gl, *gl.inputs, *gl.outputs)
        for n in gl:
            _fp_hold(n, *[v for v in n.inputs if v is not None], *n.outputs, *n.attributes.values())
            ent.append(
                (id(n), repr(n.name), n.domain, n.op_type, n.overload, repr(n.doc_string), dict(n.metadata_props),
                 [None if v is None else id(v) for v in n.inputs], [id(v) for v in n.outputs],
                 [(k, a.type, id(a) if not isinstance(a, ir.Attr) or a.type in (ir.AttributeType.GRAPH, ir.AttributeType.GRAPHS, ir.AttributeType.TENSOR) else repr(a.value)) for k, a in n.attributes.items()])
            )
            for v in n.outputs:
                vals[id(v)] = v
        for i, v in vals.items():
            _fp_hold(v, v.const_value)
            ent.append((i, repr(v.name), str(v.shape), str(v.type), id(v.const_value), repr(v.doc_string), dict(v.metadata_props)))
        fp.append(ent)
    return repr(fp)


def ser_bytes(model):
    import onnx_ir as ir

    return ir.serde.serialize_model(model).SerializeToString(deterministic=True)


def all_graph_likes(model):
    """(graph_like, enclosing node or None, parent graph_like or None) for every graph/function/subgraph."""
    import onnx_ir as ir

    res = []

    def walk(gl, encl, parent):
        res.append((gl, encl, parent))
        for node in gl:
            for attr in node.attributes.values():
                if not isinstance(attr, ir.Attr):
                    continue
                if attr.type == ir.AttributeType.GRAPH:
                    walk(attr.as_graph(), node, gl)
                elif attr.type == ir.AttributeType.GRAPHS:
                    for sg in attr.as_graphs():
                        walk(sg, node, gl)

    walk(model.graph, None, None)
    for f in model.functions.values():
        walk(f, None, None)
    return res


def model_size(model) -> int:
    s = len(model.functions) + len(model.metadata_props)
    for gl, _e, _p in all_graph_likes(model):
        s += len(gl.inputs) + len(gl.outputs) + len(gl.opset_imports or {}) + len(gl.metadata_props) + (1 if gl.doc_string else 0)
        if hasattr(gl, "initializers"):
            s += len(gl.initializers)
        for n in gl:
            s += 1 + len(n.inputs) + len(n.outputs) + len(n.attributes) + len(n.metadata_props) + (1 if n.doc_string else 0)
    return s


def check_links(model) -> list[str]:
    """Use-def / ownership consistency over public accessors (independent of the library's own checks)."""
    import onnx_ir as ir

    errs = []
    seen_nodes = {}
    gls = all_graph_likes(model)
    for gl, _e, _p in gls:
        own = gl if isinstance(gl, ir.Graph) else None
        values = []
        for n in gl:
            if id(n) in seen_nodes:
                errs.append(f"node {n.name} listed in two graphs")
            seen_nodes[id(n)] = gl
            ng = n.graph
            if own is not None and ng is not own:
                errs.append(f"node {n.name}.graph is not the graph that lists it")
            if own is None and ng is None:
                errs.append(f"node {n.name} of a function has graph None")
            for i, v in enumerate(n.inputs):
                if v is None:
                    continue
                if (n, i) not in [(u.node, u.idx) for u in v.uses()]:
                    errs.append(f"input {i} of node {n.name} not recorded in uses() of {v.name}")
                values.append(v)
            for i, v in enumerate(n.outputs):
                if v.producer() is not n or v.index() != i:
                    errs.append(f"output {i} of node {n.name}: producer()/index() wrong")
                values.append(v)
        for v in gl.inputs:
            if not v.is_graph_input():
                errs.append(f"graph input {v.name} not flagged is_graph_input")
            if v.producer() is not None:
                errs.append(f"graph input {v.name} has a producer")
            values.append(v)
        for v in gl.outputs:
            if not v.is_graph_output():
                errs.append(f"graph output {v.name} not flagged is_graph_output")
            values.append(v)
        if hasattr(gl, "initializers"):
            for k, v in gl.initializers.items():
                if k != v.name:
                    errs.append(f"initializer key {k!r} != value name {v.name!r}")
                if not v.is_initializer():
                    errs.append(f"initializer {k} not flagged is_initializer")
                if own is not None and v.graph is not own:
                    errs.append(f"initializer {k}.graph is not its graph")
                values.append(v)
        for v in values:
            for u in v.uses():
                if u.idx >= len(u.node.inputs) or u.node.inputs[u.idx] is not v:
                    errs.append(f"stale use of {v.name}: node {u.node.name} input {u.idx} is something else")
                elif u.node.graph is None:
                    errs.append(f"value {v.name} is used by node {u.node.name} which is in no graph")
            if v.is_graph_input() and v.graph is not None and all(v is not x for x in v.graph.inputs):
                errs.append(f"value {v.name} flagged graph input but not in graph.inputs")
            if v.is_graph_output() and v.graph is not None and all(v is not x for x in v.graph.outputs):
                errs.append(f"value {v.name} flagged graph output but not in graph.outputs")
            if v.is_initializer() and v.graph is not None and v.graph.initializers.get(v.name) is not v:
                errs.append(f"value {v.name} flagged initializer but not in graph.initializers")
    return errs[:5]


def is_sorted(model) -> bool:
    """Every producer precedes its consumers; for captured values the producer precedes the
    enclosing node of the subgraph (checked through the chain of enclosing nodes)."""
    gls = all_graph_likes(model)
    pos, encl_of = {}, {}
    for gl, encl, parent in gls:
        encl_of[id(gl)] = (encl, parent)
        for i, n in enumerate(gl):
            pos[id(n)] = (id(gl), i)
    for gl, _encl, _parent in gls:
        for i, n in enumerate(gl):
            for v in n.inputs:
                if v is None or v.producer() is None:
                    continue
                p = v.producer()
                if id(p) not in pos:
                    continue
                pg, pi = pos[id(p)]
                cur_g, cur_i = id(gl), i
                ok = False
                for _ in range(20):
                    if pg == cur_g:
                        ok = pi < cur_i
                        break
                    encl, parent = encl_of.get(cur_g, (None, None))
                    if encl is None or parent is None:
                        break
                    cur_g, cur_i = pos[id(encl)]
                if not ok:
                    return False
    return True


def names_view(model):
    """Names that serialization needs: (all referenced values named?, no two distinct referenced
    values of one graph-like share a name?)."""
    all_named, unique = True, True
    for gl, _e, _p in all_graph_likes(model):
        vals = {}
        for v in list(gl.inputs) + list(gl.outputs):
            vals[id(v)] = v
        if hasattr(gl, "initializers"):
            for v in gl.initializers.values():
                vals[id(v)] = v
        for n in gl:
            for v in n.inputs:
                if v is not None:
                    vals[id(v)] = v
            for v in n.outputs:
                if v.uses() or v.is_graph_output() or v.name:
                    vals[id(v)] = v  # every named output is written to the proto, used or not
        names = {}
        for v in vals.values():
            if not v.name:
                if v.uses() or v.is_graph_output() or v.producer() is None:
                    all_named = False
            elif v.name in names and names[v.name] is not v and v.graph is names[v.name].graph and (
                v.producer() is None or names[v.name].producer() is None or v.producer().graph is names[v.name].producer().graph
            ):
                unique = False
            else:
                names[v.name] = v
    return all_named, unique


# ---- per-pass measures (hypothesis of C14_rounds, checked on the real objects): modified=True must
# strictly decrease them.  Passes without an entry are only held to the size+1 bound.


def _count(model, f):
    return sum(f(gl) for gl, _e, _p in all_graph_likes(model))


def _m_unused_nodes(m):
    return _count(
        m,
        lambda gl: (len(gl.initializers) if hasattr(gl, "initializers") else 0)
        # every rewrite of the pass lowers one of: node count, input slots, output slots (trailing blank
        # outputs are truncated - an IR-only change, serde drops trailing empty names anyway), named
        # outputs (an unused optional output is blanked), attributes (training_mode)
        + sum(1 + len(n.inputs) + len(n.outputs) + sum(1 for o in n.outputs if o.name) + len(n.attributes) for n in gl),
    )


def _m_nodes(m):
    return _count(m, lambda gl: sum(1 for _ in gl))


def _m_inits(m):
    return _count(m, lambda gl: len(gl.initializers) if hasattr(gl, "initializers") else 0)


def _m_output_fix(m):
    return _count(
        m,
        lambda gl: (len(gl.outputs) - len({id(v) for v in gl.outputs})) + sum(1 for v in gl.outputs if v.is_graph_input()),
    )


def _m_clearmeta(m):
    st = clearmeta_state(m)
    return sum(n["meta"] + int(n["doc"]) for n in st["nodes"]) + sum(g["meta"] + int(g["doc"]) for g in st["graphs"])


MEASURES = {
    "RemoveUnusedNodes": _m_unused_nodes,
    "functionalize(RemoveUnusedNodes)": _m_unused_nodes,
    "RemoveUnusedFunctions": lambda m: len(m.functions),
    "RemoveUnusedOpsets": lambda m: len(m.graph.opset_imports) + sum(len(f.opset_imports) for f in m.functions.values()),
    "DeduplicateInitializers": _m_inits,
    "DeduplicateHashedInitializers": _m_inits,
    "IdentityElimination": _m_nodes,
    "functionalize(IdentityElimination)": _m_nodes,
    "LiftConstantsToInitializers": _m_nodes,
    "LiftConstantsToInitializers(all,0)": _m_nodes,
    "LiftSubgraphInitializersToMainGraph": lambda m: _m_inits(m) - len(m.graph.initializers),
    "RemoveInitializersFromInputs": lambda m: len(m.graph.inputs),
    "AddInitializersToInputs": lambda m: sum(
        1 for v in m.graph.initializers.values() if all(v is not x for x in m.graph.inputs)
    ),
    "ClearMetadataAndDocString": _m_clearmeta,
    "OutputFix": _m_output_fix,
    "TopologicalSort": lambda m: 0 if is_sorted(m) else 1,
    "Checker": lambda m: 0,
    "Checker(full)": lambda m: 0,
    "RemoveUnusedOpsets(main-only)": lambda m: len(m.graph.opset_imports),
    "DeduplicateInitializers(limit=70)": _m_inits,
    "LiftConstantsToInitializers(limit=3)": _m_nodes,
}


# ---- concrete flag models: state extraction


def clearmeta_state(model) -> dict:
    import onnx_ir as ir

    graphs, gidx, nodes = [], {}, []

    def gi(g):
        if id(g) not in gidx:
            gidx[id(g)] = len(graphs)
            graphs.append(g)
        return gidx[id(g)]

    for root in [model.graph, *model.functions.values()]:
        for n in ir.traversal.RecursiveGraphIterator(root):
            nodes.append({"g": gi(n.graph), "meta": len(n.metadata_props), "doc": bool(n.doc_string)})
    return {
        "nodes": nodes,
        "graphs": [{"meta": len(g.metadata_props), "doc": bool(g.doc_string)} for g in graphs],
        "_graphs": graphs,
    }


def sort_orders(model):
    gls = []
    for root in (model.graph, *model.functions.values()):
        gls.append(root)
        gls.extend(root.subgraphs())
    return gls


def initinputs_state(model, reg):
    def vid(v):
        return reg.setdefault(id(v), len(reg))

    return [
        {"inputs": [vid(v) for v in g.inputs], "inits": [vid(v) for v in g.initializers.values()]}
        for g in [model.graph]  # both passes only touch the main graph (subgraph inputs are bound by position)
    ]


def ssa_strict(model) -> bool:
    """ONNX's SSA rule as the checker applies it: within the main graph and everything nested in it (and
    within each function) no name is given to two different values, and no referenced value is unnamed."""
    import onnx_ir as ir

    def nest_ok(root):
        seen = {}
        stack = [root]
        while stack:
            gl = stack.pop()
            vals = list(gl.inputs) + (list(gl.initializers.values()) if hasattr(gl, "initializers") else [])
            for n in gl:
                vals += list(n.outputs)
                for v in n.inputs:
                    if v is not None and not v.name:
                        return False
                for a in n.attributes.values():
                    if isinstance(a, ir.Attr) and a.type == ir.AttributeType.GRAPH:
                        stack.append(a.as_graph())
                    elif isinstance(a, ir.Attr) and a.type == ir.AttributeType.GRAPHS:
                        stack.extend(a.as_graphs())
            for v in list(gl.outputs):
                if not v.name:
                    return False
            for v in vals:
                if v.name:
                    if seen.setdefault(v.name, v) is not v:
                        return False
        return True

    return nest_ok(model.graph) and all(nest_ok(f) for f in model.functions.values())


def _root_cause(e: BaseException) -> BaseException:
    while e.__cause__ is not None:
        e = e.__cause__
    return e


def raise_allowed(pname: str, e: BaseException, sorted_before: bool, names_ok: bool, flavour: str = "") -> str | None:
    """The ONLY exceptions a built-in pass may raise on a generated model (reason), else None.
    Every other exception - in any round, of any pass, composition or reused object - is a failure."""
    root = _root_cause(e)
    invalid = (not sorted_before) or (not names_ok)
    if pname.startswith("Checker") and type(e).__name__ == "ValidationError" and invalid:
        return "onnx.checker rejects a model that is not sorted / not SSA"
    if pname.startswith("Checker") and flavour == "cyclic" and "Cycle detected" in str(e):
        return "onnx.checker rejects cyclic function references"
    if pname.startswith("LiftConstants") and not names_ok and isinstance(root, ValueError) and "already registered" in str(root):
        return "lifting a Constant whose output name is already the name of another initializer (non-SSA model)"
    if pname == "Checker(full)" and type(e).__name__ in ("ValidationError", "InferenceError") and "ShapeInferenceError" in str(e):
        return "full_check runs strict shape inference; the generator's declared shapes are deliberately sloppy"
    if (
        (pname.startswith("functionalize(") or pname == "Inline")
        and not sorted_before
        and isinstance(root, ValueError)
        and "outer-scope value" in str(root)
    ):
        return "cloning a graph / function body that is not topologically sorted is rejected"
    if pname.startswith("ShapeInference") and type(e).__name__ == "SerdeError" and not names_ok:
        return "the inferred proto of a non-SSA model cannot be deserialized for the merge (model must stay unchanged)"
    if pname == "Inline" and type(e).__name__ == "PreconditionError":
        return "cyclic function calls are rejected by InlinePass.requires"
    return None


def apply_pass_case(part: Part, reqs: list, seed: int, flavour: str, pname: str, mk) -> None:
    """One (model, pass) case: oracle + (for the concrete flag models) a Lean request."""
    import onnx_ir as ir

    case = {"seed": seed, "flavour": flavour, "pass": pname}
    model = build_model(seed, flavour)
    p = mk()
    # half of the cases: the model handed to the pass has never been serialized (tensor names may differ from
    # value names); "before" is taken from an identically built twin
    fresh = random.Random(f"twin:{seed}:{pname}").random() < 0.5
    try:
        before = ser_bytes(build_model(seed, flavour) if fresh else model)
    except Exception:  # noqa: BLE001
        part.count("pass:model-not-serializable")
        return
    case["never_serialized"] = fresh
    size = model_size(model)
    sorted_before = is_sorted(model)
    named_before, unique_before = names_view(model)
    ssa_before = ssa_strict(model)
    dup_out = any(len({id(v) for v in gl.outputs}) != len(gl.outputs) for gl, _e, _p in all_graph_likes(model))
    links_before = check_links(model)
    if links_before:
        part.count("pass:generator-links-broken")
        return
    extra = None
    if pname == "ClearMetadataAndDocString":
        st = clearmeta_state(model)
        extra = ("clearmeta", st)
    elif pname == "TopologicalSort":
        gls = sort_orders(model)
        extra = ("sort", gls, [[id(n) for n in g] for g in gls])
    elif pname in ("RemoveInitializersFromInputs", "AddInitializersToInputs"):
        reg = {}
        extra = ("initinputs", reg, initinputs_state(model, reg))
    rounds, cur, modified_any = 0, model, False
    known_functions = set(model.functions)
    fp_before = ir_fingerprint(model)
    sig = f"pass/{pname}"
    first = None
    measure = MEASURES.get(pname)
    mu = measure(model) if measure else None
    last_result = None
    while True:
        try:
            # `pass_(previous_result)` is part of the calling convention: use it on every other round
            r = p(last_result if (last_result is not None and rounds % 2 == 1) else cur)
        except Exception as e:  # noqa: BLE001
            part.count(f"pass:{pname}:raised:{type(e).__name__}")
            why = raise_allowed(pname, e, sorted_before, ssa_before, flavour) if rounds == 0 else None
            if why is None:
                part.fail(
                    sig + f"/raised/{type(e).__name__}",
                    f"round {rounds + 1}: the pass raised {type(e).__name__}: {str(_root_cause(e))[:160]}",
                    case,
                )
            else:
                part.count(f"pass:{pname}:allowed-raise:{why[:40]}")
            # a pass that raises must leave the links consistent, and an analysis pass / a functional pass the model as it was
            errs = check_links(cur)
            if errs:
                part.fail(sig + "/raised/links", f"after the pass raised: {errs[0]}", case)
            if pname.startswith(("Checker", "ShapeInference")) or not p.in_place:
                try:
                    if ser_bytes(cur) != before or (fp_before is not None and ir_fingerprint(cur) != fp_before):
                        part.fail(sig + "/raised/model-changed", "the pass raised and left the model changed", case)
                except Exception:  # noqa: BLE001
                    part.fail(sig + "/raised/model-changed", "the pass raised and the model no longer serializes", case)
            part.case([seed, flavour, pname], True, None, **{"pass": pname, "outcome": "raised", "flavour": flavour})
            return
        rounds += 1
        # 1. identity
        if p.in_place and r.model is not cur:
            part.fail(sig + "/identity/in-place", "in-place pass returned a different model object", case)
        if not p.in_place and r.model is cur:
            part.fail(sig + "/identity/functional", "functional pass returned its input", case)
        try:
            after = ser_bytes(r.model)
        except Exception as e:  # noqa: BLE001
            part.fail(sig + "/names/serialization-fails", f"model no longer serializes: {type(e).__name__}", case)
            return
        if not p.in_place and ser_bytes(cur) != before:
            part.fail(sig + "/functional-changed-input", "functional pass changed its input model", case)
        # 2. flag honesty
        if not r.modified and after != before:
            part.fail(sig + "/modified-false-but-changed", "modified=False but the serialized model differs", case)
        fp_after = ir_fingerprint(r.model)
        if r.modified and after == before:
            part.count(f"pass:{pname}:modified-true-same-bytes")
            # modified=True must mean something: different bytes OR an IR-only observable changed
            if p.in_place and fp_after == fp_before:
                part.fail(
                    sig + "/modified-true-but-nothing-changed",
                    f"round {rounds}: modified=True but neither the serialized model nor any IR observable changed",
                    case,
                )
        fp_before = fp_after
        if measure is not None:
            mu2 = measure(r.model)
            if r.modified and not mu2 < mu:
                part.fail(sig + "/measure-not-decreasing", f"modified=True but the pass measure went {mu} -> {mu2}", case)
            mu = mu2
        # 3. links, order, names
        errs = check_links(r.model)
        if errs:
            part.fail(sig + "/links", errs[0], case)
        dang = dangling_calls(r.model, known_functions)
        if dang:
            part.fail(sig + "/dangling-function-call", dang[0], case)
        if sorted_before and not is_sorted(r.model):
            part.fail(sig + "/order", "a topologically ordered model is no longer ordered", case)
        named_after, unique_after = names_view(r.model)
        if named_before and not named_after:
            part.fail(sig + "/names/lost", "a referenced value lost its name", case)
        if unique_before and named_before and not unique_after:
            part.fail(
                sig + "/names/collision" + ("/value-listed-twice-as-graph-output" if dup_out else ""),
                "two referenced values of one graph now share a name",
                case,
            )
        if rounds == 1:
            first = (bool(r.modified), after != before)
            if extra is not None:
                _concrete_request(part, reqs, case, extra, r, model)
        modified_any = modified_any or r.modified
        before, cur, last_result = after, r.model, r
        if not r.modified:
            break
        if rounds > size + 1:
            part.fail(sig + "/rounds", f"still modified=True after size+1 = {size + 1} rounds", case)
            break
    # 4. fixpoint: one more application reports False and changes nothing
    if rounds <= size + 1:
        try:
            r2 = p(cur)
            if r2.modified:
                part.fail(sig + "/fixpoint/flag", "after modified=False the next application reports True", case)
            if ser_bytes(r2.model) != before:
                part.fail(sig + "/fixpoint/changed", "after modified=False the next application changes the model", case)
        except Exception as e:  # noqa: BLE001
            part.fail(sig + f"/raised/{type(e).__name__}", f"at the fixpoint the pass raised {type(e).__name__}: {str(_root_cause(e))[:160]}", case)
    part.case(
        [seed, flavour, pname],
        first is not None and first[1],
        {"seed": seed, "flavour": flavour, "pass": pname, "rounds": rounds, "size": size},
        **{"pass": pname, "rounds": min(rounds, 6), "first_modified": first[0] if first else None, "flavour": flavour},
    )


def _concrete_request(part, reqs, case, extra, r, model):
    if extra[0] == "clearmeta":
        st = extra[1]
        after = clearmeta_state(r.model)
        # same graph numbering: the traversal order is unchanged by the pass
        reqs.append(
            (
                {"m": "passinfra.clearmeta", "nodes": st["nodes"], "graphs": st["graphs"]},
                {"modified": bool(r.modified), "nodes": after["nodes"], "graphs": [
                    {"meta": len(g.metadata_props), "doc": bool(g.doc_string)} for g in st["_graphs"]]},
                {**case, "model": "clearmeta"},
            )
        )
    elif extra[0] == "sort":
        gls, before = extra[1], extra[2]
        idx = {}
        for order in before:
            for n in order:
                idx.setdefault(n, len(idx))
        after = [[idx.setdefault(id(n), len(idx)) for n in g] for g in gls]
        reqs.append(
            (
                {"m": "passinfra.sortflag", "before": [[idx[n] for n in o] for o in before], "after": after},
                {"r": bool(r.modified)},
                {**case, "model": "sortflag"},
            )
        )
    elif extra[0] == "initinputs":
        reg, st = extra[1], extra[2]
        after = initinputs_state(r.model, reg)
        add = case["pass"].startswith("Add")
        reqs.append(
            (
                {"m": "passinfra.addinit" if add else "passinfra.rminit", "graphs": st},
                {"modified": bool(r.modified), "graphs": [g["inputs"] for g in after]},
                {**case, "model": "initinputs"},
            )
        )


# ---- RemoveUnusedNodesPass on flat graphs vs the Lean counting-pass instance `Dce`


def _dce_build(seed: int):
    """A graph without subgraphs for the `Dce` model: (model, state()) - deterministic in `seed`."""
    import onnx_ir as ir

    r = random.Random(f"dce:{seed}")
    F = ir.TensorType(ir.DataType.FLOAT)
    vid, nid = {}, {}

    def reg(v):
        vid[id(v)] = len(vid)
        return v

    inputs = [reg(ir.Value(name=f"x{i}", shape=ir.Shape([2]), type=F)) for i in range(r.randint(1, 2))]
    inits = []
    for i in range(r.choice([0, 1, 2, 3])):
        w = reg(ir.Value(name=f"w{i}", const_value=ir.tensor(np.zeros(2, dtype=np.float32), name=f"w{i}"), shape=ir.Shape([2]), type=F))
        inits.append(w)
    graph_inputs = list(inputs) + [w for w in inits if r.random() < 0.2]
    avail = list(inputs) + list(inits)
    nodes = []
    for j in range(r.randint(0, 7)):
        k = r.random()
        if k < 0.35:
            n = ir.node(r.choice(["Relu", "Identity", "Neg"]), [r.choice(avail)], name=f"n{j}")
        elif k < 0.65:
            n = ir.node("Add", [r.choice(avail), r.choice(avail)], name=f"n{j}")
        else:
            ins = [r.choice(avail), r.choice([None, None, r.choice(avail)]), r.choice([None, None, r.choice(avail)])]
            n = ir.node("Clip", ins[: r.choice([1, 2, 3, 3])], name=f"n{j}")
        n.outputs[0].name = f"v{j}"
        n.outputs[0].shape = ir.Shape([2])
        n.outputs[0].type = F
        reg(n.outputs[0])
        nid[id(n)] = j
        nodes.append(n)
        avail.append(n.outputs[0])
    produced = [n.outputs[0] for n in nodes]
    outs = r.sample(produced, k=min(len(produced), r.choice([0, 1, 1, 2])))
    if r.random() < 0.15:
        outs.append(r.choice(inputs + inits))
    if r.random() < 0.25:
        r.shuffle(nodes)
    g = ir.Graph(graph_inputs, outs, nodes=nodes, initializers=inits, opset_imports={"": 20}, name="g")
    model = ir.Model(g, ir_version=10)

    def state():
        return {
            "nodes": [
                {"id": nid[id(n)], "inputs": [None if v is None else vid[id(v)] for v in n.inputs], "outputs": [vid[id(v)] for v in n.outputs]}
                for n in g
            ],
            "outs": [vid[id(v)] for v in g.outputs],
            "ins": [vid[id(v)] for v in g.inputs],
            "inits": [vid[id(v)] for v in g.initializers.values()],
        }

    return model, state, len(nodes)


def dce_case(part: Part, reqs: list, seed: int) -> None:
    import onnx_ir as ir
    import onnx_ir.passes.common as cp

    model, state, n_nodes = _dce_build(seed)
    p = cp.RemoveUnusedNodesPass()
    for rnd in range(4):
        before = state()
        res = p(model)
        after = state()
        reqs.append(
            (
                {"m": "passinfra.dce", **before},
                {"modified": bool(res.modified), "nodes": after["nodes"], "inits": after["inits"]},
                {"model": "dce", "seed": seed, "round": rnd},
            )
        )
        if not res.modified:
            break
    # the same through the real entry point: PassManager([pass], steps, early_stop)(model) vs Pass.run (.mgr ...)
    r = random.Random(f"dcemgr:{seed}")
    steps, es = r.choice([0, 1, 2, 3, 5, 9]), r.random() < 0.7
    model2, state2, _ = _dce_build(seed)
    before = state2()
    mgr = ir.passes.PassManager([cp.RemoveUnusedNodesPass()], steps=steps, early_stop=es)
    try:
        res = mgr(model2)
        out = ["ok", 0 if res.model is model2 else 1, bool(res.modified)]
    except Exception as e:  # noqa: BLE001
        out = ["raised", _exc_name(e)]
        part.fail(f"dce-manager/raised/{type(e).__name__}", "PassManager([RemoveUnusedNodesPass()]) raised on a valid graph", {"dce_seed": seed})
    after = state2()
    reqs.append(
        (
            {"m": "passinfra.dcemgr", **before, "steps": steps, "es": es},
            {"res": out, "nodes": after["nodes"], "inits": after["inits"]},
            {"model": "dcemgr", "seed": seed, "steps": steps, "es": es},
        )
    )
    part.case(["dce", seed], bool(n_nodes), {"dce_seed": seed} if seed % 97 == 0 else None, dce_rounds=rnd + 1, dce_nodes=min(n_nodes, 8))


# ---- the flags of passes on C05's models of them (`Model/PassFlags.lean`) and of the sort pass on C12's


def flags_case(part: Part, reqs: list, seed: int) -> None:
    """RemoveUnusedNodes / LiftConstantsToInitializers / Deduplicate(Hashed)Initializers: the real flag vs the
    count transcribed next to C05's pass model, on this harness' models and on C05's generator's models."""
    import onnx_ir as ir
    import onnx_ir.passes.common as cp
    from harness import c05

    r = random.Random(f"flags:{seed}")

    def build():
        if seed % 2:
            return build_model(seed, "plain")
        return ir.serde.deserialize_model(c05.gen_model(random.Random(seed), random.Random(seed + 1).choice([4, 8, 12])))

    lim = r.choice([0, 3, 16])
    la = r.random() < 0.5
    dl = r.choice([0, 70, 1024])
    table = [
        ("dce", lambda: cp.RemoveUnusedNodesPass()),
        (f"lift:{int(la)}:{lim}", lambda: cp.LiftConstantsToInitializersPass(lift_all_constants=la, size_limit=lim)),
        (f"dedup:{dl}", lambda: cp.DeduplicateInitializersPass(size_limit=dl)),
        (f"dedup:{dl}", lambda: cp.DeduplicateHashedInitializersPass(size_limit=dl)),
    ]
    for name, mk in table:
        try:
            model = build()
            enc = c05.Encoder()
            mj = enc.model(model)
        except Exception:  # noqa: BLE001 - not expressible in C05's model IR (e.g. an initializer without tensor)
            part.count("flags:unencodable")
            continue

        def shape_of_nodes(m):
            return {
                id(n): (len(n.outputs), tuple(bool(o.name) for o in n.outputs), tuple(sorted(n.attributes)))
                for gl, _e, _p in all_graph_likes(m)
                for n in gl
            }

        before_nodes = shape_of_nodes(model)
        sorted0 = is_sorted(model)
        try:
            res = mk()(model)
        except Exception as e:  # noqa: BLE001
            part.fail(f"flags/{name.split(':')[0]}/raised/{type(e).__name__}", f"the pass raised on a valid model: {str(e)[:120]}", {"flags_seed": seed})
            continue
        if name == "dce":
            after_nodes = shape_of_nodes(model)
            if any(after_nodes[k] != v for k, v in before_nodes.items() if k in after_nodes):
                part.count("flags:dce-optional-output-path")  # schema-driven part: not in C05's model
                continue
        obs = {"flag": bool(res.modified)}
        # C14_keeps_sorted_delete / _subst: `sortedModel` before / after against the oracle's notion of "ordered"
        obs["sorted"], obs["sorted_after"] = sorted0, is_sorted(model)
        if sorted0 and not obs["sorted_after"]:
            part.fail(f"flags/{name.split(':')[0]}/order", "a topologically ordered model is no longer ordered", {"flags_seed": seed})
        reqs.append(
            (
                {"m": "passinfra.flags", "model": mj, "pass": name},
                obs,
                {"model": "flags", "flags_seed": seed, "pass": name, "source": "c14" if seed % 2 else "c05"},
            )
        )
        part.case(["flags", seed, name, type(res).__name__], True, None, flags_pass=name.split(":")[0], flags_flag=bool(res.modified))


def sortflag_case(part: Part, reqs: list, seed: int) -> None:
    """TopologicalSortPass flag vs `sortPassFlag` (C12's model of the pass), on C12's generator's models
    (permuted nested graphs, functions, sometimes cyclic)."""
    import onnx_ir as ir
    from harness import c12
    from onnx_ir.passes.common.topological_sort import TopologicalSortPass

    case = c12.gen_model_case(random.Random(f"sortflag:{seed}"))
    bs = [c12.Built(spec, case["variant"], seed=case["sub"] + j) for j, spec in enumerate(case["specs"])]
    funcs = [ir.Function("d", f"f{j}", graph=b.root, attributes=[]) for j, b in enumerate(bs[1:], start=1)]
    model = ir.Model(bs[0].root, ir_version=10, functions=funcs)
    graphs = [b.encode(b.root) for b in bs]
    before = [b.orders() for b in bs]
    try:
        res = TopologicalSortPass()(model)
        obs = {"raised": False, "flag": bool(res.modified)}
    except ValueError:
        obs = {"raised": True}
    after = [b.orders() for b in bs]
    # oracle: the flag says exactly whether some graph of the model changed its node order
    if not obs["raised"] and obs["flag"] != (after != before):
        part.fail("sortflag/flag-vs-orders", f"modified={obs['flag']} but node orders {'changed' if after != before else 'are unchanged'}", {"sortflag_seed": seed})
    reqs.append(({"m": "passinfra.sortpass", "graphs": graphs}, obs, {"model": "sortpass", "sortflag_seed": seed}))
    part.case(["sortflag", seed], True, None, sortflag="raised" if obs["raised"] else f"flag={obs['flag']}")


# ---- PassManager compositions of built-in passes, tied to the Lean manager model


def compose_case(part: Part, reqs: list, seed: int) -> None:
    import onnx_ir as ir

    rng = random.Random(f"compose:{seed}")
    table = [t for t in pass_table() if not t[0].startswith("functionalize") and not t[0].startswith("Checker")]
    P = ir.passes
    model = build_model(seed, "plain")
    records = []  # per wrapper: list of modified flags, in invocation order

    def wrap(name, inner, lid):
        flags = []
        records.append((lid, inner.in_place, flags))

        class Probe(P.PassBase):
            @property
            def in_place(self):
                return inner.in_place

            @property
            def changes_input(self):
                return inner.changes_input

            def call(self, m):
                res = inner(m)
                flags.append(bool(res.modified))
                return res

        return Probe()

    counter = [0]

    def gen(depth):
        if depth >= 2 or rng.random() < 0.6:
            name, mk = rng.choice(table)
            counter[0] += 1
            return ("leaf", counter[0], name, wrap(name, mk(), counter[0]))
        ps = [gen(depth + 1) for _ in range(rng.randint(1, 3))]
        if rng.random() < 0.4:
            return ("seq", ps)
        return ("mgr", ps, rng.choice([1, 2, 3, 4]), rng.random() < 0.7)

    def real(t):
        if t[0] == "leaf":
            return t[3]
        if t[0] == "seq":
            return P.Sequential(*[real(x) for x in t[1]])
        return P.PassManager([real(x) for x in t[1]], steps=t[2], early_stop=t[3])

    tree = ("mgr", [gen(1) for _ in range(rng.randint(1, 3))], rng.choice([1, 2, 3, 5]), rng.random() < 0.7)
    p = real(tree)
    names = []

    def describe(t):
        if t[0] == "leaf":
            names.append(t[2])
            return {"leaf": t[2]}
        if t[0] == "seq":
            return {"seq": [describe(x) for x in t[1]]}
        return {"mgr": [describe(x) for x in t[1]], "steps": t[2], "es": t[3]}

    desc = describe(tree)
    case = {"seed": seed, "compose": desc}
    try:
        before = ser_bytes(model)
    except Exception:  # noqa: BLE001
        return
    try:
        r = p(model)
        out = ["ok", 0 if r.model is model else 1, bool(r.modified)]
    except Exception as e:  # noqa: BLE001
        out = ["raised", _exc_name(e)]
        r = None
        # plain (sorted, SSA) models and no Checker / functionalize member: nothing may raise
        part.fail(f"compose/raised/{type(_root_cause(e)).__name__}", f"a composition of built-in passes raised: {str(_root_cause(e))[:160]}", case)
    sig = "compose"  # the leaves are in the case
    if r is not None:
        if p.in_place and r.model is not model:
            part.fail(sig + "/identity", "in-place composition returned another object", case)
        after = ser_bytes(r.model)
        if not r.modified and after != before:
            part.fail(sig + "/modified-false-but-changed", "composition reports modified=False but bytes differ", case)
        errs = check_links(r.model)
        if errs:
            part.fail(sig + "/links", errs[0], case)
    # Lean: the same tree with every leaf scripted by the flags it actually returned

    def spec(t):
        if t[0] == "leaf":
            lid = t[1]
            _l, ip, flags = next(x for x in records if x[0] == lid)
            beh = [{"req": 0, "ret": 0, "mod": f, "ens": 0} for f in flags]
            raised_in_leaf = out[0] == "raised"
            if raised_in_leaf:
                beh.append({"req": 0, "ret": 4, "mod": False, "ens": 0})
            return {"k": "leaf", "id": lid, "ip": ip, "beh": beh or [dict(_DEFAULT_BEH)]}
        if t[0] == "seq":
            return {"k": "seq", "ps": [spec(x) for x in t[1]]}
        return {"k": "mgr", "ps": [spec(x) for x in t[1]], "steps": t[2], "es": t[3]}

    if out[0] == "ok" and all(ip for _l, ip, _f in records):
        calls = sum(len(f) for _l, _ip, f in records)
        reqs.append(
            (
                {"m": "passinfra.run", "p": spec(tree)},
                {"res": out, "ncalls": calls},
                {**case, "model": "compose"},
            )
        )
    part.case(["compose", seed], True, case if seed % 50 == 0 else None, compose_outcome=out[0], compose_leaves=min(len(names), 6))


# =========================================================================== E. long-lived pass objects


def reuse_case(part: Part, seed: int) -> None:
    """ONE instance of every built-in pass (and one PassManager / Sequential object) is applied to a
    sequence of models that share function identifiers.  Whatever the object was applied to before, each
    application must behave like a fresh instance on the same model, and the usual contract must hold."""
    import onnx_ir as ir

    P = ir.passes
    rng = random.Random(f"reuse:{seed}")
    table = [t for t in pass_table() if not t[0].startswith("Checker")]
    byname = dict(table)
    inplace = [t[0] for t in table if not t[0].startswith("functionalize")]

    def mk_pipeline(kind):
        names = [rng.choice(inplace) for _ in range(rng.randint(1, 3))]
        if rng.random() < 0.6 and "RemoveUnusedFunctions" not in names:
            names.append("RemoveUnusedFunctions")
        st = (rng.choice([1, 2, 3]), rng.random() < 0.7)
        return (kind, names, st)

    def build(spec):
        if isinstance(spec, str):
            return byname[spec]()
        kind, names, (steps, es) = spec
        ps = [byname[n]() for n in names]
        return P.Sequential(*ps) if kind == "seq" else P.PassManager(ps, steps=steps, early_stop=es)

    specs = [t[0] for t in table] + [mk_pipeline("mgr"), mk_pipeline("mgr"), mk_pipeline("seq")]
    model_seeds = [rng.randrange(10**9) for _ in range(rng.choice([3, 4]))]
    for spec in specs:
        label = spec if isinstance(spec, str) else f"{spec[0]}[{'+'.join(spec[1])}]"
        sig = "reuse/" + (spec if isinstance(spec, str) else spec[0])
        shared = build(spec)
        for k, ms in enumerate(model_seeds):
            case = {"reuse_seed": seed, "spec": label, "application": k, "model_seeds": model_seeds}
            model = build_model(ms, "reuse")
            ref_model = build_model(ms, "reuse")
            try:
                before = ser_bytes(model)
            except Exception:  # noqa: BLE001
                break
            known = set(model.functions)
            try:
                ref = build(spec)(ref_model)
                ref_out = ("ok", bool(ref.modified), ser_bytes(ref.model))
            except Exception as e:  # noqa: BLE001
                ref_out = ("raised", type(e).__name__, None)
            try:
                r = shared(model)
                out = ("ok", bool(r.modified), ser_bytes(r.model))
            except Exception as e:  # noqa: BLE001
                out = ("raised", type(e).__name__, None)
                r = None
                # "reuse" models are sorted and SSA: nothing may raise, reused object or not
                part.fail(sig + f"/raised/{type(_root_cause(e)).__name__}", f"application {k} of one {label} object raised: {str(_root_cause(e))[:160]}", case)
            if ref_out[0] == "raised":
                part.fail(sig + f"/raised/{ref_out[1]}", f"a fresh {label} raised {ref_out[1]} on a valid model", case)
            if out != ref_out:
                part.fail(
                    sig + "/depends-on-earlier-applications",
                    f"application {k} of one {label} object: {out[:2]} but a fresh instance on the same model gives {ref_out[:2]}"
                    + ("" if out[:2] != ref_out[:2] else " (resulting models differ)"),
                    case,
                )
            if r is not None:
                if shared.in_place and r.model is not model:
                    part.fail(sig + "/identity", "in-place pass object returned another model", case)
                if not r.modified and out[2] != before:
                    part.fail(sig + "/modified-false-but-changed", "modified=False but the serialized model differs", case)
                dang = dangling_calls(r.model, known)
                if dang:
                    part.fail(sig + "/dangling-function-call", dang[0], case)
                errs = check_links(r.model)
                if errs:
                    part.fail(sig + "/links", errs[0], case)
                # fixpoint with the same object (single passes; a manager without early stop need not converge in one call)
                if isinstance(spec, str):
                    cur, bytes_cur, flag = r.model, out[2], r.modified
                    for _ in range(model_size(r.model) + 2):
                        if not flag:
                            break
                        try:
                            r2 = shared(cur)
                        except Exception as e:  # noqa: BLE001
                            part.fail(sig + f"/raised/{type(_root_cause(e)).__name__}", f"re-application of the reused object raised: {str(_root_cause(e))[:160]}", case)
                            break
                        cur, bytes_cur, flag = r2.model, ser_bytes(r2.model), r2.modified
                    else:
                        part.fail(sig + "/rounds", "the reused object never reports modified=False", case)
                    if not flag:
                        try:
                            r3 = shared(cur)
                            if r3.modified or ser_bytes(r3.model) != bytes_cur:
                                part.fail(sig + "/fixpoint", "after modified=False the next application changes or reports True", case)
                            dang = dangling_calls(r3.model, known)
                            if dang:
                                part.fail(sig + "/dangling-function-call", dang[0], case)
                        except Exception as e:  # noqa: BLE001
                            part.fail(sig + f"/raised/{type(_root_cause(e)).__name__}", f"at the fixpoint the reused object raised: {str(_root_cause(e))[:160]}", case)
            part.case(["reuse", seed, label, k], k > 0, case if (seed + k) % 211 == 0 else None, reuse_kind=spec if isinstance(spec, str) else spec[0], reuse_outcome=out[0])


# =========================================================================== F. Sequential with a functional head


def funcseq_case(part: Part, seed: int) -> None:
    """Sequential / PassManager whose first member is functional (a functionalized pass that often has nothing
    to do) followed by in-place members that do modify.  Specification = applying the members by hand, one
    after the other: the composition must not raise when that does not, must give the same model and flag,
    must return a new object and must leave the caller's model untouched."""
    import onnx_ir as ir

    P = ir.passes
    rng = random.Random(f"funcseq:{seed}")
    byname = dict(pass_table())
    heads = ["TopologicalSort", "RemoveUnusedOpsets", "RemoveUnusedFunctions", "IdentityElimination", "OutputFix", "ClearMetadataAndDocString"]
    tails = ["RemoveUnusedNodes", "ClearMetadataAndDocString", "IdentityElimination", "DeduplicateInitializers",
             "LiftConstantsToInitializers(all,0)", "CommonSubexpressionElimination", "RemoveUnusedOpsets", "AddInitializersToInputs"]
    head = rng.choice(heads)
    tail = [rng.choice(tails) for _ in range(rng.randint(1, 2))]
    kind = rng.choice(["seq", "seq", "mgr"])
    ms = rng.randrange(10**9)
    case = {"funcseq_seed": seed, "functional": f"functionalize({head})", "others": tail, "kind": kind}

    pos = rng.choice([0, 0, 0, 1, len(tail)])  # the functional member is usually the head, but not always

    def members():
        ms = [byname[t]() for t in tail]
        ms.insert(pos, P.functionalize(byname[head]()))
        return ms

    # specification: by hand
    spec_model = build_model(ms, "plain")
    try:
        cur, flag = spec_model, False
        for m in members():
            res = m(cur)
            cur, flag = res.model, flag or bool(res.modified)
        spec = ("ok", flag, ser_bytes(cur))
    except Exception as e:  # noqa: BLE001
        spec = ("raised", type(e).__name__, None)
        part.fail(f"funcseq/member-raised/{type(_root_cause(e)).__name__}", f"a member applied by hand raised on a valid model: {str(_root_cause(e))[:160]}", case)
    model = build_model(ms, "plain")
    try:
        before = ser_bytes(model)
    except Exception:  # noqa: BLE001
        return
    fp_before = ir_fingerprint(model)
    comp = P.Sequential(*members()) if kind == "seq" else P.PassManager(members(), steps=1)
    input_changed = False
    try:
        r = comp(model)
        # look at the caller's model BEFORE serializing the result: the clone made by functionalize shares
        # tensor objects with the input, and serializing an initializer renames its tensor (not a C14 matter)
        input_changed = ser_bytes(model) != before or ir_fingerprint(model) != fp_before
        out = ("ok", bool(r.modified), ser_bytes(r.model))
    except Exception as e:  # noqa: BLE001
        out = ("raised", type(e).__name__, None)
        r = None
        input_changed = ser_bytes(model) != before or ir_fingerprint(model) != fp_before
    sig = "funcseq"
    if spec[0] == "ok" and out[0] == "raised":
        part.fail(sig + "/raised", f"the composition raises {out[1]} although its members applied one after the other do not", case)
    elif spec[0] == "ok" and out != spec:
        part.fail(sig + "/result-differs", f"composition gives {out[:2]}, members applied by hand give {spec[:2]}" + (" (models differ)" if out[:2] == spec[:2] else ""), case)
    if comp.in_place:
        part.fail(sig + "/declaration", "a composition with a functional member declares itself in-place", case)
    if r is not None and r.model is model:
        part.fail(sig + "/identity", "a not-in-place composition returned its input", case)
    case["position"] = pos
    if spec[0] == "ok" and input_changed and pos == 0:
        part.fail(sig + "/input-changed", "the head is functional but the caller's model was changed by the composition", case)
    part.case(["funcseq", seed], True, case if seed % 101 == 0 else None, funcseq_head=head, funcseq_out=out[0] + ":" + str(out[1]))


# =========================================================================== D. ONNX boundary faults on generated models


def boundary_case(part: Part, seed: int, which: str, fault: str) -> None:
    import onnx
    import onnx_ir as ir
    import onnx_ir.passes.common as cp

    model = build_model(seed, "plain")
    g = model.graph
    rng = random.Random(f"boundary:{seed}")
    if fault == "lazy" and g.initializers:
        # replace one initializer tensor by a lazy tensor that raises when serialized
        v = rng.choice(list(g.initializers.values()))

        def boom():
            raise RuntimeError("injected: lazy tensor")

        small = rng.random() < 0.7
        shape = [1, 64] if small else [4, 64]
        v.const_value = ir.LazyTensor(boom, dtype=ir.DataType.FLOAT, shape=ir.Shape(shape), name=v.name)
        v.shape = None
        v.type = None
    universe = []
    for gg in model.graphs():
        universe += list(gg.inputs) + list(gg.initializers.values())
        for n in gg:
            universe += list(n.outputs)
    for f in model.functions.values():
        universe += list(f.inputs)
        for n in f:
            universe += list(n.outputs)

    def snap():
        return (
            [(k, id(v)) for k, v in g.initializers.items()],
            [id(v) for v in g.inputs],
            [(v.name, id(v.const_value), id(v.shape), id(v.type), str(v.shape), str(v.type)) for v in universe],
            [(v.is_graph_input(), v.is_initializer(), v.is_graph_output(), id(v.graph)) for v in universe],
            [[id(n) for n in gg] for gg in model.graphs()],
        )

    tensors = []
    for v in universe:
        if v.const_value is not None and all(v.const_value is not t for t in tensors):
            tensors.append(v.const_value)

    def tensor_names():
        return [t.name for t in tensors]

    tn_before = tensor_names()
    before = snap()
    orig_check, orig_infer, orig_ser = onnx.checker.check_model, onnx.shape_inference.infer_shapes, ir.serde.serialize_model

    def raiser(*a, **kw):
        raise RuntimeError("injected: onnx boundary")

    p = cp.CheckerPass() if which == "Checker" else cp.ShapeInferencePass()
    try:
        if fault == "call":
            onnx.checker.check_model = raiser
            onnx.shape_inference.infer_shapes = raiser
        if fault == "ser":
            ir.serde.serialize_model = raiser
        try:
            r = p(model)
            out = ("ok", bool(r.modified), r.model is model)
        except Exception as e:  # noqa: BLE001
            out = ("raised", type(e).__name__, True)
    finally:
        onnx.checker.check_model, onnx.shape_inference.infer_shapes, ir.serde.serialize_model = orig_check, orig_infer, orig_ser
    after = snap()
    case = {"seed": seed, "pass": which, "fault": fault}
    sig = f"boundary/{which}/{fault}"
    changed_ok = which == "ShapeInference" and out[0] == "ok" and out[1]
    names = ["initializer keys/objects/order", "graph inputs", "value tensors/shapes/types", "ownership flags", "node order"]
    if not changed_ok:
        for nm, b, a in zip(names, before, after):
            if a != b:
                part.fail(sig + "/" + nm.split()[0], f"{nm} differ after {which} with fault {fault} ({out[0]})", case)
    # tensor.name: serialization aligns the name of an initializer's tensor with the value name (documented
    # side effect); nothing else may happen to it, and nothing at all when serialization is not reached
    for t, nb, na in zip(tensors, tn_before, tensor_names()):
        owners = {v.name for gg in model.graphs() for v in gg.initializers.values() if v.const_value is t}
        if na != nb and (na not in owners or fault == "ser"):
            part.fail(sig + "/tensor-name", f"tensor.name changed from {nb!r} to {na!r}", case)
    if which == "ShapeInference" and fault in ("call", "ser") and out[:2] != ("ok", False):
        part.fail(sig + "/result", f"shape inference failure must return (model, False), got {out}", case)
    if which == "Checker" and fault in ("call", "ser") and out[0] != "raised":
        part.fail(sig + "/result", "checker swallowed the failure", case)
    if out[0] == "ok" and not out[2]:
        part.fail(sig + "/identity", "returned another model object", case)
    errs = check_links(model)
    if errs:
        part.fail(sig + "/links", errs[0], case)
    part.case(["boundary", seed, which, fault], True, case if seed % 40 == 0 else None, boundary=f"{which}/{fault}/{out[0]}")



# =========================================================================== G. deepening round: flag AND result on further models
#
# IdentityElimination / CSE / LiftSubgraphInitializers / OutputFix against the flag transcriptions of
# `Model/PassFlags2.lean` next to C05's pass models (driver `passinfra.flags2`: flag, count, measure, RESULT
# MODEL, flag of a second application); RemoveUnusedOpsets / RemoveUnusedFunctions against their transcriptions
# (`passinfra.opsets`, `passinfra.unusedfn`); NameFix against C15's model of the pass (`names.fix`).  Every
# clause of the new theorems (False => unchanged, second application, measure) is ALSO evaluated on the real
# objects, independently of the model.


def _flags2_special(seed: int):
    """Small models aimed at the rewrites of OutputFix / CSE / IdentityElimination / LiftSubgraphInitializers:
    repeated outputs, inputs that are outputs (also in an If branch), equal nodes whose outputs are graph outputs
    (CSE then has to insert Identity nodes), Identity chains at the outputs, initializers inside branches."""
    import onnx_ir as ir

    r = random.Random(f"flags2-special:{seed}")
    F = ir.TensorType(ir.DataType.FLOAT)
    B = ir.TensorType(ir.DataType.BOOL)
    cnt = [0]

    def val(prefix="v"):
        cnt[0] += 1
        return ir.Value(name=f"{prefix}{cnt[0]}", shape=ir.Shape([2]), type=F)

    def named(n):
        for o in n.outputs:
            cnt[0] += 1
            o.name, o.shape, o.type = f"v{cnt[0]}", ir.Shape([2]), F
        return n

    def const(name):
        return ir.Value(name=name, const_value=ir.tensor(np.array([1.0, float(r.randint(0, 1))], dtype=np.float32), name=name),
                        shape=ir.Shape([2]), type=F)

    inputs = [val("x") for _ in range(r.randint(1, 2))]
    avail, nodes = list(inputs), []
    for _ in range(r.randint(1, 6)):
        k = r.random()
        if k < 0.35:
            n = named(ir.node(r.choice(["Relu", "Relu", "Neg"]), [r.choice(avail[: max(1, len(avail) // 2)])]))
        elif k < 0.6:
            n = named(ir.node("Identity", [r.choice(avail)]))
        elif k < 0.8:
            n = named(ir.node("Add", [r.choice(avail), r.choice(avail)]))
        else:
            # If with two branches; a branch may hold an initializer, return an outer value through an Identity,
            # or list a value twice / a branch input as its outputs
            branches = []
            for bi in range(2):
                w = const(f"w{len(nodes)}_{bi}") if r.random() < 0.6 else None
                src = w if (w is not None and r.random() < 0.7) else r.choice(avail)
                bn = named(ir.node(r.choice(["Neg", "Identity", "Relu"]), [src]))
                outs = [bn.outputs[0]]
                if r.random() < 0.15 and w is not None:
                    outs = [w]  # an initializer that is an output of the branch: must not be lifted
                branches.append(ir.Graph([], outs, nodes=[bn], initializers=[w] if w is not None else [], name=f"b{len(nodes)}_{bi}"))
            cond = ir.Value(name=f"c{len(nodes)}", const_value=ir.tensor(np.array(True), name=f"c{len(nodes)}"), shape=ir.Shape([]), type=B)
            n = named(ir.Node("", "If", [cond], [ir.AttrGraph("then_branch", branches[0]), ir.AttrGraph("else_branch", branches[1])], num_outputs=1))
            n._cond = cond
        nodes.append(n)
        avail.append(n.outputs[0])
    pool = [n.outputs[0] for n in nodes]
    outs = [r.choice(pool) for _ in range(r.randint(1, 3))]
    if r.random() < 0.4:
        outs.append(r.choice(outs))  # a value listed twice
    if r.random() < 0.4:
        outs.append(r.choice(inputs))  # an input that is an output
    if r.random() < 0.5:
        # equal nodes all of whose outputs are graph outputs
        src = r.choice(inputs)
        for _ in range(r.choice([2, 3, 3, 4, 5])):
            n = named(ir.node("Relu", [src]))
            nodes.append(n)
            outs.append(n.outputs[0])
    if r.random() < 0.35:
        # equal Identity nodes reading a graph output, all of them graph outputs: every rewrite of the round is "stalled"
        # (an Identity node is replaced by an Identity node one link deeper)
        src = r.choice(pool)
        if src not in outs:
            outs.append(src)
        for _ in range(r.choice([2, 3, 4])):
            n = named(ir.node("Identity", [src]))
            nodes.append(n)
            outs.append(n.outputs[0])
    inits = [n._cond for n in nodes if hasattr(n, "_cond")]
    g = ir.Graph(inputs, outs, nodes=nodes, initializers=inits, opset_imports={"": 20}, name="main")
    return ir.Model(g, ir_version=10)


def _cse_weight(model) -> int:
    """`cseW`: an Identity node with one output weighs 1, every other node 1 + its number of outputs (main graph)."""
    return sum(1 if (n.op_type == "Identity" and n.domain == "" and len(n.outputs) == 1) else 1 + len(n.outputs) for n in model.graph)


def _cse_depth(model) -> int:
    """`cseDepth`: total Identity-chain depth of the one-input one-output Identity nodes of the main graph, in node order
    (`y = Identity(x)` is one deeper than `x`; every other node defines values of depth 0)."""
    d: dict = {}
    total = 0
    for n in model.graph:
        if n.op_type == "Identity" and n.domain == "" and len(n.inputs) == 1 and n.inputs[0] is not None and len(n.outputs) == 1:
            k = d.get(id(n.inputs[0]), 0) + 1
            d[id(n.outputs[0])] = k
            total += k
        else:
            for o in n.outputs:
                d[id(o)] = 0
    return total


def _cse_mu(model) -> int:
    """`cseMu` = W*(W*W+1) + (W*W - depth): the measure of C14_measure_cse"""
    w = _cse_weight(model)
    return w * (w * w + 1) + max(w * w - _cse_depth(model), 0)


def _sub_inits(model) -> int:
    return sum(len(g.initializers) for g in model.graphs() if g is not model.graph)


def flags2_case(part: Part, reqs: list, seed: int) -> None:
    import onnx_ir as ir
    import onnx_ir.passes.common as cp
    from harness import c05

    r = random.Random(f"flags2:{seed}")
    source = ["c05", "c14", "c05", "special"][seed % 4]

    def build():
        if source == "c14":
            return build_model(seed, "plain")
        if source == "special":
            return _flags2_special(seed)
        return ir.serde.deserialize_model(c05.gen_model(random.Random(seed), random.Random(seed + 1).choice([4, 8, 12])))

    lim = r.choice([0, 10, 10, 2000])
    table = [
        ("identity", lambda: cp.IdentityEliminationPass(), _m_nodes),
        (f"cse:{lim}", lambda: cp.CommonSubexpressionEliminationPass(size_limit=lim), lambda m: sum(1 for _ in m.graph)),
        ("lsi", lambda: cp.LiftSubgraphInitializersToMainGraphPass(), _sub_inits),
        ("ofix", lambda: cp.OutputFixPass(), None),
    ]
    for name, mk, measure in table:
        base = name.split(":")[0]
        case = {"flags2_seed": seed, "pass": name, "source": source}
        try:
            model = build()
            mj = c05.Encoder().model(model)
        except Exception:  # noqa: BLE001 - not expressible in C05's model IR
            part.count("flags2:unencodable")
            continue
        mu0 = measure(model) if measure else None
        w0 = _cse_weight(model)
        dep0, cmu0 = _cse_depth(model), _cse_mu(model)
        sorted0 = is_sorted(model)
        nodes0 = list(model.graph)  # (kept alive: id() is compared below)
        ids0 = {id(n) for n in nodes0}
        try:
            res = mk()(model)
            after = c05.Encoder().model(model)
            mu1 = measure(model) if measure else None
            w1 = _cse_weight(model)
            dep1, cmu1 = _cse_depth(model), _cse_mu(model)
            sorted1 = is_sorted(model)
            # "stalled" rewrite of CSE: a one-output Identity node went away and an Identity node came in
            gone_identity = sum(1 for n in nodes0 if n.graph is None and n.op_type == "Identity" and n.domain == "" and len(n.outputs) == 1)
            inserted = sum(1 for n in model.graph if id(n) not in ids0)
            res2 = mk()(model)
            after2 = c05.Encoder().model(model)
            cmu2 = _cse_mu(model)
        except c05.Unencodable:
            part.count("flags2:unencodable-after")
            continue
        except Exception as e:  # noqa: BLE001
            part.fail(f"flags2/{base}/raised/{type(e).__name__}", f"the pass raised on a valid model: {str(e)[:120]}", case)
            continue
        c0, c1, c2 = c05.canon(mj), c05.canon(after), c05.canon(after2)
        # ---- the clauses of the theorems on the real objects (independent of the Lean model)
        if not res.modified and c1 != c0:
            part.fail(f"flags2/{base}/modified-false-but-changed", "modified=False but the structure of the model changed: " + str(c05.first_diff(c1, c0)), case)
        if res.modified and c1 == c0:
            part.fail(f"flags2/{base}/modified-true-but-unchanged", "modified=True but the structure of the model is the same", case)
        if not res2.modified and c2 != c1:
            part.fail(f"flags2/{base}/second-false-but-changed", "second application: modified=False but the structure changed", case)
        if base in ("lsi", "ofix") and (res2.modified or c2 != c1):
            part.fail(f"flags2/{base}/not-idempotent", f"applied to its own result the pass reports modified={res2.modified} / changes it", case)
        if base in ("identity", "lsi") and res.modified and not mu1 < mu0:
            part.fail(f"flags2/{base}/measure-not-decreasing", f"modified=True but the measure went {mu0} -> {mu1}", case)
        if base == "cse" and res.modified and inserted == 0 and not mu1 < mu0:
            part.fail("flags2/cse/measure-not-decreasing", f"modified=True, no Identity inserted, but #nodes went {mu0} -> {mu1}", case)
        if base == "cse" and res.modified and (inserted == 0 or gone_identity == 0) and not w1 < w0:
            part.fail("flags2/cse/weight-not-decreasing", f"modified=True, no Identity node replaced by an Identity node, but the weight went {w0} -> {w1}", case)
        if base == "cse" and res.modified and not cmu1 < cmu0:
            # C14_measure_cse on the real objects (the hypothesis validModel is evaluated by the driver: see _compare)
            case = {**case, "cse_mu": [cmu0, cmu1]}
        if base == "cse" and res2.modified and not cmu2 < cmu1:
            case = {**case, "cse_mu2": [cmu1, cmu2]}
        if sorted0 and not sorted1:
            part.fail(f"flags2/{base}/order", "a topologically ordered model is no longer ordered", case)
        obs = {"flag": bool(res.modified), "canon": c1, "flag2": bool(res2.modified), "canon2_same": c2 == c1,
               "sorted": sorted0, "sorted_after": sorted1}
        if measure is not None:
            obs["before"], obs["after"] = mu0, mu1
        if base == "cse":
            obs["w_before"], obs["w_after"] = w0, w1
            obs["depth_before"], obs["depth_after"], obs["mu_before"], obs["mu_after"], obs["mu_after2"] = dep0, dep1, cmu0, cmu1, cmu2
        reqs.append(({"m": "passinfra.flags2", "model": mj, "pass": name}, obs, {"model": "flags2", **case}))
        part.case(["flags2", seed, name], bool(res.modified), case if seed % 211 == 0 else None,
                  **{f"flags2_{base}": f"{source}:flag={bool(res.modified)}", f"flags2_{base}_second": bool(res2.modified)})


def sorted_case(part: Part, reqs: list, seed: int) -> None:
    """`sortedModel` (the notion of "ordered" of C14_keeps_sorted_delete) against the oracle's `is_sorted` on ordered
    and unordered generated models (shuffled main graphs, shuffled subgraphs, cyclic function references)."""
    from harness import c05

    flavour = FLAVOURS[seed % len(FLAVOURS)]
    model = build_model(seed, flavour)
    try:
        mj = c05.Encoder().model(model)
    except Exception:  # noqa: BLE001
        part.count("sorted:unencodable")
        return
    real = is_sorted(model)
    reqs.append(({"m": "passinfra.sorted", "model": mj}, {"sorted": real}, {"model": "sorted", "sorted_seed": seed, "flavour": flavour}))
    part.case(["sorted", seed], True, None, sorted_model=f"{flavour}:{real}")


def _opset_state(model):
    import onnx_ir as ir

    def gl(g):
        return {"imports": list(g.opset_imports), "domains": [n.domain for n in ir.traversal.RecursiveGraphIterator(g)]}

    return {"main": gl(model.graph), "funcs": [{"domain": f.domain, **gl(f)} for f in model.functions.values()]}


def opsets_case(part: Part, reqs: list, seed: int) -> None:
    import onnx_ir.passes.common as cp

    r = random.Random(f"opsets:{seed}")
    flavour = r.choice(["plain", "messy", "reuse", "cyclic", "plain"])
    model = build_model(seed, flavour)
    if r.random() < 0.6:  # make the rewrite fire: imports nobody uses
        for g in [model.graph, *model.functions.values()]:
            for d in r.sample(["unused.a", "unused.b", "", "custom", "ai.onnx.ml"], k=r.randint(0, 2)):
                g.opset_imports.setdefault(d, 1)
    pf = r.random() < 0.7
    case = {"opsets_seed": seed, "flavour": flavour, "pf": pf}
    before = _opset_state(model)
    try:
        res = cp.RemoveUnusedOpsetsPass(process_functions=pf)(model)
        after = _opset_state(model)
        res2 = cp.RemoveUnusedOpsetsPass(process_functions=pf)(model)
        after2 = _opset_state(model)
    except Exception as e:  # noqa: BLE001
        part.fail(f"opsets/raised/{type(e).__name__}", f"RemoveUnusedOpsetsPass raised: {str(e)[:120]}", case)
        return
    imports = lambda st: [st["main"]["imports"]] + [f["imports"] for f in st["funcs"]]  # noqa: E731
    size = lambda st: sum(len(x) for x in imports(st))  # noqa: E731
    if not res.modified and imports(after) != imports(before):
        part.fail("opsets/modified-false-but-changed", "modified=False but some opset_imports changed", case)
    if res.modified and not size(after) < size(before):
        part.fail("opsets/measure-not-decreasing", "modified=True but the number of opset imports did not drop", case)
    if res2.modified or imports(after2) != imports(after):
        part.fail("opsets/not-idempotent", "applied to its own result the pass changes something / reports True", case)
    reqs.append((
        {"m": "passinfra.opsets", "pf": pf, **before},
        {"modified": bool(res.modified), "main": after["main"]["imports"], "funcs": [f["imports"] for f in after["funcs"]],
         "flag2": bool(res2.modified), "before": size(before), "after": size(after)},
        {"model": "opsets", **case},
    ))
    part.case(["opsets", seed], bool(res.modified), case if seed % 211 == 0 else None, opsets=f"pf={pf}:flag={bool(res.modified)}")


def unusedfn_case(part: Part, reqs: list, seed: int) -> None:
    import onnx_ir as ir
    import onnx_ir.passes.common as cp

    r = random.Random(f"unusedfn:{seed}")
    flavour = r.choice(["plain", "reuse", "cyclic", "plain", "messy"])
    model = build_model(seed, flavour)
    case = {"unusedfn_seed": seed, "flavour": flavour}
    fid = {ident: i for i, ident in enumerate(model.functions)}
    other: dict = {}

    def op(n):
        ident = n.op_identifier()
        return fid[ident] if ident in fid else 10000 + other.setdefault(ident, len(other))

    def calls(g):
        return [op(n) for n in ir.traversal.RecursiveGraphIterator(g)]

    req = {"m": "passinfra.unusedfn", "main": calls(model.graph),
           "funcs": [{"id": fid[ident], "calls": calls(f)} for ident, f in model.functions.items()]}
    n0 = len(model.functions)
    try:
        res = cp.RemoveUnusedFunctionsPass()(model)
        left = [fid[ident] for ident in model.functions]
        res2 = cp.RemoveUnusedFunctionsPass()(model)
        left2 = [fid[ident] for ident in model.functions]
    except Exception as e:  # noqa: BLE001
        part.fail(f"unusedfn/raised/{type(e).__name__}", f"RemoveUnusedFunctionsPass raised: {str(e)[:120]}", case)
        return
    if not res.modified and len(left) != n0:
        part.fail("unusedfn/modified-false-but-changed", "modified=False but functions were removed", case)
    if res.modified and not len(left) < n0:
        part.fail("unusedfn/measure-not-decreasing", "modified=True but no function was removed", case)
    if res2.modified or left2 != left:
        part.fail("unusedfn/not-idempotent", "applied to its own result the pass removes more functions / reports True", case)
    reqs.append((req, {"modified": bool(res.modified), "funcs": left, "flag2": bool(res2.modified)}, {"model": "unusedfn", **case}))
    part.case(["unusedfn", seed], bool(res.modified), case if seed % 211 == 0 else None,
              unusedfn=f"flag={bool(res.modified)}", unusedfn_functions=min(n0, 5))


def namefix_case(part: Part, reqs: list, seed: int) -> None:
    """NameFixPass against C15's model of the pass (`names.fix`; the specification generator, the builder of the real
    objects and the request encoder are C15's, imported read-only) plus this property's clauses on the real objects."""
    import onnx_ir as ir
    from harness import c15

    r = random.Random(f"namefix:{seed}")
    depth = r.choice([0, 1, 1, 2, 2, 3])
    kind = seed % 5
    if kind == 0:
        spec = c15._SpecGen(r, max(depth, 1), wild=0.5, fwd=0.1).spec()
    elif kind in (1, 2):
        spec = c15._SpecGen(r, max(depth, 1), wild=0.0, fwd=0.35).spec()
    elif kind == 3:
        # already well named: the flag has to be False
        spec = c15._SpecGen(r, depth, wild=0.0).spec()
        spec["vnames"] = [f"u{i}" for i in range(len(spec["vnames"]))]
        spec["nnames"] = [f"m{i}" for i in range(len(spec["nnames"]))]
        spec["dicts"] = [[[f"u{v}", v] for _k, v in d] for d in spec["dicts"]]
    else:
        spec = c15._SpecGen(r, depth, wild=0.0).spec()
    case = {"namefix_seed": seed}
    try:
        before, after, _sb, _sa, raised, modified, second = c15._run_one_fix(ir, spec)
    except Exception as e:  # noqa: BLE001 - the spec cannot be built as real IR (rejected by constructors)
        part.count(f"namefix:unbuildable:{type(e).__name__}")
        return
    if any(before[k] != spec[k] for k in ("vnames", "nnames", "dicts", "initOf")):
        part.count("namefix:spec-not-realised")
        return
    names = lambda st: (st["vnames"], st["nnames"], st["dicts"])  # noqa: E731
    if raised is None and not modified and names(after) != names(before):
        part.fail("pass/NameFix/modified-false-but-changed/spec", "modified=False but a name or an initializer key changed", case)
    if raised is None and modified and names(after) == names(before):
        part.fail("pass/NameFix/modified-true-but-nothing-changed/spec", "modified=True but no name and no initializer key changed", case)
    obs = {"vnames": after["vnames"], "nnames": after["nnames"], "dicts": after["dicts"], "initOf": after["initOf"],
           "modified": modified, "raised": raised is not None}
    snd = None
    if second is not None:
        snd = {"modified": second[0], "same": second[1] is not None and names(second[1]) == names(after)}
    reqs.append((c15._fix_request(spec), obs, {"model": "namefix", "second": snd, **case}))
    part.case(["namefix", seed], bool(modified), case if seed % 211 == 0 else None,
              namefix="raised" if raised is not None else f"flag={bool(modified)}")


# =========================================================================== H. second deepening round
# InlinePass against C05's model of the pass with the flag / measure of Model/PassFlags3.lean (`passinfra.inline`), and
# RemoveUnusedNodes / IdentityElimination as programs over C01's kernel (`passinfra.kpass`, Model/PassKernel.lean).


_EDGE_MODELS = None  # C05's hand-written function-call edge models (built once per process)


def _inl_calls(model, accept) -> int:
    """`inlCalls`: call nodes (main graph, functions, nested graphs) to a model-local function that the criteria accept"""
    import onnx_ir as ir

    n = 0
    for gl in [model.graph, *model.functions.values()]:
        for nd in ir.traversal.RecursiveGraphIterator(gl):
            f = model.functions.get(nd.op_identifier())
            if f is not None and accept(f):
                n += 1
    return n


def inline_case(part: Part, reqs: list, seed: int) -> None:
    import onnx_ir as ir
    import onnx_ir.passes.common as cp
    from harness import c05

    c05._quiet()
    r = random.Random(f"inline:{seed}")
    source = ["c05", "c05", "edge", "c14", "c05"][seed % 5]
    if source == "edge":
        global _EDGE_MODELS
        if _EDGE_MODELS is None:
            _EDGE_MODELS = c05._fn_edge_models()
        edge = _EDGE_MODELS
        tag, raw = edge[(seed // 5) % len(edge)]
        build = lambda: ir.serde.deserialize_model(c05._parse(raw))  # noqa: E731
        source = f"edge:{tag}"
    elif source == "c14":
        flavour = r.choice(["reuse", "plain", "messy", "cyclic"])
        build = lambda: build_model(seed, flavour)  # noqa: E731
        source = f"c14:{flavour}"
    else:
        size = r.choice([6, 10, 16, 24])
        try:
            proto = c05.gen_model_ex(random.Random(seed), size)[0]
        except Exception as e:  # noqa: BLE001 - generator problem: visible in the histogram
            part.count("inline:gen-error:" + type(e).__name__)
            return
        build = lambda: ir.serde.deserialize_model(proto)  # noqa: E731
    try:
        model = build()
    except Exception as e:  # noqa: BLE001 - not a model the deserializer accepts (edge stream): nothing to inline
        part.count("inline:unbuildable:" + type(e).__name__)
        return
    fids = [tuple(i) for i in model.functions]
    mode = r.choice(["none", "none", "subset", "even", "nothing"])
    if mode == "none":
        ids, crit_req, mk = None, None, (lambda: cp.InlinePass())
    else:
        if mode == "subset":
            ids = {i for i in fids if r.random() < 0.5}
        elif mode == "even":
            ids = {tuple(f.identifier()) for f in model.functions.values() if c05._crit_even(f)}
        else:
            ids = set()
        crit_req = [list(i) for i in sorted(ids)]
        mk = lambda: cp.InlinePass(criteria=lambda f: tuple(f.identifier()) in ids)  # noqa: E731
    accept = (lambda f: True) if ids is None else (lambda f: tuple(f.identifier()) in ids)
    case = {"inline_seed": seed, "source": source, "criteria": mode}
    try:
        before = c05.FEncoder().model(model)
    except c05.Unencodable as e:
        part.count("inline:unencodable:" + str(e)[:40])
        return
    mu0 = _inl_calls(model, accept)
    sorted0 = is_sorted(model)
    req = {"m": "passinfra.inline", "model": before, "crit": crit_req}
    try:
        res = mk()(model)
    except _Timeout:
        raise
    except Exception as e:  # noqa: BLE001 - the theorems assume validF / not raised: the model must predict or exclude it
        part.count("inline:real-pass-raised:" + type(_root_cause(e)).__name__)
        reqs.append((req, {"raised": True, "exc": type(_root_cause(e)).__name__}, {"model": "inline", **case}))
        return
    try:
        after = c05.FEncoder().model(model)
    except c05.Unencodable as e:
        part.count("inline:unencodable-after:" + str(e)[:40])
        return
    mu1 = _inl_calls(model, accept)
    sorted1 = is_sorted(model)
    links = check_links(model)
    try:
        res2 = mk()(model)
        after2 = c05.FEncoder().model(model)
    except _Timeout:
        raise
    except Exception as e:  # noqa: BLE001
        part.fail(f"inline/second-application-raised/{type(_root_cause(e)).__name__}", f"InlinePass raised on its own result: {str(e)[:120]}", case)
        return
    c0, c1, c2 = c05.fcanon(before, False), c05.fcanon(after, False), c05.fcanon(after2, False)
    # ---- the clauses of the theorems on the real objects (independent of the Lean model)
    if not res.modified and c1 != c0:
        part.fail("inline/modified-false-but-changed", "modified=False but the structure of the model changed: " + str(c05.first_diff(c1, c0)), case)
    if res.modified and c1 == c0:
        part.fail("inline/modified-true-but-unchanged", "modified=True but the structure of the model is the same", case)
    if mu1 != 0:
        part.fail("inline/accepted-call-left", f"{mu1} call(s) to a model-local function accepted by the criteria remain after the pass", case)
    if res.modified and not mu1 < mu0:
        part.fail("inline/measure-not-decreasing", f"modified=True but the number of accepted calls went {mu0} -> {mu1}", case)
    if res2.modified or c2 != c1:
        part.fail("inline/not-idempotent", f"applied to its own result the pass reports modified={res2.modified} / changes it", case)
    if links:
        part.fail("inline/links", "use-def / ownership links broken after the pass: " + links[0], case)
    obs = {"raised": False, "flag": bool(res.modified), "before": mu0, "after": mu1, "canon": c1, "flag2": bool(res2.modified),
           "idem": c2 == c1, "sorted": sorted0, "sorted_after": sorted1}
    reqs.append((req, obs, {"model": "inline", **case}))
    part.case(["inline", seed], bool(res.modified), case if seed % 211 == 0 else None,
              inline=f"{source.split(':')[0]}:{mode}:flag={bool(res.modified)}", inline_calls=min(mu0, 6))


def _khist(r: random.Random) -> tuple[list, int, list]:
    """A history over C01's alphabet (op dicts of harness/kernel_ops.Real) that builds a main graph - Identity chains,
    dead nodes, nodes with trailing None inputs, If-like nodes holding subgraphs that read outer values, unused and used
    initializers, outputs that are inputs / Identity outputs - and sometimes a function graph.  Returns (ops, main graph
    id, function graph ids).  Ids follow the registration order of `Real` (values: creation, node outputs at the node)."""
    ops: list = []
    cnt = {"v": 0, "n": 0, "g": 0}

    def value(name, const=False):
        ops.append({"op": "newValue", "name": name})
        v = cnt["v"]
        cnt["v"] += 1
        if const:
            ops.append({"op": "setConst", "v": v})
        return v

    def node(op_type, inputs, nout=1, graphs=()):
        o = {"op": "newNode", "opType": op_type, "name": r.choice([None, f"n{cnt['n']}"]), "inputs": list(inputs),
             "numOutputs": nout, "outputs": None, "graph": None}
        if graphs:
            o["attrGraphs"] = list(graphs)
        ops.append(o)
        n = cnt["n"]
        cnt["n"] += 1
        outs = list(range(cnt["v"], cnt["v"] + nout))
        cnt["v"] += nout
        return n, outs

    def graph(inputs, outputs, nodes, inits):
        ops.append({"op": "newGraph", "inputs": list(inputs), "outputs": list(outputs), "nodes": list(nodes), "inits": list(inits)})
        g = cnt["g"]
        cnt["g"] += 1
        return g

    def body(depth, outer, tag):
        """nodes of one graph; returns (inputs, outputs, node ids, initializers)"""
        inputs = [value(f"{tag}x{i}") for i in range(r.randint(0 if depth else 1, 2))]
        inits = [value(f"{tag}w{i}", const=True) for i in range(r.randint(0, 2))]
        avail = inputs + inits + list(outer)
        if not avail:
            avail = [value(f"{tag}x0")]
            inputs = list(avail)
        local, nodes = [], []
        for _ in range(r.randint(1, 6)):
            k = r.random()
            src = r.choice(avail + local + local)
            if k < 0.35:
                n, outs = node("Identity", [src])
            elif k < 0.55:
                n, outs = node(r.choice(["Relu", "Neg"]), [src])
            elif k < 0.7:
                n, outs = node("Add", [src, r.choice(avail + local)])
            elif k < 0.82:
                n, outs = node("Clip", [src, None, None] if r.random() < 0.7 else [src, None, r.choice(avail + local)])
            elif k < 0.9:
                n, outs = node("Split", [src], nout=2)
            elif depth < 2:
                subs = []
                for bi in range(r.randint(1, 2)):
                    si, so, sn, sw = body(depth + 1, avail + local, f"{tag}b{cnt['g']}_{bi}_")
                    subs.append(graph(si, so, sn, sw))
                n, outs = node("If", [src], graphs=subs)
            else:
                n, outs = node("Neg", [src])
            nodes.append(n)
            local += outs
        outs = [r.choice(local) for _ in range(r.randint(1, 2))]
        if r.random() < 0.25 and inputs:
            outs.append(r.choice(inputs))
        if r.random() < 0.15 and inits:
            outs.append(r.choice(inits))
        if depth and r.random() < 0.2 and outer:
            # a subgraph that returns a captured value through an Identity node (keep rule 3b)
            n, o = node("Identity", [r.choice(list(outer))])
            nodes.append(n)
            outs.append(o[0])
        outs = list(dict.fromkeys(outs))
        if r.random() < 0.2:
            outs.append(r.choice(outs))  # a value listed twice
        return inputs, outs, nodes, inits

    mi, mo, mn, mw = body(0, [], "")
    if mw and r.random() < 0.4:
        mi = mi + r.sample(mw, r.randint(1, len(mw)))  # initializers that are also graph inputs
    main = graph(mi, mo, mn, mw)
    funcs = []
    if r.random() < 0.4:
        fi, fo, fn_, fw = body(1, [], "f_")
        funcs.append(graph(fi, fo, fn_, []))
    return ops, main, funcs


def kpass_case(part: Part, reqs: list, seed: int) -> None:
    import onnx_ir as ir
    import onnx_ir.passes.common as cp
    from harness import kernel_ops as ko

    r = random.Random(f"kpass:{seed}")
    which = ["dce", "ie", "ofix", "ie", "rminit", "addinit", "dce", "ofix"][seed % 8]
    ops, main, funcs = _khist(r)
    case = {"kpass_seed": seed, "pass": which}
    real = ko.Real(model_sort=True)
    _FP_KEEP.append(real)
    mops = []
    for op in ops:
        o, kind, mop = real.apply(op)
        if o != "ok":
            part.count(f"kpass:history-step-rejected:{op['op']}:{kind}")
            return
        mops.append(mop)
    if ko.wf_oracle(real):
        part.count("kpass:history-not-wf")
        return
    functions = [ir.Function("local", f"f{g}", graph=real.graphs[g], attributes=[]) for g in funcs]
    model = ir.Model(real.graphs[main], ir_version=10, functions=functions)
    snap0 = real.snapshot()
    raised = None
    try:
        p = {"dce": cp.RemoveUnusedNodesPass, "ie": cp.IdentityEliminationPass, "rminit": cp.RemoveInitializersFromInputsPass,
             "addinit": cp.AddInitializersToInputsPass, "ofix": cp.OutputFixPass}[which]()
        # nodes the pass creates get the next ids, in creation order (as the kernel's `newNode` allocates them)
        created: list = []
        orig_init = ir.Node.__init__

        def _recording_init(self, *a, **k):
            orig_init(self, *a, **k)
            created.append(self)

        ir.Node.__init__ = _recording_init
        try:
            res = p(model)
        finally:
            ir.Node.__init__ = orig_init
            for n in created:
                real.reg_node(n)
                for o in n.outputs:
                    real.reg_val(o)
    except _Timeout:
        raise
    except Exception as e:  # noqa: BLE001
        raised = type(_root_cause(e)).__name__
        res = None
    snap1 = real.snapshot()
    viol = ko.wf_oracle(real)
    if viol:
        part.fail(f"kpass/{which}/invariant", f"C01's invariant (use-def / producer / ownership / keys / names) broken after the pass"
                  f"{' (which raised ' + raised + ')' if raised else ''}: {viol[0]}", {**case, "violations": viol[:4]})
    d = ko.delta(snap0, snap1)
    changed = any(d[k] for k in d)
    if res is not None and not res.modified and changed:
        part.fail(f"kpass/{which}/modified-false-but-changed", "modified=False but the kernel-visible state changed: "
                  + next(k for k in d if d[k]), case)
    reqs.append(({"m": "passinfra.kpass", "ops": mops, "pass": which, "g": main, "funcs": funcs, "fuel": 8,
                  "exact": ko.rauw_many_is_atomic()},
                 {"d": d, "raised": raised is not None}, {"model": "kpass", "exc": raised, **case}))
    part.case(["kpass", seed], changed, case if seed % 211 == 0 else None,
              kpass=f"{which}:{'raised' if raised else 'changed' if changed else 'unchanged'}")


# =========================================================================== I. wave 5
# CSE / LiftConstants / LiftSubgraphInitializers / Deduplicate(Hashed) as programs over C01's kernel
# (`passinfra.kpass` with pass = cse | lc | lsi | dd, Model/PassKernel2.lean).  What these passes decide from data outside
# C01's world (attribute values, tensor contents and sizes) is read off the real objects HERE, independently of the
# pass, and sent to the kernel program as a parameter.


def _k2_tensor(spec):
    """a tensor attribute / initializer tensor from its spec {"cls": content class, "size": n, "name": str|None}"""
    import numpy as np
    import onnx_ir as ir

    return ir.Tensor(np.full((spec["size"],), float(spec["cls"]), dtype=np.float32), name=spec.get("name"))


def _k2_attr(a):
    import onnx_ir as ir

    name, kind, val = a
    if kind == "int":
        return ir.AttrInt64(name, val)
    if kind == "ints":
        return ir.AttrInt64s(name, list(val))
    if kind == "float":
        return ir.AttrFloat32(name, val)
    if kind == "floats":
        return ir.AttrFloat32s(name, list(val))
    if kind == "string":
        return ir.AttrString(name, val)
    if kind == "strings":
        return ir.AttrStrings(name, list(val))
    if kind == "tensor":
        return ir.AttrTensor(name, _k2_tensor(val))
    raise ValueError(kind)


def _k2_apply(real, op):
    """`Real.apply` plus two spellings it does not have: a const tensor with chosen content, a node with plain (non
    graph) attributes.  Both are the kernel ops `setConst` / `newNode` (+attrs) for the model."""
    import onnx_ir as ir

    if op["op"] == "setConst" and "tensor" in op:
        t = _k2_tensor(op["tensor"])
        real.tid[id(t)] = len(real.tensors)
        real.tensors.append(t)
        real.vals[op["v"]].const_value = t
        return "ok", "", {"op": "setConst", "v": op["v"]}
    if op["op"] == "newNode" and op.get("plain"):
        ins = [real.V(i) for i in op["inputs"]]
        attrs = [ir.AttrGraph(f"body{j}", real.graphs[gi]) for j, gi in enumerate(op.get("attrGraphs", []))]
        attrs += [_k2_attr(a) for a in op["plain"]]
        n = ir.Node("", op["opType"], ins, attrs, num_outputs=op["numOutputs"], name=op["name"])
        real.attr_graphs.update(op.get("attrGraphs", []))
        real.reg_node(n)
        for o in n.outputs:
            real.reg_val(o)
        mop = {k: v for k, v in op.items() if k != "plain"}
        mop["attrs"] = [[a.name, real.attr_gs(a)] for a in attrs]
        return "ok", "", mop
    return real.apply(op)


def _khist2(r: random.Random, which: str) -> tuple[list, int]:
    """A history over C01's alphabet for the wave-5 kernel programs: repeated nodes (same operator, inputs, attribute
    values) whose outputs are often graph outputs, operators that differ only in an attribute value, non-deterministic
    operators, Constant nodes of every attribute kind and size, If-like nodes with subgraphs holding initializers whose
    names collide with names of the main graph / of each other, initializers with equal / different content, initializers
    that are inputs / outputs / without const value."""
    ops: list = []
    cnt = {"v": 0, "n": 0, "g": 0}
    sub_names = ["w0", "w1", "s_w", "dup", "x0", "w0_1"]

    def value(name, tensor=None):
        ops.append({"op": "newValue", "name": name})
        v = cnt["v"]
        cnt["v"] += 1
        if tensor is not None:
            ops.append({"op": "setConst", "v": v, "tensor": tensor})
        return v

    def node(op_type, inputs, nout=1, graphs=(), plain=(), name=None):
        o = {"op": "newNode", "opType": op_type, "name": name if name is not None else r.choice([None, f"n{cnt['n']}"]),
             "inputs": list(inputs), "numOutputs": nout, "outputs": None, "graph": None}
        if graphs:
            o["attrGraphs"] = list(graphs)
        if plain:
            o["plain"] = [list(a) for a in plain]
        ops.append(o)
        n = cnt["n"]
        cnt["n"] += 1
        outs = list(range(cnt["v"], cnt["v"] + nout))
        cnt["v"] += nout
        return n, outs

    def graph(inputs, outputs, nodes, inits):
        ops.append({"op": "newGraph", "inputs": list(inputs), "outputs": list(outputs), "nodes": list(nodes), "inits": list(inits)})
        g = cnt["g"]
        cnt["g"] += 1
        return g

    def tensor_spec():
        return {"cls": r.choice([1, 1, 2]), "size": r.choice([1, 1, 1, 20]), "name": None}

    def constant(tag):
        kind = r.random()
        if kind < 0.5:
            plain = [("value", "tensor", {"cls": r.choice([1, 2]), "size": r.choice([1, 16, 20]), "name": r.choice([None, None, "@out", "other"])})]
        elif kind < 0.6:
            plain = [("value_ints", "ints", [3] * r.choice([2, 16, 20]))]
        elif kind < 0.67:
            plain = [("value_int", "int", 5)]
        elif kind < 0.74:
            plain = [("value_floats", "floats", [1.5] * r.choice([2, 17]))]
        elif kind < 0.8:
            plain = [("value_float", "float", 2.5)]
        elif kind < 0.85:
            plain = [("value_strings", "strings", ["a"] * r.choice([2, 16]))]
        elif kind < 0.9:
            plain = [("bogus", "int", 1)]
        else:
            plain = [("value", "tensor", {"cls": 1, "size": 20, "name": None}), ("extra", "int", 1)]
        return plain

    def body(depth, outer, tag):
        inputs = [value(f"{tag}x{i}") for i in range(r.randint(0 if depth else 1, 2))]
        names = []
        for i in range(r.randint(0, 4)):
            nm = r.choice(sub_names) if (depth and r.random() < 0.6) else f"{tag}w{i}"
            if nm not in names:
                names.append(nm)
        inits = [value(nm, tensor=tensor_spec()) for nm in names]
        avail = inputs + inits + list(outer)
        if not avail:
            avail = [value(f"{tag}x0")]
            inputs = list(avail)
        local, nodes, made = [], [], []
        for _ in range(r.randint(2, 7)):
            k = r.random()
            src = r.choice(avail + local + local)
            if made and k < 0.3:
                op_type, ins, nout, plain = r.choice(made)  # the same computation again
                n, outs = node(op_type, ins, nout=nout, plain=plain)
            elif k < 0.42:
                op_type, ins, nout, plain = r.choice(["Relu", "Neg", "Identity"]), [src], 1, ()
                n, outs = node(op_type, ins)
            elif k < 0.5:
                op_type, ins, nout, plain = "Add", [src, r.choice(avail + local)], 1, ()
                n, outs = node(op_type, ins)
            elif k < 0.6:
                op_type, ins, nout = "LeakyRelu", [src], 1
                plain = [r.choice([("alpha", "float", 0.5), ("alpha", "float", 0.25), ("alpha", "int", 1), ("alpha", "float", 1.0),
                                   ("t", "tensor", {"cls": r.choice([1, 2]), "size": r.choice([2, 20]), "name": None})])]
                n, outs = node(op_type, ins, plain=plain)
            elif k < 0.66:
                op_type, ins, nout, plain = r.choice(["RandomUniformLike", "Bernoulli"]), [src], 1, ()
                n, outs = node(op_type, ins)
            elif k < 0.72:
                op_type, ins, nout, plain = "Split", [src], 2, ()
                n, outs = node(op_type, ins, nout=2)
            elif k < 0.9 if which == "lc" else k < 0.8:
                op_type, ins, nout, plain = "Constant", [], 1, constant(tag)
                n, outs = node(op_type, ins, plain=plain)
                if r.random() < 0.8:
                    ops.append({"op": "setName", "v": outs[0], "s": r.choice([f"{tag}c{cnt['n']}", f"{tag}c{cnt['n']}", f"{tag}w0", "s_w"])})
            elif depth < 2:
                subs = []
                for bi in range(r.randint(1, 2)):
                    si, so, sn, sw = body(depth + 1, avail + local, f"{tag}b{cnt['g']}_{bi}_")
                    subs.append(graph(si, so, sn, sw))
                op_type, ins, nout, plain = "If", [src], 1, None
                n, outs = node("If", [src], graphs=subs)
            else:
                op_type, ins, nout, plain = "Neg", [src], 1, ()
                n, outs = node(op_type, ins)
            if plain is not None:
                made.append((op_type, ins, nout, plain))
            nodes.append(n)
            local += outs
            if depth == 0 and r.random() < 0.15:
                ops.append({"op": "setName", "v": outs[0], "s": r.choice(["s_w", "dup", "w0_1"])})
        outs = [r.choice(local) for _ in range(r.randint(1, 3))]
        if r.random() < 0.2 and inputs:
            outs.append(r.choice(inputs))
        if r.random() < 0.2 and inits:
            outs.append(r.choice(inits))
        outs = list(dict.fromkeys(outs))
        if r.random() < 0.25:
            outs.append(r.choice(outs))
        return inputs, outs, nodes, inits

    mi, mo, mn, mw = body(0, [], "")
    if mw and r.random() < 0.3:
        mi = mi + r.sample(mw, 1)
    main = graph(mi, mo, mn, mw)
    return ops, main


def _k2_classes():
    table: dict = {}

    def cls(key):
        return table.setdefault(key, len(table))

    return cls


def _k2_akey(real, size_limit: int) -> list:
    """CSE: per node the class of (domain, overload, attribute names / types / values); absent for a node with a graph
    attribute or a tensor attribute larger than the limit.  Written from the documentation of the pass (attributes are
    compared by type and value; floats by bit pattern), not by calling it."""
    import struct

    cls = _k2_classes()
    out = []
    for i, n in enumerate(real.nodes):
        key, skip = [], False
        for k, a in n.attributes.items():
            t = a.type.name
            if t in ("GRAPH", "GRAPHS"):
                skip = True
                break
            v = a.value
            if t == "FLOAT":
                v = struct.pack("<d", v)
            elif t == "FLOATS":
                v = tuple(struct.pack("<d", x) for x in v)
            elif t in ("INTS", "STRINGS"):
                v = tuple(v)
            elif t == "TENSOR":
                if v.size > size_limit:
                    skip = True
                    break
                v = (tuple(v.shape.numpy()), str(v.dtype), v.tobytes())
            key.append((k, t, v))
        if not skip:
            out.append([i, cls((n.domain, n.overload, tuple(sorted(key, key=lambda x: x[0]))))])
    return out


def _k2_tensor_size(node, attr_name, attr) -> int | None:
    """number of elements of the tensor LiftConstants makes from the attribute (None: it cannot)"""
    try:
        if attr_name == "value":
            return attr.as_tensor().size
        if attr_name in ("value_int", "value_float", "value_string"):
            return 1
        if attr_name in ("value_ints", "value_floats", "value_strings"):
            return len(attr.value)
    except Exception:  # noqa: BLE001
        return None
    return None


def kpass2_case(part: Part, reqs: list, seed: int) -> None:
    import onnx_ir as ir
    import onnx_ir.passes.common as cp
    from onnx_ir import _core
    from onnx_ir.passes.common import initializer_deduplication as idp
    from harness import kernel_ops as ko

    r = random.Random(f"kpass2:{seed}")
    which = ["cse", "lc", "lsi", "dd", "ddh", "cse", "lc", "dd"][seed % 8]
    ops, main = _khist2(r, which)
    case = {"kpass2_seed": seed, "pass": which}
    real = ko.Real(model_sort=True)
    _FP_KEEP.append(real)
    mops = []
    for op in ops:
        if op["op"] == "newNode" and op.get("plain"):
            # "@out": the tensor of a Constant carries the name its output is going to get
            for a in op["plain"]:
                if a[1] == "tensor" and a[2].get("name") == "@out":
                    a[2]["name"] = None
        o, kind, mop = _k2_apply(real, op)
        if o != "ok":
            part.count(f"kpass2:history-step-rejected:{op['op']}:{kind}")
            return
        mops.append(mop)
    if which in ("dd", "ddh") and r.random() < 0.25:
        # an initializer without const value (skipped by the pass)
        cands = [i for i, v in enumerate(real.vals) if v.is_initializer() and not v.is_graph_input()]
        if cands:
            v = r.choice(cands)
            o, kind, mop = real.apply({"op": "clearConst", "v": v})
            if o == "ok":
                mops.append(mop)
    if ko.wf_oracle(real):
        part.count("kpass2:hyp-WF=False")  # hypothesis of C14_wf_* / C14_names_initializers / C14_names_cse_outputs: dropped
        return
    part.count("kpass2:hyp-WF=True")
    model = ir.Model(real.graphs[main], ir_version=10)
    extra: dict = {}
    weak = False
    if which == "cse":
        limit = r.choice([10, 10, 1, 100])
        p = cp.CommonSubexpressionEliminationPass(size_limit=limit)
        extra = {"akey": _k2_akey(real, limit), "exact": ko.rauw_many_is_atomic()}
    elif which == "lc":
        lift_all, limit = r.random() < 0.5, r.choice([16, 16, 1, 18])
        p = cp.LiftConstantsToInitializersPass(lift_all_constants=lift_all, size_limit=limit)
        big, tnamed = [], []
        for i, n in enumerate(real.nodes):
            if n.op_type == "Constant" and len(n.attributes) == 1:
                (an, a), = n.attributes.items()
                sz = _k2_tensor_size(n, an, a)
                if sz is not None and sz >= limit:
                    big.append(i)
                if an == "value" and a.type.name == "TENSOR":
                    # the attribute's tensor is called like the output (-> `tnamed`) or has no name: the two spellings
                    # of the kernel program (a third name is outside it)
                    a.value.name = n.outputs[0].name if r.random() < 0.35 else None
                if an != "value" or (a.type.name == "TENSOR" and a.value.name is not None):
                    tnamed.append(i)
        extra = {"liftAll": lift_all, "big": big, "tnamed": tnamed}
    elif which == "lsi":
        p = cp.LiftSubgraphInitializersToMainGraphPass()
    else:
        limit = r.choice([1024, 1024, 10, 1])
        weak = which == "ddh" and r.random() < 0.4
        p = cp.DeduplicateInitializersPass(size_limit=limit) if which == "dd" else cp.DeduplicateHashedInitializersPass(size_limit=limit)
        hcls, tcls = _k2_classes(), _k2_classes()
        hkey, tkey = [], []
        for i, v in enumerate(real.vals):
            cv = v.const_value
            if cv is None:
                continue
            data = cv.tobytes()
            tkey.append([i, tcls(data)])
            if cv.size <= limit:
                dig = (sum(data) % 2) if weak else data
                hkey.append([i, hcls((str(cv.dtype), tuple(cv.shape.numpy()), dig))])
        extra = {"hkey": hkey, "tkey": tkey if which == "ddh" else hkey}
        if which == "dd":
            extra["tkey"] = hkey
    case["variant"] = f"{which}{':weak-hash' if weak else ''}"
    snap0 = real.snapshot()
    names0 = [v.name for v in real.vals]
    nvals0 = len(real.vals)
    raised = None
    created_v: list = []
    created_n: list = []
    orig_ninit, orig_vinit = _core.Node.__init__, _core.Value.__init__

    def _rec_ninit(self, *a, **k):
        orig_ninit(self, *a, **k)
        created_n.append(self)

    def _rec_vinit(self, *a, **k):
        orig_vinit(self, *a, **k)
        created_v.append(self)

    class _WeakHash:
        """sha512 replaced by a 1-bit digest: 'hashes match but values differ' becomes reachable"""

        def __init__(self):
            self.acc = 0

        def update(self, data):
            self.acc += sum(bytes(memoryview(data).cast("B")) if not isinstance(data, (bytes, bytearray)) else data)

        def hexdigest(self):
            return str(self.acc % 2)

    class _FakeHashlib:
        sha512 = _WeakHash

    orig_hashlib = idp.hashlib
    res = None
    try:
        _core.Node.__init__ = _rec_ninit
        _core.Value.__init__ = _rec_vinit
        if weak:
            idp.hashlib = _FakeHashlib
        try:
            res = p(model)
        finally:
            _core.Node.__init__ = orig_ninit
            _core.Value.__init__ = orig_vinit
            idp.hashlib = orig_hashlib
            # objects the pass created get the next ids in creation order (as the kernel's constructors allocate them);
            # a tensor the pass attached to a new value gets the next tensor id
            for v in created_v:
                real.reg_val(v)
            for n in created_n:
                real.reg_node(n)
            for v in created_v:
                t = v.const_value
                if t is not None and id(t) not in real.tid:
                    real.tid[id(t)] = len(real.tensors)
                    real.tensors.append(t)
    except _Timeout:
        raise
    except Exception as e:  # noqa: BLE001
        raised = type(_root_cause(e)).__name__
    snap1 = real.snapshot()
    viol = ko.wf_oracle(real)
    if viol:
        part.fail(f"kpass/{which}/invariant", f"C01's invariant (use-def / producer / ownership / keys / names) broken after the pass"
                  f"{' (which raised ' + raised + ')' if raised else ''}: {viol[0]}", {**case, "violations": viol[:4]})
    d = ko.delta(snap0, snap1)
    changed = any(d[k] for k in d)
    if res is not None and not res.modified and changed:
        part.fail(f"kpass/{which}/modified-false-but-changed", "modified=False but the kernel-visible state changed: "
                  + next(k for k in d if d[k]), case)
    # ---- 'names of kept objects are kept' on the real objects (clauses of C14_names_*)
    if raised is None:
        g = real.graphs[main]
        if which in ("dd", "ddh", "lc"):
            ren = [i for i in range(nvals0) if real.vals[i].name != names0[i]]
            if ren:
                part.fail(f"kpass/{which}/names/renamed", f"the pass renamed value(s) {ren[:4]}: {names0[ren[0]]!r} -> {real.vals[ren[0]].name!r}", case)
        if which == "lsi":
            for i in range(nvals0):
                v = real.vals[i]
                if v.name != names0[i] and not (v.is_initializer() and v._graph is g):
                    part.fail("kpass/lsi/names/renamed", f"a value that was not lifted was renamed: {names0[i]!r} -> {v.name!r}", case)
                    break
        if which == "cse":
            out0 = [names0[i] for i in snap0["graphs"][main]["outputs"]]
            out1 = [o.name for o in g.outputs]
            if out0 != out1:
                part.fail("kpass/cse/names/graph-outputs", f"the names of the graph outputs changed: {out0} -> {out1}", case)
        for gg in real.graphs:
            for k_, v in gg.initializers.items():
                if not v.name or v.name != k_:
                    part.fail(f"kpass/{which}/names/initializer", f"initializer registered under {k_!r} is called {v.name!r}", case)
    if which == "cse" and res is not None:
        # the LINEAR round bound (not proved: the proved bound cseMu+1 is cubic): the number of modifying rounds is at
        # most #nodes of the main graph - 1 (the exact maximum on every forest of <= 6 Identity / Relu nodes, see
        # `cserounds_exhaustive`)
        n0 = len(snap0["graphs"][main]["nodes"])
        mod_rounds, cur = (1 if res.modified else 0), res
        while cur.modified and mod_rounds <= n0 + 2:
            cur = p(model)
            mod_rounds += 1 if cur.modified else 0
        part.count(f"kpass2:cse:modifying-rounds={min(mod_rounds, 4)}")
        if mod_rounds > max(n0 - 1, 0):
            part.fail("kpass/cse/rounds-linear", f"{mod_rounds} modifying rounds of CSE on a main graph of {n0} nodes (linear bound: nodes - 1)", case)
    flag = None if res is None else bool(res.modified)
    reqs.append(({"m": "passinfra.kpass", "ops": mops, "pass": "dd" if which == "ddh" else which, "g": main, "funcs": [], "fuel": 8, **extra},
                 {"d": d, "raised": raised is not None, "flag": flag}, {"model": "kpass", "exc": raised, **case}))
    renamed = sum(1 for i in range(nvals0) if real.vals[i].name != names0[i])
    if which == "cse":
        branch = f"cse:identity-inserted={min(len(created_n), 2)}:renamed={min(renamed, 2)}"
    elif which == "lsi":
        branch = f"lsi:lifted-and-renamed={min(renamed, 3)}"
    elif which == "lc":
        lifted = [v for v in created_v if v.is_initializer()]
        branch = f"lc:lifted={min(len(lifted), 3)}:tensor-named={sum(1 for v in lifted if v.const_value is not None and v.const_value.name == v.name) > 0}"
    else:
        hk, tk = dict(map(tuple, extra["hkey"])), dict(map(tuple, extra["tkey"]))
        coll = any(hk[a] == hk[b] and tk.get(a) != tk.get(b) for a in hk for b in hk if a < b)
        branch = f"{which}:digest-collision={coll}"
    part.case(["kpass2", seed], changed, case if seed % 211 == 0 else None,
              kpass=f"{case['variant']}:{'raised:' + raised if raised else 'changed' if changed else 'unchanged'}",
              kpass2_branch=branch)


# ---- AddDefaultAttributesPass against Model/PassFlags4.lean (`passinfra.adddef`): flag / fixpoint / measure with the ONNX
# schema table as a parameter of the model (read off the installed onnx package here, per case)

_ADDDEF_OPS = [("", "LeakyRelu"), ("", "Gemm"), ("", "Softmax"), ("", "Conv"), ("", "Cast"), ("", "Relu"), ("", "LSTM"),
               ("", "Foo"), ("custom", "LeakyRelu"), ("", "Selu"), ("", "Constant"), ("", "Concat"), ("", "TopK"),
               ("ai.onnx.ml", "Normalizer"), ("", "LogSoftmax"), ("", "If")]


def _adddef_tok():
    import struct

    table: dict = {}

    def tok(a):
        t = a.type.name
        v = a.value
        if t in ("GRAPH", "GRAPHS"):
            key = (t, id(v))
        elif t == "FLOAT":
            key = (t, struct.pack("<d", v))
        elif t == "FLOATS":
            key = (t, tuple(struct.pack("<d", x) for x in v))
        elif t == "TENSOR":
            key = (t, str(v.dtype), tuple(v.shape.numpy()), v.tobytes())
        elif t in ("INTS", "STRINGS"):
            key = (t, tuple(v))
        else:
            key = (t, repr(v))
        return table.setdefault(key, len(table))

    return tok


def _adddef_visit(model):
    import onnx_ir as ir

    out = list(ir.traversal.RecursiveGraphIterator(model.graph))
    for f in model.functions.values():
        out += list(ir.traversal.RecursiveGraphIterator(f))
    return out


def _adddef_build(r: random.Random):
    import numpy as np
    import onnx
    import onnx_ir as ir

    def attrs_for(dom, op, ver):
        """a random subset of the schema's attributes (some with the default value, some with another one) + strangers"""
        out = []
        try:
            sch = onnx.defs.get_schema(op, ver if ver is not None else 18, domain=dom)
            defs = list(sch.attributes.items())
        except Exception:  # noqa: BLE001
            defs = []
        for name, d in defs:
            if r.random() < 0.35:
                t = int(d.type)
                if d.default_value.type != onnx.AttributeProto.UNDEFINED and r.random() < 0.5:
                    out.append(ir.serde.deserialize_attribute(d.default_value))
                elif t == onnx.AttributeProto.FLOAT:
                    out.append(ir.AttrFloat32(name, r.choice([0.5, 1.0, 0.01])))
                elif t == onnx.AttributeProto.INT:
                    out.append(ir.AttrInt64(name, r.choice([0, 1, -1, 7])))
                elif t == onnx.AttributeProto.STRING:
                    out.append(ir.AttrString(name, r.choice(["NOTSET", "forward", "x"])))
                elif t == onnx.AttributeProto.INTS:
                    out.append(ir.AttrInt64s(name, [1, 1]))
                elif t == onnx.AttributeProto.FLOATS:
                    out.append(ir.AttrFloat32s(name, [1.0]))
                elif t == onnx.AttributeProto.STRINGS:
                    out.append(ir.AttrStrings(name, ["Tanh"]))
                elif t == onnx.AttributeProto.TENSOR:
                    out.append(ir.AttrTensor(name, ir.Tensor(np.array([1.0], dtype=np.float32))))
        if r.random() < 0.15:
            out.append(ir.AttrInt64("stranger", 3))
        r.shuffle(out)
        return out

    def nodes(depth, avail, tag):
        ns, local = [], []
        for i in range(r.randint(1, 5)):
            dom, op = r.choice(_ADDDEF_OPS)
            ver = r.choice([None, None, None, 13, 18, 1, 11, 0])
            src = r.choice(avail + local)
            if op == "If":
                if depth >= 2:
                    continue
                branches = []
                for b in ("then_branch", "else_branch"):
                    bn, bo = nodes(depth + 1, avail + local, f"{tag}{i}{b[0]}_")
                    branches.append(ir.AttrGraph(b, ir.Graph([], [bo], nodes=bn, name=f"{tag}{i}{b}")))
                if r.random() < 0.3:
                    branches = branches[:1]  # an If that lacks a required attribute
                n = ir.Node(dom, op, [src], branches, num_outputs=1, version=ver)
            else:
                n = ir.Node(dom, op, [src], attrs_for(dom, op, ver), num_outputs=1, version=ver)
            n.outputs[0].name = f"{tag}v{i}"
            ns.append(n)
            local.append(n.outputs[0])
        if not local:
            n = ir.Node("", "Relu", [r.choice(avail)], num_outputs=1)
            n.outputs[0].name = f"{tag}v_only"
            ns.append(n)
            local.append(n.outputs[0])
        return ns, local[-1]

    x = ir.Value(name="x")
    ns, out = nodes(0, [x], "")
    imports = {}
    if r.random() < 0.9:
        imports[""] = r.choice([13, 18, 21, 6, 11, 1])
    if r.random() < 0.5:
        imports["custom"] = 1
    if r.random() < 0.5:
        imports["ai.onnx.ml"] = r.choice([1, 3])
    g = ir.Graph([x], [out], nodes=ns, opset_imports=imports, name="main")
    funcs = []
    if r.random() < 0.4:
        fx = ir.Value(name="fx")
        fns, fout = nodes(1, [fx], "f_")
        funcs.append(ir.Function("local", "F", graph=ir.Graph([fx], [fout], nodes=fns, opset_imports={"": 18}, name="F"), attributes=[]))
    return ir.Model(g, ir_version=10, functions=funcs)


def adddef_case(part: Part, reqs: list, seed: int) -> None:
    import onnx
    import onnx_ir.passes.common as cp

    r = random.Random(f"adddef:{seed}")
    if seed % 4 == 0:
        try:
            model = build_model(seed, FLAVOURS[(seed // 4) % len(FLAVOURS)])
            source = "c14"
        except Exception as e:  # noqa: BLE001
            part.count("adddef:gen-error:" + type(e).__name__)
            return
    else:
        model = _adddef_build(r)
        source = "schema-ops"
    case = {"adddef_seed": seed, "source": source}
    tok = _adddef_tok()
    imports = dict(model.graph.opset_imports)
    visit0 = _adddef_visit(model)

    def dump():
        return [[[k, tok(a)] for k, a in n.attributes.items()] for n in visit0]

    # ---- the schema table and the measure, read independently of the pass
    table: dict = {}

    def defs_of(n):
        ver = n.version if n.version is not None else imports.get(n.domain)
        if ver is None:
            return None
        key = (n.domain, n.op_type, ver)
        if key not in table:
            try:
                sch = onnx.defs.get_schema(n.op_type, ver, domain=n.domain)
            except onnx.defs.SchemaError:
                table[key] = None
            else:
                import onnx_ir as ir

                defs = []
                for name, d in sch.attributes.items():
                    valid = bool(d.default_value and d.default_value.type != onnx.AttributeProto.UNDEFINED)
                    defs.append({"name": name, "required": bool(d.required),
                                 "default": tok(ir.serde.deserialize_attribute(d.default_value)) if valid else None})
                table[key] = defs
        return table[key]

    def absent():
        c = 0
        for n in visit0:
            for d in defs_of(n) or []:
                if not d["required"] and d["default"] is not None and d["name"] not in n.attributes:
                    c += 1
        return c

    try:
        mu0 = absent()
    except Exception as e:  # noqa: BLE001 - a schema default the deserializer does not take: outside the model
        part.count("adddef:table-error:" + type(e).__name__)
        return
    before = dump()
    node_req = [{"domain": n.domain, "op": n.op_type, "version": n.version, "attrs": [{"k": k, "v": t} for k, t in a]}
                for n, a in zip(visit0, before)]
    req = {"m": "passinfra.adddef", "imports": [{"domain": d, "version": v} for d, v in imports.items()], "nodes": node_req,
           "table": [{"domain": k[0], "op": k[1], "version": k[2], "defs": v} for k, v in table.items() if v is not None]}
    sorted0 = is_sorted(model)
    try:
        res = cp.AddDefaultAttributesPass()(model)
    except _Timeout:
        raise
    except Exception as e:  # noqa: BLE001
        part.fail(f"adddef/raised/{type(_root_cause(e)).__name__}", f"AddDefaultAttributesPass raised: {str(e)[:160]}", case)
        return
    after = dump()
    mu1 = absent()
    visit1 = _adddef_visit(model)
    links = check_links(model)
    try:
        res2 = cp.AddDefaultAttributesPass()(model)
    except _Timeout:
        raise
    except Exception as e:  # noqa: BLE001
        part.fail(f"adddef/second-application-raised/{type(_root_cause(e)).__name__}", f"raised on its own result: {str(e)[:160]}", case)
        return
    after2 = dump()
    # ---- the clauses of C14_flag / fix / measure_add_defaults on the real objects
    if not res.modified and after != before:
        part.fail("adddef/modified-false-but-changed", "modified=False but an attribute dictionary changed", case)
    if res.modified and after == before:
        part.fail("adddef/modified-true-but-unchanged", "modified=True but no attribute dictionary changed", case)
    if bool(res.modified) != (mu0 > 0):
        part.fail("adddef/flag-vs-measure", f"modified={res.modified} but {mu0} optional attribute(s) with a default were absent", case)
    if mu1 != 0:
        part.fail("adddef/default-left", f"{mu1} optional attribute(s) with a valid default are still absent after the pass", case)
    if res2.modified or after2 != after:
        part.fail("adddef/not-idempotent", f"applied to its own result the pass reports modified={res2.modified} / changes it", case)
    if [id(n) for n in visit1] != [id(n) for n in visit0]:
        part.fail("adddef/visit-sequence", "the sequence of visited nodes changed", case)
    if links:
        part.fail("adddef/links", "use-def / ownership links broken after the pass: " + links[0], case)
    if sorted0 and not is_sorted(model):
        part.fail("adddef/order", "a topologically ordered model is no longer ordered", case)
    for a0, a1 in zip(before, after):
        if a1[: len(a0)] != a0:
            part.fail("adddef/existing-attribute-touched", "an attribute the node already had was changed, removed or moved", case)
            break
    obs = {"flag": bool(res.modified), "before": mu0, "after": mu1, "attrs": after, "flag2": bool(res2.modified), "idem": after2 == after}
    reqs.append((req, obs, {"model": "adddef", **case}))
    part.case(["adddef", seed], bool(res.modified), case if seed % 211 == 0 else None,
              adddef=f"{source}:flag={bool(res.modified)}", adddef_absent=min(mu0, 6),
              adddef_skipped=f"noversion={sum(1 for n in visit0 if n.version is None and n.domain not in imports) > 0}:"
                             f"noschema={any(v is None for v in table.values())}")


def cserounds_exhaustive(part: Part, n, chunk: int = 0, chunks: int = 1) -> None:
    """Exhaustive small scope for the linear round bound of CSE (conjecture, no theorem): every ordered forest of `n`
    one-output Identity / Relu nodes over one graph input (node i reads the input or the output of an earlier node), every
    non-empty set of node outputs as graph outputs: the number of modifying rounds is at most n - 1."""
    import itertools

    import onnx_ir as ir
    import onnx_ir.passes.common as cp

    if isinstance(n, (tuple, list)):
        n, chunk, chunks = n
    worst = 0
    for pi, parents in enumerate(itertools.product(*[range(i + 1) for i in range(n)])):
        if pi % chunks != chunk:
            continue
        for opmask in ((0, (1 << n) - 1) if n > 4 else range(1 << n)):
            for mask in range(1, 1 << n):
                x = ir.Value(name="x")
                vals, nodes = [x], []
                for i, pa in enumerate(parents):
                    nd = ir.Node("", "Identity" if not (opmask >> i) & 1 else "Relu", [vals[pa]], num_outputs=1)
                    nd.outputs[0].name = f"y{i}"
                    nodes.append(nd)
                    vals.append(nd.outputs[0])
                g = ir.Graph([x], [vals[i + 1] for i in range(n) if mask >> i & 1], nodes=nodes, opset_imports={"": 18})
                model = ir.Model(g, ir_version=10)
                k = 0
                while k <= n + 1 and cp.CommonSubexpressionEliminationPass()(model).modified:
                    k += 1
                worst = max(worst, k)
                if k > n - 1:
                    part.fail("cserounds/linear-bound", f"{k} modifying rounds on {n} nodes",
                              {"cserounds": n, "parents": list(parents), "ops": opmask, "outputs": mask})
                    return
    part.count(f"cserounds:n={n}:max-modifying-rounds={worst}")
    part.case(["cserounds", n, chunk], True, None, cserounds=f"n={n}:max={worst}")


# =========================================================================== workers / run


class _Part(Part):
    """Part that keeps at most two failing inputs PER SIGNATURE (the shared Part keeps the first ten of a
    worker whatever they are, so a noisy signature could hide every other one)."""

    def fail(self, signature, what, case):
        if sum(1 for f in self["failures"] if f["signature"] == signature) < 2:
            self["failures"].append({"signature": signature, "what": what, "case": case})


def _worker(job):
    kind, items = job
    part, reqs = _Part(), []
    hung: dict = {}
    for it in items:
        _FP_KEEP.clear()
        if hung.get(_nonterm_sig(kind, it), 0) >= 2:
            # this stream already ran into the guard twice in this chunk: do not spend the guard on every further item
            part.count("skipped-after-nontermination:" + _nonterm_sig(kind, it))
            continue
        try:
          with _guard():
              if kind == "infra":
                  obs = run_infra_real(it)
                  infra_oracle(part, it, obs)
                  reqs.append(({"m": "passinfra.run", "p": it}, obs, {"model": "infra", "spec": it}))
              elif kind == "capi":
                  req, obs, fails = run_capi_real(it)
                  for sig, what in fails:
                      part.fail(sig, what, it)
                  reqs.append((req, obs, {"model": "capi", "case": it}))
              elif kind == "pass":
                  seed, flavour, pi = it
                  name, mk = pass_table()[pi]
                  apply_pass_case(part, reqs, seed, flavour, name, mk)
              elif kind == "compose":
                  compose_case(part, reqs, it)
              elif kind == "dce":
                  dce_case(part, reqs, it)
              elif kind == "flags":
                  flags_case(part, reqs, it)
              elif kind == "sortflag":
                  sortflag_case(part, reqs, it)
              elif kind == "flags2":
                  flags2_case(part, reqs, it)
              elif kind == "sorted":
                  sorted_case(part, reqs, it)
              elif kind == "opsets":
                  opsets_case(part, reqs, it)
              elif kind == "unusedfn":
                  unusedfn_case(part, reqs, it)
              elif kind == "namefix":
                  namefix_case(part, reqs, it)
              elif kind == "reuse":
                  reuse_case(part, it)
              elif kind == "funcseq":
                  funcseq_case(part, it)
              elif kind == "boundary":
                  boundary_case(part, *it)
              elif kind == "inline":
                  inline_case(part, reqs, it)
              elif kind == "kpass":
                  kpass_case(part, reqs, it)
              elif kind == "kpass2":
                  kpass2_case(part, reqs, it)
              elif kind == "adddef":
                  adddef_case(part, reqs, it)
              elif kind == "cserounds":
                  cserounds_exhaustive(part, it)
        except _Timeout as e:
            hung[_nonterm_sig(kind, it)] = hung.get(_nonterm_sig(kind, it), 0) + 1
            part.fail(_nonterm_sig(kind, it), f"a call of the implementation did not return ({e}) in stream {kind}", {"item": str(it)[:300], "stream": kind})
        except Exception as e:  # noqa: BLE001 - harness bug: surface it, never hide
            import traceback

            part.disagree(f"harness error in {kind}: {type(e).__name__}: {e}", {"item": str(it)[:300]}, None, traceback.format_exc()[-600:])
    part["reqs"] = reqs
    return part


def _chunks(xs, n):
    k = max(1, (len(xs) + n - 1) // n)
    return [xs[i : i + k] for i in range(0, len(xs), k)]


def _compare(ctx: Ctx, req: dict, obs: dict, info: dict, out: dict) -> None:
    m = info["model"]
    if "err" in out:
        ctx.disagree(f"{m}: driver error {out['err']}", info, out, obs)
        return
    if m == "infra":
        spec = info["spec"]
        ctx.case(spec, True, spec if ctx.evaluations % 400 == 0 else None, infra_outcome=(obs.get("res") or ["ctor-raised"])[0] + ":" + str((obs.get("res") or ["", ""])[1]) if obs.get("ctor") and obs["res"][0] == "raised" else (obs.get("res") or ["ctor-raised"])[0])
        keys = ["ctor"] if not obs.get("ctor") else ["ctor", "res", "log", "inplace"]
        for k in keys:
            if out.get(k) != obs.get(k):
                ctx.disagree(f"infra: {k} differs", spec, {k: out.get(k)}, {k: obs.get(k)})
                break
    elif m == "compose":
        lean = out.get("res")
        ncalls = sum(1 for e in out.get("log", []) if e[0] == 1)
        if lean != obs["res"] or ncalls != obs["ncalls"]:
            ctx.disagree("compose: manager model differs from PassManager on built-in passes", info, {"res": lean, "ncalls": ncalls}, obs)
    elif m == "capi":
        case = info["case"]
        if "calls" not in case:
            case = {**case, "calls": [{"fault": case.get("fault", "none")}]}
        faults = "+".join(c["fault"] for c in case["calls"])
        ctx.case(case, bool(case["inits"]), case if ctx.evaluations % 300 == 0 else None, capi_mode=case["mode"],
                 capi_fault=faults if len(case["calls"]) == 1 else f"seq{len(case['calls'])}", capi_out=obs["out"][0],
                 capi_inits=len(case["inits"]))
        for k in {s["kind"] for s in case["inits"]}:
            ctx.count(f"capi_kind={k}")
        lean_trace = out.get("trace", [])
        if len(lean_trace) != len(obs["trace"]):
            ctx.disagree("capi: number of calls", case, len(lean_trace), len(obs["trace"]))
            return
        for ci, (lt, it) in enumerate(zip(lean_trace, obs["trace"])):
            if lt["out"] != it["out"]:
                ctx.disagree(f"capi: outcome of call {ci} differs", case, lt["out"], it["out"])
                return
            if lt["world"] != it["world"]:
                ctx.disagree(f"capi: world after call {ci} differs", case, lt["world"], it["world"])
                return
        if case["mode"] == "call" and obs["proto"] is not None:
            lp = out.get("proto") or {}
            if [k for k, _t in lp.get("inits", [])] != obs["proto"]["inits"] or lp.get("inputs") != obs["proto"]["inputs"]:
                ctx.disagree("capi: proto handed to the wrapped call differs", case, lp, obs["proto"])
    elif m == "flags2":
        from harness import c05

        base = info["pass"].split(":")[0]
        ctx.count("concrete:flags2")
        ctx.count(f"flags2:{base}:valid={out.get('valid')}")
        if not out.get("valid"):
            return  # C05's transcriptions are for well-formed (SSA, closed, scoped, ordered) models
        lean = {"flag": out.get("flag"), "flag2": out.get("flag2"), "canon2_same": out.get("idem"),
                "sorted": out.get("sorted"), "sorted_after": out.get("sorted_after")}
        impl = {k: obs[k] for k in lean}
        for k in ("before", "after", "w_before", "w_after", "depth_before", "depth_after", "mu_before", "mu_after", "mu_after2"):
            if k in obs:
                lean[k], impl[k] = out.get(k), obs[k]
        if lean != impl:
            ctx.disagree(f"flags2 {info['pass']}: flag / second application / measure differ from the pass", info, lean, impl)
        elif c05.canon(out["model"]) != obs["canon"]:
            ctx.disagree(f"flags2 {info['pass']}: result model differs from the pass at {c05.first_diff(c05.canon(out['model']), obs['canon'])}", info, None, None)
        # hypotheses of the new theorems, evaluated on this case
        if base == "identity":
            ctx.count(f"flags2:identity:hyp-valid-and-identity-without-graphs={bool(out.get('idnb'))}")
            if out.get("idnb") and (obs["flag2"] or not obs["canon2_same"]):
                # C14_fix_identity on the real objects
                ctx.fail("flags2/identity/not-idempotent", "well-formed model: applied to its own result the pass reports True / changes it", info)
        if base == "cse" and ("cse_mu" in info or "cse_mu2" in info):
            # C14_measure_cse on the real objects: a modifying round on a well-formed model (this branch: `valid`) must
            # lower cseMu = W*(W*W+1) + (W*W - depth)
            ctx.fail("flags2/cse/mu-not-decreasing", f"modified=True on a well-formed model but cseMu went {info.get('cse_mu') or info.get('cse_mu2')}", info)
        if base == "cse" and out.get("flag"):
            ctx.count(f"flags2:cse:all-rewrites-stalled={out.get('stalled') == out.get('count')}")
            if not out.get("mu_after") < out.get("mu_before") or (out.get("flag2") and not out.get("mu_after2") < out.get("mu_after")):
                ctx.disagree("flags2 cse: the model's cseMu did not drop in a modifying round (C14_measure_cse says it must)", info, [out.get("mu_before"), out.get("mu_after"), out.get("mu_after2")], None)
            ctx.count(f"flags2:cse:hyp-no-identity-inserted={out.get('inserted') == 0}")
            ctx.count(f"flags2:cse:hyp-no-stalled-identity={out.get('stalled') == 0}")
            if out.get("stalled") == 0 and not out.get("w_after") < out.get("w_before"):
                ctx.disagree("flags2 cse: the model's weight did not drop although the flag is up and nothing stalled", info, out.get("w_before"), out.get("w_after"))
        if out.get("flag") and not out.get("after") < out.get("before") and not (base == "cse" and out.get("inserted")):
            ctx.disagree(f"flags2 {info['pass']}: the model's measure did not drop although the flag is up", info, out.get("before"), out.get("after"))
        ctx.count(f"flags2:{base}:sorted-stays-sorted={(not out.get('sorted')) or bool(out.get('sorted_after'))}")
    elif m == "inline":
        from harness import c05

        ctx.count("concrete:inline")
        ctx.count(f"inline:hyp-validF={out.get('valid')}")
        ctx.count(f"inline:hyp-funcIdsNodup={out.get('nodup')}")
        ctx.count(f"inline:hyp-not-stuck={not out.get('stuck')}")
        if obs["raised"]:
            # the real pass raised: the model must predict it (`raised`: a call does not supply a function input that the
            # function returns) or the model must be outside validF (the hypothesis of C14_inline_valid)
            if out.get("raised"):
                ctx.count("inline:raise-predicted:" + obs["exc"])
            elif out.get("valid"):
                ctx.disagree(f"InlinePass raised {obs['exc']} on a model that satisfies validF and for which the model of the pass predicts no raise", info, {"valid": True, "raised": False}, "raised")
            else:
                ctx.count("inline:raised-on-invalid:" + obs["exc"])
            return
        if out.get("raised"):
            ctx.disagree("inline: the model of the pass predicts a raise but the real pass returned", info, "raised", "returned")
            return
        if not out.get("valid"):
            ctx.count("inline:skipped-not-validF")
            return  # C05's transcription is for validF models (the theorems C14_*_inline need less, C14_inline_valid needs it)
        ctx.count("inline:under-C14_inline_valid")
        if not out.get("runok") or not out.get("run_is_model"):
            ctx.disagree("inline: validF and no raise, but the model fell back to the unchanged model (C05_inline_total says it cannot)", info, {k: out.get(k) for k in ("runok", "stuck", "run_is_model")}, None)
        lean = {k: out.get(k) for k in ("flag", "before", "after", "flag2", "idem")}
        impl = {k: obs[k] for k in lean}
        if lean != impl:
            ctx.disagree("inline: flag / #accepted calls before and after / second application differ from InlinePass", info, lean, impl)
        elif c05.fcanon(out["model"], False) != obs["canon"]:
            ctx.disagree("inline: result model differs from InlinePass at " + str(c05.first_diff(c05.fcanon(out["model"], False), obs["canon"])), info, None, None)
        # the clauses of C14_inline_valid / C14_flag_inline / C14_measure_inline / C14_fix_inline on the model's own numbers
        if out.get("after") != 0 or out.get("after_run") != 0 or (out.get("flag") and not out.get("after") < out.get("before")) or out.get("flag2") or not out.get("idem") or out.get("stuck2"):
            ctx.disagree("inline: the model contradicts its theorems (measure 0 after a run, strict decrease, second application False and unchanged)", info, {k: out.get(k) for k in ("flag", "before", "after", "after_run", "flag2", "idem", "stuck2")}, None)
        ctx.count(f"inline:sorted-stays-sorted={(not obs['sorted']) or obs['sorted_after']}")
        if obs["sorted"] and not obs["sorted_after"]:
            ctx.fail("inline/order", "a topologically ordered model is no longer ordered after InlinePass", info)
    elif m == "kpass":
        ctx.count("concrete:kpass")
        if out.get("raised") != obs["raised"]:
            ctx.disagree(f"kpass {info['pass']}: the kernel program {'raises' if out.get('raised') else 'returns'} but the real pass {'raised ' + str(info.get('exc')) if obs['raised'] else 'returned'}", info, out.get("raised"), obs["raised"])
        elif out.get("d") != obs["d"]:
            what = next((k for k in obs["d"] if out.get("d", {}).get(k) != obs["d"][k]), "?")
            ctx.disagree(f"kpass {info['pass']}: the world after the kernel program differs from the real objects after the pass in {what}", info, _short_json(out.get("d", {}).get(what)), _short_json(obs["d"].get(what)))
        if "flag" in obs and not obs["raised"] and not out.get("raised") and out.get("flag") != obs["flag"]:
            ctx.disagree(f"kpass {info['pass']}: the kernel program's modified flag differs from the real pass's", info, out.get("flag"), obs["flag"])
        if out.get("flag") is False and not out.get("raised") and (out.get("calls") or any(out.get("d", {}).get(k) for k in out.get("d", {}))):
            ctx.disagree("kpass: the kernel program returns modified=False after issuing calls / changing the world (C14_flag_kernel says it cannot)", info, {k: out.get(k) for k in ("flag", "calls")}, None)
        if not out.get("replay_same") or not out.get("late"):
            ctx.disagree("kpass: the program's world is not the replay of its calls / a late check failed (C14_wf_* say it cannot)", info, {k: out.get(k) for k in ("replay_same", "late")}, None)
        ctx.count(f"kpass:{info['pass']}:calls={min(out.get('calls', 0), 6)}")
    elif m == "namefix":
        ctx.count("concrete:namefix")
        model = {k: out.get(k) for k in ("vnames", "nnames", "dicts", "initOf", "modified", "raised")}
        impl = dict(obs)
        if obs["raised"]:
            model["modified"] = impl["modified"] = None
        if model != impl:
            ctx.disagree("namefix: names.fix (C15's model of the pass) differs from NameFixPass", info, model, impl)
        wf = bool(out.get("scoped") and out.get("disjoint") and out.get("closed") and out.get("nodup"))
        ctx.count(f"namefix:hyp-PassWF={wf}")
        snd = info.get("second")
        if wf and not obs["raised"] and snd is not None and (snd["modified"] is not False or not snd["same"]):
            # C14_fix_namefix on the real objects (hypothesis evaluated by the driver)
            ctx.fail("pass/NameFix/not-idempotent/spec", f"well-formed model: the second application gives {snd}", info)
    else:
        ctx.count(f"concrete:{m}")
        if m == "flags" and "ssa" in out:
            ctx.count(f"flags:dedup:hyp-ssa={out['ssa']}")
        keys = [k for k in obs]
        if any(out.get(k) != obs[k] for k in keys):
            ctx.disagree(f"{m}: model differs from the pass", info, {k: out.get(k) for k in keys}, obs)


def _short_json(x, n: int = 600) -> str:
    t = json.dumps(x, separators=(",", ":"), default=str)
    return t if len(t) <= n else t[:n] + "..."


def _resolve_fault(reqs_obs: list) -> None:
    """Faults on a tensor ATTRIBUTE are given to the model as the index of the primitive step that raises;
    the index is read off the model's own (fault-free) step log for the same graph.  (The world before
    every call of a sequence is the same - that is the property - so one dry run per request suffices.)"""
    pending = [r for r, _o, _c in reqs_obs if r.get("m") == "passinfra.capi" and any(c.get("fault_on") for c in r["seq"])]
    if not pending:
        return
    dry = lean_batch_parallel(
        [{**r, "mode": "call", "seq": [{"fault": None, "ser_fail": False, "func_ok": True}]} for r in pending]
    )
    for r, d in zip(pending, dry):
        for c in r["seq"]:
            if c.get("fault_on"):
                k = next((j for j, p in enumerate(d.get("prims", [])) if p == c["fault_on"]), None)
                c["fault"] = [k, False] if k is not None else None
                if k is None:
                    r["unresolved"] = True


def run(ctx: Ctx) -> None:
    ctx.rule = (
        "a case is one (pass tree | call_onnx_api configuration x fault | generated model x pass | composition | "
        "boundary fault); non-trivial = the pass changed the serialized model / the configuration has "
        "initializers / any scripted tree; distinct by canonical case"
    )
    rng = ctx.rng
    jobs = []
    # corpus first
    for obj in load_corpus("C14"):
        replay(ctx, obj, _count=False)
    # A
    specs = []
    for i in range(ctx.pick(6000, 60000)):
        counter = [0]
        specs.append(gen_tree(rng, 0, counter, wild=i % 3 != 0))
    jobs += [("infra", c) for c in _chunks(specs, 16)]
    # mgrloop direct
    loop_reqs = []
    for _ in range(ctx.pick(600, 6000)):
        rounds = [{"mod": rng.random() < 0.6, "raise": rng.random() < 0.08} for _ in range(rng.randint(0, 6))]
        loop_reqs.append({"m": "passinfra.mgrloop", "rounds": rounds, "es": rng.random() < 0.6, "steps": rng.randint(0, 7)})
    # B
    capi = [gen_capi_case(rng) for _ in range(ctx.pick(4000, 40000))]
    # exhaustive small scope: one initializer of every kind x shape/type preset x is_input x fault x mode
    one_kinds = ["small", "big", "tiny", "none", "lazy_small", "lazy_big", "lazybad_small", "lazybad_big",
                 "f996", "f1000", "f1004", "u999", "u1000", "u1001", "u0"]
    one_faults = [{"fault": f} for f in ["none", "func", "ser", "deser", "attr_shape", "attr_dtype"]] + [
        {"fault": "prim", "k": k, "after": af} for k in range(5) for af in (False, True)
    ]
    par = 0
    for kind in one_kinds:
        for hs in (False, True):
            for ii in (False, True):
                for call in one_faults:
                    for mode in ["call", "checker", "shape"]:
                        par += 1
                        capi.append({"inits": [{"name": "w0", "kind": kind, "has_shape": hs, "has_type": hs, "is_input": ii,
                                                "tname": ["same", "other", "none"][par % 3]}],
                                     "calls": [dict(call)], "target": 0, "mode": mode, "n_inputs": 1})
    ctx.exhaustive_scopes.append(
        "call_onnx_api: one initializer of each of 15 kinds (incl. sizes 996/999/1000/1001/1004 bytes around the limit) x "
        "shape/type preset x already-input x {no fault, call raises, serialization raises, deserialization raises, "
        "tensor.shape raises, tensor.dtype raises, every strip step 0..4 raising before / after its effect} x 3 entry points"
    )
    jobs += [("capi", c) for c in _chunks(capi, 16)]
    # C
    npass = len(pass_table())
    items = []
    nmodels = ctx.pick(240, 2400)
    for k in range(nmodels):
        seed = rng.randrange(10**9)
        flavour = FLAVOURS[k % len(FLAVOURS)]
        for pi in range(npass):
            items.append((seed, flavour, pi))
    rng.shuffle(items)
    jobs += [("pass", c) for c in _chunks(items, 64)]
    jobs += [("compose", c) for c in _chunks([rng.randrange(10**9) for _ in range(ctx.pick(800, 8000))], 8)]
    jobs += [("reuse", c) for c in _chunks([rng.randrange(10**9) for _ in range(ctx.pick(48, 480))], 2)]
    jobs += [("funcseq", c) for c in _chunks([rng.randrange(10**9) for _ in range(ctx.pick(600, 6000))], 16)]
    jobs += [("flags", c) for c in _chunks([rng.randrange(10**9) for _ in range(ctx.pick(300, 3000))], 8)]
    jobs += [("sortflag", c) for c in _chunks([rng.randrange(10**9) for _ in range(ctx.pick(300, 3000))], 8)]
    jobs += [("dce", c) for c in _chunks([rng.randrange(10**9) for _ in range(ctx.pick(1500, 15000))], 8)]
    # G (deepening round): flag + result of IdentityElimination / CSE / LiftSubgraphInitializers / OutputFix on C05's
    # models, RemoveUnusedOpsets / RemoveUnusedFunctions on their transcriptions, NameFix on C15's model
    jobs += [("flags2", c) for c in _chunks([rng.randrange(10**9) for _ in range(ctx.pick(400, 4000))], 16)]
    jobs += [("sorted", c) for c in _chunks([rng.randrange(10**9) for _ in range(ctx.pick(400, 4000))], 8)]
    jobs += [("opsets", c) for c in _chunks([rng.randrange(10**9) for _ in range(ctx.pick(300, 3000))], 8)]
    jobs += [("unusedfn", c) for c in _chunks([rng.randrange(10**9) for _ in range(ctx.pick(300, 3000))], 8)]
    jobs += [("namefix", c) for c in _chunks([rng.randrange(10**9) for _ in range(ctx.pick(600, 6000))], 8)]
    # H (second deepening round): InlinePass on C05's model + flag / measure; RemoveUnusedNodes / IdentityElimination as
    # programs over C01's kernel
    jobs += [("inline", c) for c in _chunks([rng.randrange(10**9) for _ in range(ctx.pick(700, 7000))], 16)]
    jobs += [("kpass", c) for c in _chunks([rng.randrange(10**9) for _ in range(ctx.pick(700, 7000))], 16)]
    # I (wave 5): CSE / LiftConstants / LiftSubgraphInitializers / Deduplicate(Hashed) as kernel programs
    jobs += [("kpass2", c) for c in _chunks([rng.randrange(10**9) for _ in range(ctx.pick(900, 9000))], 16)]
    jobs += [("adddef", c) for c in _chunks([rng.randrange(10**9) for _ in range(ctx.pick(600, 6000))], 16)]
    jobs += [("cserounds", [(n, c, 8 if n >= 6 else 1)]) for n in range(1, ctx.pick(5, 6) + 1) for c in range(8 if n >= 6 else 1)]
    ctx.exhaustive_scopes.append(
        f"CSE linear round bound (conjecture, not a theorem): every ordered forest of <= {ctx.pick(5, 6)} one-output Identity/Relu nodes "
        "(all op assignments up to 4 nodes, all-Identity and all-Relu above) x every non-empty set of graph outputs: modifying rounds <= nodes - 1")
    # D: every pass x {ok, lazy tensor raises, serialization raises, call raises}
    bitems = []
    for _ in range(ctx.pick(150, 1500)):
        seed = rng.randrange(10**9)
        for which in ("Checker", "ShapeInference"):
            for fault in ("none", "lazy", "ser", "call"):
                bitems.append((seed, which, fault))
    ctx.exhaustive_scopes.append("ONNX boundary: {CheckerPass, ShapeInferencePass} x {no fault, lazy tensor raises in serialization, serialize_model raises, wrapped ONNX call raises} on every boundary model")
    jobs += [("boundary", c) for c in _chunks(bitems, 8)]

    parts = pmap(_worker, jobs)
    reqs_obs = []
    per_sig: dict = {}
    for part in parts:
        reqs_obs += part.pop("reqs")
        # one failing input per signature reaches the context (it keeps 50 in total): every distinct
        # signature is reported and matched against the known findings
        keep = []
        for f in part["failures"]:
            if per_sig.get(f["signature"], 0) < 1:
                per_sig[f["signature"]] = per_sig.get(f["signature"], 0) + 1
                keep.append(f)
        part["failures"] = keep
        ctx.merge(part)
    ctx.extra["failing_signatures"] = len(per_sig)
    _resolve_fault(reqs_obs)
    outs = lean_batch_parallel([r for r, _o, _c in reqs_obs] + loop_reqs)
    for (req, obs, info), out in zip(reqs_obs, outs):
        if req.get("unresolved"):
            ctx.count("capi:fault-step-not-reached")
            continue
        _compare(ctx, req, obs, info, out)
    # mgrloop against a direct Python reading of PassManager.call over scripted rounds
    for req, out in zip(loop_reqs, outs[len(reqs_obs):]):
        try:
            with _guard():
                exp = _mgrloop_real(req)
        except _Timeout as e:
            ctx.fail("nontermination:mgrloop", f"PassManager.call did not return ({e})", req)
            break
        ctx.case(req, True, None, mgrloop="1")
        if out != exp:
            ctx.disagree("mgrloop: differs from PassManager.call", req, out, exp)


def _mgrloop_real(req: dict) -> dict:
    """PassManager.call itself, with a single scripted in-place step per round."""
    import onnx_ir as ir

    P = ir.passes
    state = {"k": 0}
    flags = []

    class Step(P.InPlacePass):
        def call(self, model):
            k = state["k"]
            state["k"] += 1
            rd = req["rounds"][k] if k < len(req["rounds"]) else {"mod": False, "raise": False}
            if rd["raise"]:
                raise RuntimeError("scripted")
            flags.append(rd["mod"])
            return P.PassResult(model, rd["mod"])

    mgr = P.PassManager([Step()], steps=req["steps"], early_stop=req["es"])
    m = _tiny_model()
    try:
        r = mgr.call(m)
        res = ["ok", 0 if r.model is m else 1, bool(r.modified)]
    except Exception as e:  # noqa: BLE001
        res = ["raised", _exc_name(e)]
    return {"flags": flags, "res": res, "rounds": state["k"]}


def replay(ctx: Ctx, obj: dict, _count: bool = True) -> None:
    """Re-run one recorded case (a replay file written by a violation, or a corpus line)."""
    case = obj.get("case", obj)
    part, reqs = _Part(), []
    try:
        with _guard():
            done = _replay_one(ctx, case, part, reqs)
    except _Timeout as e:
        part.fail("nontermination:replay", f"a call of the implementation did not return ({e}) while replaying", {"case": str(case)[:300]})
        done = True
    if not done:
        run(ctx)
        return
    ctx.merge(part)
    _resolve_fault(reqs)
    outs = lean_batch_parallel([r for r, _o, _c in reqs]) if reqs else []
    for (req, obs, info), out in zip(reqs, outs):
        if not req.get("unresolved"):
            _compare(ctx, req, obs, info, out)


def _replay_one(ctx: Ctx, case, part, reqs) -> bool:
    if isinstance(case, dict) and "inline_seed" in case:
        inline_case(part, reqs, case["inline_seed"])
    elif isinstance(case, dict) and "kpass_seed" in case:
        kpass_case(part, reqs, case["kpass_seed"])
    elif isinstance(case, dict) and "kpass2_seed" in case:
        kpass2_case(part, reqs, case["kpass2_seed"])
    elif isinstance(case, dict) and "adddef_seed" in case:
        adddef_case(part, reqs, case["adddef_seed"])
    elif isinstance(case, dict) and "pass" in case and "seed" in case and "fault" not in case:
        table = dict(pass_table())
        apply_pass_case(part, reqs, case["seed"], case.get("flavour", "plain"), case["pass"], table[case["pass"]])
    elif isinstance(case, dict) and "compose" in case:
        compose_case(part, reqs, case["seed"])
    elif isinstance(case, dict) and "reuse_seed" in case:
        reuse_case(part, case["reuse_seed"])
    elif isinstance(case, dict) and "funcseq_seed" in case:
        funcseq_case(part, case["funcseq_seed"])
    elif isinstance(case, dict) and "flags2_seed" in case:
        flags2_case(part, reqs, case["flags2_seed"])
    elif isinstance(case, dict) and "sorted_seed" in case:
        sorted_case(part, reqs, case["sorted_seed"])
    elif isinstance(case, dict) and "opsets_seed" in case:
        opsets_case(part, reqs, case["opsets_seed"])
    elif isinstance(case, dict) and "unusedfn_seed" in case:
        unusedfn_case(part, reqs, case["unusedfn_seed"])
    elif isinstance(case, dict) and "namefix_seed" in case:
        namefix_case(part, reqs, case["namefix_seed"])
    elif isinstance(case, dict) and "inits" in case:
        req, obs, fails = run_capi_real(case)
        for sig, what in fails:
            part.fail(sig, what, case)
        reqs.append((req, obs, {"model": "capi", "case": case}))
    elif isinstance(case, dict) and case.get("pass") in ("Checker", "ShapeInference"):
        boundary_case(part, case["seed"], case["pass"], case["fault"])
    elif isinstance(case, dict) and "k" in case:
        obs = run_infra_real(case)
        infra_oracle(part, case, obs)
        reqs.append(({"m": "passinfra.run", "p": case}, obs, {"model": "infra", "spec": case}))
    else:
        return False
    return True

"""C02 bridge (Lean: Model/ScopeSerdeBridge.lean, Lemmas/ScopeSerdeBridge*.lean; theorems C03_bridge_*).

For the GraphProto written by to_proto on a C03 case:
  * it is rendered in C02's proto JSON (harness/c02.py r_graph) and sent to the driver op `bridge.graph`, which returns
    `absG` of it (the Scope model's GraphP), the decidable fragments `shared` / `sharedS`, `GOK` of C02's IR and the
    evaluated conclusions of the bridge theorems (des_agree / ser_agree / norm_agree);
  * `absG` is compared with the C03 harness's OWN abstraction of the same real proto (serde_common.graph_proto_to_model)
    up to a renaming of the opaque tokens (one bijection per token kind): the two harnesses feed their models the same
    thing, so the differential of C02 and of C03 tie ONE real serializer to the two models the bridge identifies;
  * inside the fragments the evaluated conclusions must hold (they are theorems: a false one is a defect of the check).
"""
from __future__ import annotations

from . import serde_common as sc


def bridge_request(graph_proto, ir_version=None):
    """the driver request for a GraphProto, or None when C02's proto JSON cannot represent it"""
    from . import c02

    try:
        req = {"m": "bridge.graph", "x": c02.r_graph(graph_proto)}
        if ir_version is not None:
            req["ver"] = ir_version
        return req
    except c02.Unsupported:
        return None
    except RecursionError:
        return None


def model_request(model_proto):
    """the driver request `bridge.model` for a ModelProto, or None when C02's proto JSON cannot represent it"""
    from . import c02

    try:
        return {"m": "bridge.model", "x": c02.r_model(model_proto)}
    except c02.Unsupported:
        return None
    except RecursionError:
        return None


def _has_subgraph(gp: dict) -> bool:
    return any(n["g"] for n in gp["nodes"])


def _flat(gp: dict) -> dict:
    """the abstraction `absG` makes: nested graphs are dropped (the partial bridge is about graphs without them)"""
    return {**gp, "nodes": [{"i": n["i"], "o": n["o"], "g": []} for n in gp["nodes"]]}


def _first_diff(a, b, path="") -> str:
    """path of the first difference of two JSON values"""
    if type(a) is not type(b):
        return f"{path}: {a!r:.40} / {b!r:.40}"
    if isinstance(a, dict):
        for k in sorted(set(a) | set(b)):
            if a.get(k) != b.get(k):
                return _first_diff(a.get(k), b.get(k), f"{path}.{k}")
    elif isinstance(a, list):
        if len(a) != len(b):
            return f"{path}: lengths {len(a)} / {len(b)}"
        for i, (x, y) in enumerate(zip(a, b)):
            if x != y:
                return _first_diff(x, y, f"{path}[{i}]")
    return f"{path}: {a!r:.40} / {b!r:.40}"


class _Bij:
    def __init__(self):
        self.f: dict = {}
        self.g: dict = {}

    def ok(self, a, b) -> bool:
        if a is None or b is None:
            return a is None and b is None
        if self.f.setdefault(a, b) != b:
            return False
        return self.g.setdefault(b, a) == a


def same_up_to_tokens(own: dict, abs_: dict, with_doc: bool, bij=None, path="") -> str | None:
    """None when the two GraphP JSONs (nested graphs included) are equal up to one bijection per token kind
    (type, shape, doc, payload); the bijections are shared by all nested graphs"""
    ty, sh, doc, data = bij or (_Bij(), _Bij(), _Bij(), _Bij())

    def infos(k):
        a, b = own[k], abs_[k]
        if [x[0] for x in a] != [x[0] for x in b]:
            return f"{path}{k}: names differ"
        for (n, i), (_, j) in zip(a, b):
            if not ty.ok(i[0], j[0]):
                return f"{path}{k}[{n}]: type tokens not in bijection"
            if not sh.ok(i[1], j[1]):
                return f"{path}{k}[{n}]: shape tokens not in bijection"
            if with_doc and not doc.ok(i[2], j[2]):
                return f"{path}{k}[{n}]: doc tokens not in bijection"
        return None

    a, b = own["inits"], abs_["inits"]
    if [x[0] for x in a] != [x[0] for x in b]:
        return f"{path}inits: names differ"
    for x, y in zip(a, b):
        if not data.ok(x[1], y[1]):
            return f"{path}inits[{x[0]}]: payload tokens not in bijection"
        if not ty.ok(x[2], y[2]):
            return f"{path}inits[{x[0]}]: dtype tokens not in bijection"
        if not sh.ok(x[3], y[3]):
            return f"{path}inits[{x[0]}]: dims tokens not in bijection"
    for k in ("inputs", "vinfo", "outputs"):
        r = infos(k)
        if r:
            return r
    if len(own["nodes"]) != len(abs_["nodes"]):
        return f"{path}nodes: count differs"
    for i, (m, n) in enumerate(zip(own["nodes"], abs_["nodes"])):
        if m["i"] != n["i"] or m["o"] != n["o"]:
            return f"{path}nodes[{i}]: input / output names differ"
        if len(m["g"]) != len(n["g"]):
            return f"{path}nodes[{i}]: number of nested graphs differs"
        for k, (g1, g2) in enumerate(zip(m["g"], n["g"])):
            r = same_up_to_tokens(g1, g2, with_doc, (ty, sh, doc, data), f"{path}nodes[{i}].g[{k}].")
            if r:
                return r
    return None


def diff_bridge(part, out: dict, case, p1, p3=None) -> None:
    if "err" in out and "shared" not in out:
        part.count("bridge_driver_rejects=" + str(out["err"])[:40])
        return
    no_sub = bool(out["no_sub"])
    part.count(f"hyp_bridge_shared_partial={bool(out['shared'])}")     # fragment of the _partial theorems (no nested graphs)
    part.count(f"hyp_bridge_sharedS_partial={bool(out['sharedS'])}")
    shared, shared_s = bool(out["shared_full"]), bool(out["sharedS_full"])
    part.count(f"hyp_bridge_shared={shared}")                          # sharedFull = C02's wfGraph
    part.count(f"hyp_bridge_sharedS={shared_s}")
    part.count(f"bridge_no_subgraph={no_sub}")
    part.count(f"bridge_c02={out['c02']},scope={out['scope']}")
    for k in ("gok", "des_agree", "ser_agree", "norm_agree"):
        part.count(f"bridge_{k}={out[k]}")
    if out["shared"] and not (shared and no_sub) or out["sharedS"] and not shared_s:
        part.disagree("bridge: the fragment of the partial bridge is not inside the fragment of the full one", case,
                      [out["shared"], out["sharedS"]], [shared, shared_s])
    # the theorems, evaluated (on graphs without nested graphs the full statements are the _partial ones:
    # absGFull_eq_absG, absIRFull_eq_absIR, GOKFull_eq_GOK)
    if shared and out["des_agree"] is not True:
        part.disagree("bridge: instance of C03_bridge_deserialize evaluates to false", case, out["des_agree"], True)
    if shared_s:
        for k, thm in (("gok", "C03_bridge_gok_full"), ("ser_agree", "C03_bridge_serialize"),
                       ("norm_agree", "C03_bridge_serde")):
            if out[k] is not True:
                part.disagree(f"bridge: instance of {thm} evaluates to false", case, out[k], True)
    if out["gok"] is True and out["des_agree"] is True and out["ser_agree"] is False:
        part.disagree("bridge: GOKFull holds and the worlds agree but the serializations differ "
                      "(C03_bridge_serialize)", case, out["ser_agree"], True)
    # C02's model on this generator: serGraph (desGraph p1.graph) against to_proto(from_proto(p1)).graph
    if p3 is not None:
        from . import c02

        try:
            real = c02.r_graph(p3.graph)
        except (c02.Unsupported, RecursionError):
            real = None
        if real is not None:
            if out.get("c02_ser") is None:
                part.count("bridge_c02_model_raises_real_returns" + (",shared" if shared else ""))
                if shared:
                    part.disagree("bridge: C02's model raises on a graph of the fragment that from_proto / to_proto accept",
                                  case, "raised", "ok")
            elif out["c02_ser"] == real:
                part.count("bridge_c02_model_vs_real=True")
            else:
                part.count("bridge_c02_model_vs_real=False" + (",shared" if shared else ""))
                if shared:
                    part.disagree("bridge: C02's model of to_proto(from_proto(p)) differs from the real one on a graph of "
                                  "the fragment: " + _first_diff(out["c02_ser"], real)[:120], case, out["c02_ser"], real)
    # the tie: absG of C02's encoding = the C03 harness's abstraction of the same real proto
    try:
        flags: dict = {}
        own = sc.graph_proto_to_model(p1.graph, flags)
    except sc.OutsideModel as e:
        part.count(f"bridge_own_abstraction_outside={e.args[0][:30]}")
        return
    except RecursionError:
        return
    with_doc = not flags.get("vinfo_metadata")
    if flags.get("shape_only"):
        # a ValueInfoProto with a shape but no element type: C03's abstraction keeps the shape token, serde.py's
        # deserialize_type_proto_for_type yields no type (C02: tyOf = none, shOf = some) - comparable, counted
        part.count("bridge_shape_only_entries")
    why = same_up_to_tokens(own, out["abs"], with_doc)
    if why is None:
        part.count("bridge_abstractions_agree=True" + ("" if with_doc else ",doc_skipped"))
    else:
        part.count("bridge_abstractions_agree=False")
        part.disagree("bridge: absG of the C02 encoding differs from the C03 abstraction of the same proto: " + why,
                      case, out["abs"], own)


def diff_bridge_model(part, out: dict, case, p1, p3=None) -> None:
    """`bridge.model`: the bridge for the whole ModelProto (main graph + functions): theorems C03_bridge_*_model with the
    fragment sharedM = C02's wfModel at IR version >= 10, C03_bridge_*_model9 (experimental function value-info format,
    deserializeM9 / serializeM9 true) with sharedM9 = wfModel + no experimental entry with an empty value name below it"""
    if "err" in out and "shared" not in out:
        part.count("bridge_model_driver_rejects=" + str(out["err"])[:40])
        return
    shared, shared_s = bool(out["shared"]), bool(out["sharedS"])
    nf = len(p1.functions)
    tag = ",functions" if nf else ""
    tag += "" if p1.ir_version >= 10 else ",ir<10"
    part.count(f"hyp_bridge_model_shared={shared}{tag}")
    part.count(f"hyp_bridge_model_sharedS={shared_s}{tag}")
    part.count(f"bridge_model_c02={out['c02']},scope={out['scope']}")
    for k in ("gok", "des_agree", "ser_agree", "norm_agree"):
        part.count(f"bridge_model_{k}={out[k]}" + ("" if p1.ir_version >= 10 else ",ir<10"))
    sfx = "" if p1.ir_version >= 10 else "9"   # below IR version 10: deserializeM9 / serializeM9 true, C03_bridge_*_model9
    if shared and out["des_agree"] is not True:
        part.disagree(f"bridge: instance of C03_bridge_deserialize_model{sfx} evaluates to false", case, out["des_agree"], True)
    if shared_s:
        for k, thm in (("gok", "C03_bridge_gok_model"), ("ser_agree", "C03_bridge_serialize_model"),
                       ("norm_agree", "C03_bridge_serde_model")):
            if out[k] is not True:
                part.disagree(f"bridge: instance of {thm}{sfx} evaluates to false", case, out[k], True)
    if out["gok"] is True and out["des_agree"] is True and out["ser_agree"] is False:
        part.disagree("bridge: GOKM holds and the worlds agree but the serializations differ "
                      "(C03_bridge_serialize_model)", case, out["ser_agree"], True)
    # C02's model of to_proto(from_proto(p1)) against the real one, whole model (IR < 10 format included)
    if p3 is not None:
        from . import c02

        try:
            real = c02.r_model(p3)
        except (c02.Unsupported, RecursionError):
            real = None
        if real is not None:
            if out.get("c02_ser") is None:
                part.count("bridge_model_c02_raises_real_returns" + (",shared" if shared else ""))
                if shared:
                    part.disagree("bridge: C02's model raises on a model of the fragment that from_proto / to_proto accept",
                                  case, "raised", "ok")
            elif out["c02_ser"] == real:
                part.count("bridge_model_c02_vs_real=True")
            else:
                part.count("bridge_model_c02_vs_real=False" + (",shared" if shared else ""))
                if shared:
                    part.disagree("bridge: C02's model of to_proto(from_proto(m)) differs from the real one on a model of "
                                  "the fragment: " + _first_diff(out["c02_ser"], real)[:120], case, out["c02_ser"], real)
    # the tie: absM of C02's encoding = the C03 harness's abstraction of the same ModelProto
    try:
        flags: dict = {}
        own = sc.model_proto_to_model(p1, flags)
    except sc.OutsideModel as e:
        part.count(f"bridge_model_own_abstraction_outside={e.args[0][:30]}")
        return
    except RecursionError:
        return
    with_doc = not flags.get("vinfo_metadata")
    bij = (_Bij(), _Bij(), _Bij(), _Bij())
    why = same_up_to_tokens(own["p"], out["abs"]["p"], with_doc, bij)
    if why is None:
        fa, fb = own["funcs"], out["abs"]["funcs"]
        if len(fa) != len(fb):
            why = "number of functions differs"
        for i, (f, g) in enumerate(zip(fa, fb)):
            if why:
                break
            if f["id"] != g["id"] or f["inputs"] != g["inputs"] or f["outputs"] != g["outputs"]:
                why = f"funcs[{i}]: identifier / inputs / outputs differ"
                break
            why = same_up_to_tokens({"inputs": [], "inits": [], "vinfo": f["vinfo"], "nodes": f["nodes"], "outputs": []},
                                    {"inputs": [], "inits": [], "vinfo": g["vinfo"], "nodes": g["nodes"], "outputs": []},
                                    with_doc, bij, f"funcs[{i}].")
    if why is None:
        part.count("bridge_model_abstractions_agree=True")
    else:
        part.count("bridge_model_abstractions_agree=False")
        part.disagree("bridge: absM of the C02 encoding differs from the C03 abstraction of the same ModelProto: " + why,
                      case, out["abs"], own)

"""C05 — every built-in pass of onnx_ir.passes.common, alone or composed, preserves what the model computes.

Python side (this file):
  (A) gen_model / gen_inputs   seeded generator of checker-valid ONNX models (typed by construction)
  (B) PASSES / gen_sequences   registry of every pass in onnx_ir.passes.common.__all__ (+ parameter variants)
  (C) oracle                   the property itself on the real code: checker before => checker after,
                               I/O signature (count, order, names, dtype) preserved, ReferenceEvaluator
                               outputs bitwise equal position by position
  (D) run / replay             corpus replay, 16 worker processes, histogram keys, failure minimisation

The model-vs-implementation correspondence is plugged in at `correspond` below.
"""
from __future__ import annotations

import base64
import hashlib
import logging
import os
import random
import struct
import time
import warnings

import numpy as np
import onnx
from onnx import TensorProto as TP
from onnx import helper as oh
from onnx import numpy_helper as onh

from harness.common import Ctx, Part, load_corpus, pmap

THEOREMS: list[str] = [
    "IrVerif.Passes.C05_dce",
    "IrVerif.Passes.C05_identity",
    "IrVerif.Passes.C05_cse",
    "IrVerif.Passes.C05_rm_init_inputs",
    "IrVerif.Passes.C05_add_init_inputs",
    "IrVerif.Passes.C05_lift_const",
    "IrVerif.Passes.C05_dedup",
    "IrVerif.Passes.C05_output_fix",
    "IrVerif.Passes.C05_compose",
    "IrVerif.Passes.C05_lift_sub_inits",
    "IrVerif.Passes.C05_toposort",
    "IrVerif.Passes.C05_cse_skips",
    "IrVerif.Passes.C05_pass_valid",
    "IrVerif.Passes.C05_compose_valid",
    "IrVerif.Inline.C05_inline_partial",
    "IrVerif.Inline.C05_inline_nested_partial",
    "IrVerif.Inline.C05_inline",
    "IrVerif.Inline.C05_inline_total",
    "IrVerif.Inline.C05_coherent",
    "IrVerif.Inline.C05_coherent_lift",
    "IrVerif.Inline.C05_call_depth",
    "IrVerif.Inline.C05_unused_functions",
    "IrVerif.Inline.C05_unused_opsets",
    "IrVerif.Inline.C05_inline_canonical",
    "IrVerif.Inline.C05_add_defaults",
]
ASSUMPTIONS = [
    "operator semantics = onnx.reference.ReferenceEvaluator (onnx 1.22) on 2 generated input sets per model; "
    "string tensors are hex-escaped and '' outputs renamed before evaluation (evaluator loses trailing NULs and "
    "stores omitted outputs under the name '')",
    "validity = onnx.checker.check_model(full_check=False); full_check=True is compared when the model before passes it",
    "generated models use a fixed family of small static shapes and opset 18/20",
    "Lean semantics: total sequential evaluation of an SSA graph nest for an ARBITRARY operator interpretation "
    "`sem` (any function: determinism only), Identity and Constant fixed, graph attributes denoted under the current "
    "environment; names, types, shapes, metadata, opset versions are not part of the modelled IR; in Model/Sem.lean a "
    "model-local function body is a graph and a call site is an operator interpreted by `sem`",
    "function-call IR (Model/Inline.lean, theorems C05_inline / C05_inline_total / C05_inline_nested_partial / "
    "C05_inline_partial / C05_call_depth / C05_unused_functions / C05_unused_opsets / C05_coherent*): a call denotes "
    "the body of the function under the call's inputs (missing ones absent) and attribute bindings (call attributes, "
    "then defaults; reference attributes resolved in the enclosing binding, absent when unbound), unrolled to a depth; "
    "evaluated argument lists are trimmed of trailing absent values; an Identity whose argument is absent yields an "
    "absent result; validF (no local function ::Identity, validModel of the erased model, distinct function ids, "
    "non-recursive call graph, call sites fit their functions, no reference attribute on a call whose function "
    "declares a default for it, no stochastic operator and no input-that-is-initializer subgraph in function bodies), "
    "flatFuncs (extra hypothesis of C05_inline_partial) and pureMain (hypothesis of C05_coherent) are evaluated by "
    "the driver on every generated case: fcorr_valid / fcorr_hyp_inline / fcorr_hyp_nested / fcorr_flat / "
    "fcorr_hyp_partial / fcorr_pure_main_* / fcorr_assumption_unmet in the distribution",
    "InlinePass model: total function; when a call does not supply a function input that the function returns, or "
    "has FEWER OUTPUTS than its function (wave 5; replace_all_uses_with: ValueError), the "
    "real pass raises and the model predicts it (flag raised, fcorr_raised_predicted); the other error exits of the "
    "real pass (opset version mismatch, graph attribute parameters, more inputs than the function has, outer-scope "
    "value in a function body, a local function ::Identity) are outside validF: when the real pass raises, the driver "
    "must report raised or validF false (fcorr_raised_checked); the fall-back flags of the model (stuck, dangling, "
    "accepted_left, syn_bad, depth_bad) are proved false on valid models (C05_inline_total) and any of them is a "
    "disagreement; opset-import bookkeeping of InlinePass is not modelled (domains are compared for "
    "RemoveUnusedOpsetsPass only); InlinePass(criteria=even) = criteria on the parity of the function name",
    "every call of a real pass runs under a CPU (10 s) and wall-clock (240 s) guard; a pass that does not return is "
    "a failure nontermination:<Pass>:<family>",
    "hypotheses of the theorems (validModel: SSA, outputs bound in their graph, topologically ordered, scoped) "
    "are evaluated by the driver on every generated case: counted as "
    "corr_valid / corr_chain_ok / corr_assumption_unmet in the distribution",
    "AddDefaultAttributesPass (Model/AddDefaults.lean, theorem C05_add_defaults; wave 5): ONNX's schema tables are a "
    "PARAMETER of the model.  On every run the harness dumps from onnx.defs, for every (domain, operator type) of the "
    "case x every opset version that occurs in it (imports of the main graph and of the functions, ir.Node.version), "
    "the attribute declarations of the schema (name, required, default decoded from the AttributeProto without "
    "onnx_ir, null for a default of type UNDEFINED; null entry = SchemaError) and hands them to the driver together "
    "with the main graph's opset imports and the per-node versions; the model does the look-up.  Hypotheses of the "
    "theorem: callsUntouched (decidable; a node that calls a model-local function gets no new attribute: "
    "fcorr_hyp_add_defaults) and DefaultRespecting (at the schema the pass looks up, the operator interpretation "
    "cannot tell an absent optional attribute from its default): a statement about the operator semantics, whose "
    "instances the ReferenceEvaluator oracle checks (outputs before = outputs after on every generated model and on "
    "the hand-built models of _defaults_edge_models); graph-valued attributes have no names in the modelled IR",
    "defaults-versions stream (correspondence only): every generated model once more with random ir.Node.version "
    "values (1..21, 1000), the main graph's import of the default domain changed or deleted and the functions' imports "
    "changed: the version look-up of AddDefaultAttributesPass (node.version, else the MAIN graph's import - also for "
    "nodes of function bodies -, else skip; schema of the largest since_version <= version, no schema => skip)",
    "short-outputs stream (correspondence only; observation D302): every generated model with functions once more with "
    "an extra output appended to one function, so that its calls have fewer outputs than the function: such models "
    "pass check_model(full_check=False) and the ReferenceEvaluator but are rejected by the strict checker and by "
    "onnxruntime; the real InlinePass raises ValueError when it instantiates such a call and returns otherwise; the "
    "model must predict which (fcorr_raised_predicted:ValueError)",
    "no Lean model (differential only): ShapeInferencePass, CheckerPass (ONNX C++ "
    "schemas), and the schema-driven optional-output "
    "trimming inside RemoveUnusedNodesPass (the correspondence runs that pass with _remove_unused_optional_outputs "
    "disabled; the oracle runs the real pass)",
    "not compared with the model (counted as corr_skipped): "
    "RemoveUnusedNodes after an earlier pass of the same sequence left uses registered by detached subgraph nodes",
    "the second input set of every model also supplies a value (different from the default) for every graph input "
    "that is backed by an initializer; it is dropped for models in which that input no longer exists "
    "(RemoveInitializersFromInputsPass)",
    "names are not part of the property (number and order are): a main-graph input/output renamed by OutputFixPass "
    "(which has to separate two values that shared one name) is exempt, by any other pass it is a failure",
    "DeduplicateHashedInitializersPass = DeduplicateInitializersPass assuming no SHA-512 collision",
    "stochastic-twins stream: for RandomNormal/Uniform(+Like), Multinomial and Bernoulli a model with two identical "
    "UNSEEDED nodes is run through every CSE variant; both nodes must survive (structural oracle) and the Lean "
    "model must agree; generated models seed their random operators so that the evaluator is deterministic",
    "every Sequential / PassManager chain of the reuse stream is also compared with applying its passes one by one",
    "instance-reuse stream: one object of every pass (27 variants) and of three Sequential/PassManager chains per "
    "worker is applied to all models of the worker in turn, including pairs of models that define local::F with the "
    "same identifier but a different call structure; its serialized result must equal that of a fresh object "
    "(reuse_checks / reuse_twin_pairs in the distribution)",
    "TopologicalSortPass: in sequences the model is the identity on valid (sorted) models (stability, C12; not a "
    "property theorem); the permutation theorem C05_toposort is exercised on every generated model with the node "
    "list of every graph put into a random (unsorted, acyclic) order: the real pass must return a model b with "
    "reorderModel m0 b, validModel m0, validModel b (the hypotheses of the theorem), and b evaluates like m0",
    "ClearMetadataAndDocStringPass and NameFixPass are the identity on the modelled IR (no names/metadata): no "
    "property theorem; correspondence (structure unchanged) and oracle only",
]

# === CORRESPONDENCE ===========================================================================
# Model (lean/IrVerif/Model/Passes.lean, driver command `passes.run`) vs implementation, per step and per
# maximal run of modelled passes of every generated sequence; structure is compared modulo value/node
# identities and names (ids renumbered by first appearance in a fixed walk).
# Called once per (model, sequence) right after the oracle, inside the worker process.

# real pass name -> driver pass name (passes with a Lean model and a C05_* theorem)
MODELLED = {
    "RemoveUnusedNodesPass": "dce",  # with _remove_unused_optional_outputs disabled (schema-driven: no model)
    "IdentityEliminationPass": "identity",
    "CommonSubexpressionEliminationPass": "cse:10",
    "CommonSubexpressionEliminationPass(size_limit=0)": "cse:0",
    "CommonSubexpressionEliminationPass(size_limit=2000)": "cse:2000",
    "DeduplicateInitializersPass": "dedup:1024",
    "DeduplicateInitializersPass(size_limit=4)": "dedup:4",
    "DeduplicateHashedInitializersPass": "dedup:4294967296",
    "LiftConstantsToInitializersPass": "lift:0:16",
    "LiftConstantsToInitializersPass(all,0)": "lift:1:0",
    "LiftConstantsToInitializersPass(value,0)": "lift:0:0",
    "RemoveInitializersFromInputsPass": "rm_init_inputs",
    "AddInitializersToInputsPass": "add_init_inputs",
    "OutputFixPass": "output_fix",
    "LiftSubgraphInitializersToMainGraphPass": "lift_sub_inits",
    "ClearMetadataAndDocStringPass": "clear_meta",
    "NameFixPass": "name_fix",
    # identity model: a checker-valid model is topologically ordered and the sort is stable (C12); the
    # permutation theorem C05_toposort is exercised by the shuffled stream (`_shuffle_nodes` below)
    "TopologicalSortPass": "topo_sort",
}
# no Lean model (differential only: the oracle above is the whole check for these)
UNMODELLED_NOTE = (
    "ShapeInferencePass, CheckerPass (ONNX C++ schemas) and the schema-driven output "
    "trimming of RemoveUnusedNodesPass"
)


class Unencodable(Exception):
    pass


def _f32bits(x: float) -> int:
    import math

    try:
        b = struct.pack("<f", x)
    except OverflowError:
        raise Unencodable("float attribute does not fit float32") from None
    y = struct.unpack("<f", b)[0]
    if not (y == x or (math.isnan(x) and math.isnan(y))):
        raise Unencodable("float attribute is not a float32 value")
    return struct.unpack("<I", b)[0]


def _bytes_of_str(s) -> list[int]:
    return list(s.encode("utf-8")) if isinstance(s, str) else list(bytes(s))


class Encoder:
    """onnx_ir.Model -> JSON for the Lean driver; object identities -> creation indices."""

    def __init__(self):
        self.ids: dict[int, int] = {}
        self.keep: list = []
        self.opaque: list = []
        self.string_tensor_attr = False
        self.nodes: set[int] = set()

    def vid(self, v) -> int:
        k = id(v)
        if k not in self.ids:
            self.ids[k] = len(self.ids)
            self.keep.append(v)
        return self.ids[k]

    def tensor(self, t) -> dict:
        import onnx_ir as ir

        if t is None:
            raise Unencodable("initializer without const_value")
        shape = [int(d) for d in t.shape.numpy()]
        if t.dtype == ir.DataType.STRING:
            return {"d": int(t.dtype), "s": shape, "b": [], "x": [list(bytes(s)) for s in t.string_data()]}
        return {"d": int(t.dtype), "s": shape, "b": list(t.tobytes()), "x": []}

    def opaque_uid(self, key) -> int:
        for i, k in enumerate(self.opaque):
            try:
                if k is key or k == key:
                    return i
            except Exception:  # noqa: BLE001
                pass
        self.opaque.append(key)
        return len(self.opaque) - 1

    def attr(self, a) -> dict:
        import onnx_ir as ir

        T = ir.AttributeType
        if a.is_ref():
            return {"k": "opaque", "v": {"tag": 1000 + int(a.type), "uid": self.opaque_uid(("ref", a.ref_attr_name))}}
        t, v = a.type, a.value
        if t == T.INT:
            return {"k": "int", "v": int(v)}
        if t == T.FLOAT:
            return {"k": "float", "v": _f32bits(float(v))}
        if t == T.STRING:
            return {"k": "str", "v": _bytes_of_str(v)}
        if t == T.INTS:
            return {"k": "ints", "v": [int(x) for x in v]}
        if t == T.FLOATS:
            return {"k": "floats", "v": [_f32bits(float(x)) for x in v]}
        if t == T.STRINGS:
            return {"k": "strs", "v": [_bytes_of_str(x) for x in v]}
        if t == T.TENSOR:
            if v.dtype == ir.DataType.STRING:
                self.string_tensor_attr = True
            return {"k": "tensor", "v": self.tensor(v)}
        return {"k": "opaque", "v": {"tag": int(t), "uid": self.opaque_uid(v)}}

    def node(self, n) -> dict:
        import onnx_ir as ir

        T = ir.AttributeType
        attrs, bodies = [], []
        for name, a in n.attributes.items():
            if not a.is_ref() and a.type == T.GRAPH:
                bodies.append(self.graph(a.value))
            elif not a.is_ref() and a.type == T.GRAPHS:
                bodies.extend(self.graph(g) for g in a.value)
            else:
                attrs.append([name, self.attr(a)])
        attrs.sort(key=lambda p: p[0])
        d, t, o = n.op_identifier()
        self.nodes.add(id(n))
        return {"op": [d, t, o], "a": attrs, "in": [None if v is None else self.vid(v) for v in n.inputs],
                "out": [self.vid(v) for v in n.outputs], "b": bodies}

    def graph(self, g) -> dict:
        import onnx_ir as ir

        ins = [self.vid(v) for v in g.inputs]
        inits = []
        if isinstance(g, ir.Graph):
            for _name, v in g.initializers.items():
                inits.append([self.vid(v), self.tensor(v.const_value)])
        nodes = [self.node(n) for n in g]
        outs = [self.vid(v) for v in g.outputs]
        return {"i": ins, "o": outs, "t": inits, "n": nodes}

    def model(self, m) -> dict:
        return {"g": self.graph(m.graph), "f": [self.graph(f) for f in m.functions.values()]}

    def has_ghost_uses(self) -> bool:
        """some value is still used by a node that is no longer part of the model (a node of a subgraph
        of a removed node: `Graph.remove(safe=True)` detaches only the removed node's own inputs)"""
        for v in self.keep:
            for u in v.uses():
                if id(u.node) not in self.nodes:
                    return True
        return False


def canon(mj: dict) -> dict:
    """value ids renamed by first appearance in a fixed walk (comparison modulo identities and names)"""
    ren: dict[int, int] = {}

    def r(v):
        if v is None:
            return None
        if v not in ren:
            ren[v] = len(ren)
        return ren[v]

    uids: dict[tuple, int] = {}

    def attr(a):
        if a["k"] != "opaque":
            return a
        key = (a["v"]["tag"], a["v"]["uid"])
        if key not in uids:
            uids[key] = len(uids)
        return {"k": "opaque", "v": {"tag": a["v"]["tag"], "uid": uids[key]}}

    def graph(g):
        return {"i": [r(v) for v in g["i"]], "t": [[r(p[0]), p[1]] for p in g["t"]],
                "n": [node(n) for n in g["n"]], "o": [r(v) for v in g["o"]]}

    def node(n):
        return {"op": n["op"], "a": [[p[0], attr(p[1])] for p in n["a"]], "in": [r(v) for v in n["in"]],
                "out": [r(v) for v in n["out"]], "b": [graph(b) for b in n["b"]]}

    return {"g": graph(mj["g"]), "f": [graph(f) for f in mj["f"]]}


def first_diff(a, b, path="") -> str | None:
    if type(a) is not type(b):
        return f"{path}: {a!r} != {b!r}"[:300]
    if isinstance(a, dict):
        for k in a:
            if k not in b:
                return f"{path}.{k}: missing"
            d = first_diff(a[k], b[k], f"{path}.{k}")
            if d:
                return d
        return None
    if isinstance(a, list):
        if len(a) != len(b):
            return f"{path}: length {len(a)} != {len(b)}"
        for i, (x, y) in enumerate(zip(a, b)):
            d = first_diff(x, y, f"{path}[{i}]")
            if d:
                return d
        return None
    return None if a == b else f"{path}: {a!r} != {b!r}"[:300]


def _trunc(obj, n: int = 1500) -> str:
    import json

    s = json.dumps(obj, separators=(",", ":"))
    return s if len(s) <= n else s[:n] + "..."


class PassTimeout(BaseException):
    """a call of the implementation did not return within the CPU / wall-clock guard (not an Exception: neither the
    code under test nor the harness may swallow it by accident)"""


_PASS_CPU_S = float(os.environ.get("C05_PASS_CPU_S", "10"))     # passes on the generated models take milliseconds
_PASS_WALL_S = float(os.environ.get("C05_PASS_WALL_S", "240"))  # a blocked (not spinning) call; generous under load


def _apply(p, model, cpu_s: float | None = None, wall_s: float | None = None):
    """`p(model)` for a pass object of the implementation, under a CPU-time and a wall-clock interval timer.  Every
    call of the real code that could fail to return goes through here (main process and pmap workers alike: both run
    the harness in the main thread of their process), so that a non-terminating pass becomes a failure
    `nontermination:<pass>:<family>` instead of a hung check."""
    import signal
    import threading

    if threading.current_thread() is not threading.main_thread():
        return p(model)

    def _h(signum, frame):
        raise PassTimeout(f"{type(p).__name__} did not return ({'CPU' if signum == signal.SIGVTALRM else 'wall'} guard)")

    old_v = signal.signal(signal.SIGVTALRM, _h)
    old_r = signal.signal(signal.SIGALRM, _h)
    signal.setitimer(signal.ITIMER_VIRTUAL, cpu_s or _PASS_CPU_S)
    signal.setitimer(signal.ITIMER_REAL, wall_s or _PASS_WALL_S)
    try:
        return p(model)
    finally:
        signal.setitimer(signal.ITIMER_VIRTUAL, 0)
        signal.setitimer(signal.ITIMER_REAL, 0)
        signal.signal(signal.SIGVTALRM, old_v)
        signal.signal(signal.SIGALRM, old_r)


def _nonterm_failure(part, pass_name: str, family: str, what: str, case: dict) -> None:
    sig = f"nontermination:{_base_name(pass_name)}:{family}"
    part.count("nontermination:" + _base_name(pass_name))
    if not any(f["signature"] == sig for f in part["failures"]) and len(part["failures"]) < 40:
        part["failures"].append({"signature": sig, "what": f"{pass_name} did not return: {what}"[:400], "case": case})


def _run_real(name: str, model):
    """apply the real pass; RemoveUnusedNodesPass runs without its schema-driven output trimming"""
    if _base_name(name) == "RemoveUnusedNodesPass":
        from onnx_ir.passes.common import unused_removal as UR

        saved = UR._remove_unused_optional_outputs
        UR._remove_unused_optional_outputs = lambda *a, **k: False
        try:
            return _apply(PASSES[name](), model)
        finally:
            UR._remove_unused_optional_outputs = saved
    return _apply(PASSES[name](), model)


def _shuffle_nodes(model, rng) -> int:
    """put the node list of every graph of the model (main graph, subgraphs, function bodies) into a random
    order: the graph stays acyclic but is in general NOT topologically ordered any more; returns the number of
    graphs whose order changed"""
    changed = 0
    graphs = list(model.graphs())
    for f in model.functions.values():
        graphs.append(f)
        graphs.extend(f.subgraphs())
    for g in graphs:
        nodes = list(g)
        if len(nodes) < 2:
            continue
        perm = list(nodes)
        rng.shuffle(perm)
        if any(x is not y for x, y in zip(perm, nodes)):
            g.remove(nodes)
            g.extend(perm)
            changed += 1
    return changed


def _correspond_reorder(part, case_id, ir_model_before_factory) -> None:
    """TopologicalSortPass as a permutation (theorem C05_toposort).  The node lists of a fresh model m0 are
    shuffled into an UNSORTED acyclic order a; the real pass sorts a into b.  The driver checks the hypotheses
    of the theorem for (m0, b): reorderModel m0 b, validModel m0, validModel b — so that denote b = denote m0 —
    and that b is a permutation of what the pass was given (reorderModel a b); the evaluation oracle compares
    b with m0.  Value identities are shared by the three encodings (one Encoder)."""
    import onnx_ir as ir

    try:
        model = ir_model_before_factory()
        enc = Encoder()
        m0 = enc.model(model)
        raw0 = ir.serde.serialize_model(model).SerializeToString()
        rng = random.Random("C05:shuffle:" + str(case_id.get("sha1", "")))
        changed = _shuffle_nodes(model, rng)
        a = enc.model(model)
        _apply(PASSES["TopologicalSortPass"](), model)
        b = enc.model(model)
        raw_b = ir.serde.serialize_model(model).SerializeToString()
    except Unencodable:
        part.count("corr_skipped:unencodable")
        return
    except PassTimeout as e:
        _nonterm_failure(part, "TopologicalSortPass", "shuffled-model", str(e), {"origin": case_id, "kind": "shuffled"})
        return
    except Exception as e:  # noqa: BLE001
        part["failures"].append({"signature": f"raise:TopologicalSortPass:shuffled:{type(e).__name__}",
                                 "what": f"TopologicalSortPass on a shuffled acyclic model raised {type(e).__name__}: {e}"[:300],
                                 "case": {"origin": case_id}})
        return
    part.count("corr_shuffled_graphs=" + ("0" if changed == 0 else "1-2" if changed <= 2 else ">2"))
    if canon(b) != canon(m0):
        part.count("corr_sorted_differs_from_original_order")
    _CORR_BUF.append(({"m": "passes.reorder", "a": m0, "b": b}, "reorder", ["m0->b", changed], None, case_id))
    _CORR_BUF.append(({"m": "passes.reorder", "a": a, "b": b}, "reorder", ["a->b", changed], None, case_id))
    # evaluation oracle: the sorted model computes what the original computes
    try:
        p0, pb = _parse(raw0), _parse(raw_b)
        inputs = _default_inputs(p0)
        diff = _compare(_analyse(p0, inputs), _analyse(pb, inputs))
    except Exception as e:  # noqa: BLE001
        diff = ("oracle-raise", f"{type(e).__name__}: {e}"[:200])
    if diff is not None:
        sig = f"{diff[0]}:TopologicalSortPass:shuffled-model"
        if not any(f["signature"] == sig for f in part["failures"]):
            part["failures"].append({"signature": sig, "what": f"sorting a shuffled model: {diff[1]}"[:400],
                                     "case": {"model_b64": base64.b64encode(raw0).decode(), "seq": ["TopologicalSortPass"],
                                              "origin": case_id, "kind": "shuffled"}})


_CORR_BUF: list[tuple] = []  # (request, kind, where, expected canonical model, case_id)
_CORR_FLUSH_AT = 400  # requests per driver call (the driver process start-up dominates small calls)


def _has_string_init(model) -> bool:
    import onnx_ir as ir

    for g in model.graphs():
        for v in g.initializers.values():
            if v.const_value is not None and v.const_value.dtype == ir.DataType.STRING:
                return True
    return False


def correspond(part, case_id, ir_model_before_factory, seq_names):
    try:
        model = ir_model_before_factory()
    except Exception:  # noqa: BLE001
        part.count("corr_skipped:deserialize")
        return None
    if list(seq_names) == ["TopologicalSortPass"]:
        _correspond_reorder(part, case_id, ir_model_before_factory)
    pending: list[tuple] = []
    seg_start_enc = None
    seg_names: list[str] = []
    seg_first = 0

    def close_segment(end_enc):
        nonlocal seg_start_enc, seg_names
        if seg_start_enc is not None and len(seg_names) >= 2 and end_enc is not None:
            pending.append(({"m": "passes.run", "pass": list(seg_names), "model": seg_start_enc},
                            "segment", [seg_first, list(seg_names)], canon(end_enc), case_id))
        seg_start_enc, seg_names = None, []

    last_enc = None
    for i, name in enumerate(seq_names):
        lean_name = MODELLED.get(name)
        try:
            enc = Encoder()
            before = enc.model(model)
        except Unencodable as e:
            part.count("corr_skipped:unencodable:" + str(e)[:40])
            break
        if lean_name is None:
            close_segment(before)
        if name in FMODELLED:
            # function-call IR (Model/Inline.lean): own encoding, own driver command; applies the real pass
            if not _fcorr_step(part, case_id, name, model, i):
                break
            last_enc = None
            continue
        skip = None
        if lean_name == "dce" and enc.has_ghost_uses():
            # Value.uses() still lists nodes of subgraphs of nodes removed by an earlier pass of this
            # sequence; that history is not part of the encoded model
            skip = "dce_ghost_uses_from_earlier_pass"
        try:
            _run_real(name, model)
        except PassTimeout as e:
            _nonterm_failure(part, name, "correspondence", f"step {i} of {list(seq_names)}: {e}",
                             {"origin": case_id, "seq": list(seq_names)})
            close_segment(before)
            break
        except Exception as e:  # noqa: BLE001
            part.count("corr_skipped:real_pass_raised:" + _base_name(name) + ":" + type(e).__name__)
            if lean_name is not None:
                sig = f"corr-raise:{_base_name(name)}:{type(e).__name__}"
                if not any(f["signature"] == sig for f in part["failures"]) and len(part["failures"]) < 40:
                    part["failures"].append({"signature": sig, "what": f"{name} raised {type(e).__name__} at step {i} of "
                                             f"{list(seq_names)}: {e}"[:400], "case": {"origin": case_id, "seq": list(seq_names)}})
            close_segment(before)
            break
        if lean_name is None:
            part.count("corr_unmodelled_step")
            last_enc = None
            continue
        if skip:
            part.count("corr_skipped:" + skip)
            close_segment(before)
            last_enc = None
            continue
        try:
            after = Encoder().model(model)
        except Unencodable as e:
            part.count("corr_skipped:unencodable:" + str(e)[:40])
            break
        pending.append(({"m": "passes.run", "pass": [lean_name], "model": before}, "step", [i, name],
                        canon(after), case_id))
        if seg_start_enc is None:
            seg_start_enc, seg_first = before, i
        seg_names.append(lean_name)
        last_enc = after
    close_segment(last_enc)
    _CORR_BUF.extend(pending)
    if len(_CORR_BUF) >= _CORR_FLUSH_AT:
        corr_flush(part)
    return None


def corr_flush(part) -> None:
    """send the buffered model requests to the Lean driver and compare"""
    from harness.common import lean_batch

    if not _CORR_BUF:
        return
    buf = list(_CORR_BUF)
    _CORR_BUF.clear()
    from harness.common import Infra

    for attempt in range(4):
        try:
            outs = lean_batch([b[0] for b in buf])
            break
        except Infra:
            if attempt == 3:
                raise
            time.sleep(5 * (attempt + 1))
    for (_req, kind, where, expect, case_id), out in zip(buf, outs):
        part.count("corr_" + kind)
        if "err" in out:
            part.disagree(f"driver error at {kind} {where}: {out['err']}", case_id, out, None)
            continue
        if kind in ("fstep", "fraised"):
            _fcorr_check(part, _req, kind, where, expect, case_id, out)
            continue
        if kind == "reorder":
            ok = out.get("reorder") and out.get("valid_b") and (out.get("valid_a") or where[0] == "a->b")
            if where[0] == "a->b" and where[1] and out.get("valid_a"):
                part.count("corr_shuffled_order_still_sorted")
            if ok:
                part.count("corr_agree")
            else:
                part.disagree(f"TopologicalSortPass on a shuffled model ({where[0]}): result is not a valid "
                              f"permutation: {out}", case_id, out, None)
            continue
        if not out.get("chain_ok"):
            part.disagree(f"{kind} {where}: the hypotheses of the C05 theorems do not hold on this generated case "
                          f"(chainOK false, validModel {out.get('valid')}, why {out.get('why')})", case_id, None, None)
        if kind == "step":
            part.count("corr_valid=" + str(out.get("valid")))
            if not out.get("valid"):
                part.count("corr_invalid_why:" + "+".join(out.get("why", [])))
                import os
                if os.environ.get("C05_DUMP_INVALID"):
                    import json as _json
                    _json.dump({"req": _req, "where": where, "case": case_id}, open(os.environ["C05_DUMP_INVALID"], "w"))
                if len(part["samples"]) < 4:
                    part["samples"].append({"invalid_model_case": case_id, "why": out.get("why")})
            if not out.get("chain_ok"):
                part.count("corr_assumption_unmet:" + where[1])
        else:
            part.count("corr_chain_ok=" + str(out.get("chain_ok")))
        if not out.get("valid_after"):
            part.count("corr_valid_after=False")
            if out.get("valid"):
                # C05_pass_valid: a modelled pass returns a valid model when it is given one
                part.disagree(f"{kind} {where}: the model of the pass returned an invalid model from a valid one "
                              f"(contradicts C05_pass_valid)", case_id, None, None)
        got = canon(out["model"])
        if got != expect:
            part.disagree(
                f"{kind} {where}: model result != real pass result at {first_diff(got, expect)}",
                case_id, _trunc(got), _trunc(expect),
            )
        else:
            part.count("corr_agree")



# --- function-call models (lean/IrVerif/Model/Inline.lean, driver commands inline.run / inline.ruf / inline.ruo) ----
# real pass name -> (driver command, extra request fields); theorems C05_inline*, C05_unused_functions, C05_unused_opsets
FMODELLED = {
    "InlinePass": ("inline.run", {"crit": None}),
    "InlinePass(criteria=even)": ("inline.run", {"crit": "even"}),
    "RemoveUnusedFunctionsPass": ("inline.ruf", {}),
    "RemoveUnusedOpsetsPass": ("inline.ruo", {"pf": True}),
    "RemoveUnusedOpsetsPass(no_functions)": ("inline.ruo", {"pf": False}),
    # Model/AddDefaults.lean: the schema table is a parameter of the model; the request carries the part of
    # onnx.defs the case can reach (`_schema_table`), the main graph's opset imports and the per-node versions
    "AddDefaultAttributesPass": ("inline.defaults", {}),
}


_SCHEMA_CACHE: dict[tuple, list | None] = {}


def _schema_default(dv) -> dict | None:
    """the default value of a schema attribute as the driver's attribute encoding, read from the AttributeProto
    (not through onnx_ir); None = `_has_valid_default` is false"""
    A = onnx.AttributeProto
    if dv is None or dv.type == A.UNDEFINED:
        return None
    if dv.type == A.INT:
        return {"k": "int", "v": int(dv.i)}
    if dv.type == A.FLOAT:
        return {"k": "float", "v": _f32bits(float(dv.f))}
    if dv.type == A.STRING:
        return {"k": "str", "v": list(bytes(dv.s))}
    if dv.type == A.INTS:
        return {"k": "ints", "v": [int(x) for x in dv.ints]}
    if dv.type == A.FLOATS:
        return {"k": "floats", "v": [_f32bits(float(x)) for x in dv.floats]}
    if dv.type == A.STRINGS:
        return {"k": "strs", "v": [list(bytes(x)) for x in dv.strings]}
    raise Unencodable(f"schema default of attribute type {int(dv.type)}")


def _schema_entry(domain: str, op_type: str, version: int) -> list | None:
    """`onnx.defs.get_schema(op_type, version, domain).attributes` as [[name, required, default | None]] in the order
    of `.items()`; None = SchemaError (no schema: the pass skips the node)"""
    key = (domain, op_type, version)
    if key not in _SCHEMA_CACHE:
        try:
            sch = onnx.defs.get_schema(op_type, version, domain=domain)
        except onnx.defs.SchemaError:
            _SCHEMA_CACHE[key] = None
        else:
            _SCHEMA_CACHE[key] = [[name, bool(ad.required), _schema_default(ad.default_value)]
                                  for name, ad in sch.attributes.items()]
    return _SCHEMA_CACHE[key]


def _all_nodes(model):
    import onnx_ir as ir

    yield from ir.traversal.RecursiveGraphIterator(model.graph)
    for f in model.functions.values():
        yield from ir.traversal.RecursiveGraphIterator(f)


def _defaults_request(model, fenc) -> dict:
    """what the model of AddDefaultAttributesPass needs beside the FModel: the main graph's opset imports with their
    versions, `node.version` of the nodes that have one (keyed by the node's output ids) and the schema table for
    every (domain, operator type) of the model x every version that occurs anywhere in it (imports of the main graph
    and of the functions, node versions): the model does the look-up, the table offers more than it should need"""
    versions = set(model.graph.opset_imports.values())
    for f in model.functions.values():
        versions.update(f.opset_imports.values())
    ops, nver = set(), []
    for n in _all_nodes(model):
        ops.add((n.domain, n.op_type))
        if n.version is not None:
            versions.add(int(n.version))
            nver.append([[fenc.vid(o) for o in n.outputs], int(n.version)])
    versions = sorted(v for v in versions if isinstance(v, int) and v >= 0)
    table = [[[d, t, v], _schema_entry(d, t, v)] for (d, t) in sorted(ops) for v in versions]
    return {"imports": [[d, int(v)] for d, v in model.graph.opset_imports.items()], "nver": nver, "table": table}


def _crit_even(f) -> bool:
    """the `criteria` of the registry entry InlinePass(criteria=even): a predicate on the function alone"""
    return sum(map(ord, f.name)) % 2 == 0


class FEncoder(Encoder):
    """onnx_ir.Model -> JSON of the function-call IR (FModel): reference attributes stay references, functions carry
    their attribute parameters (name, default or null) and the domains of their opset imports."""

    def attr(self, a) -> dict:
        if a.is_ref():
            if a.ref_attr_name is None:
                raise Unencodable("reference attribute without a name")
            return {"k": "ref", "v": a.ref_attr_name}
        return super().attr(a)

    def node(self, n) -> dict:
        import onnx_ir as ir

        T = ir.AttributeType
        for a in n.attributes.values():
            if a.is_ref() and a.type in (T.GRAPH, T.GRAPHS):
                raise Unencodable("graph-valued reference attribute")
        return super().node(n)

    def func(self, f) -> dict:
        params = []
        for name, a in f.attributes.items():
            params.append([name, None if a.value is None else super().attr(a)])
        d, t, o = f.identifier()
        g = self.graph(f)
        return {"id": [d, t, o], "p": params, "i": g["i"], "o": g["o"], "n": g["n"], "d": list(f.opset_imports)}

    def model(self, m) -> dict:
        return {"g": self.graph(m.graph), "f": [self.func(f) for f in m.functions.values()],
                "d": list(m.opset_imports)}


def fcanon(mj: dict, domains: bool) -> dict:
    """value ids renamed by first appearance in a fixed walk; opaque attribute classes likewise; opset domains
    (sorted: a dictionary) only where the pass is about them"""
    ren: dict[int, int] = {}
    uids: dict[tuple, int] = {}

    def r(v):
        if v is None:
            return None
        if v not in ren:
            ren[v] = len(ren)
        return ren[v]

    def attr(a):
        if a is None or a["k"] != "opaque":
            return a
        key = (a["v"]["tag"], a["v"]["uid"])
        if key not in uids:
            uids[key] = len(uids)
        return {"k": "opaque", "v": {"tag": a["v"]["tag"], "uid": uids[key]}}

    def graph(g):
        return {"i": [r(v) for v in g["i"]], "t": [[r(p[0]), p[1]] for p in g["t"]],
                "n": [node(n) for n in g["n"]], "o": [r(v) for v in g["o"]]}

    def node(n):
        return {"op": n["op"], "a": sorted([[p[0], attr(p[1])] for p in n["a"]], key=lambda p: p[0]),
                "in": [r(v) for v in n["in"]], "out": [r(v) for v in n["out"]], "b": [graph(b) for b in n["b"]]}

    def func(f):
        out = {"id": f["id"], "p": [[p[0], attr(p[1])] for p in f["p"]], "i": [r(v) for v in f["i"]],
               "n": [node(n) for n in f["n"]], "o": [r(v) for v in f["o"]]}
        if domains:
            out["d"] = sorted(f["d"])
        return out

    out = {"g": graph(mj["g"]), "f": [func(f) for f in mj["f"]]}
    if domains:
        out["d"] = sorted(mj["d"])
    return out


def _fmodel_stats(fm: dict) -> dict:
    """what the generated case exercises (histogram keys of the function-call stream)"""
    fids = {tuple(f["id"]) for f in fm["f"]}
    st = {"calls_main": 0, "calls_in_sub": 0, "calls_in_fn": 0, "ref_attrs": 0, "ref_on_call": 0, "fn_sub": 0,
          "fn_params": 0, "fn_defaults": 0, "short_call": 0, "passthrough": 0}

    def walk(nodes, where, depth):
        for n in nodes:
            is_call = tuple(n["op"]) in fids
            if is_call:
                st["calls_in_fn" if where == "fn" else ("calls_in_sub" if depth else "calls_main")] += 1
                f = next(f for f in fm["f"] if tuple(f["id"]) == tuple(n["op"]))
                if len(n["in"]) < len(f["i"]) or any(v is None for v in n["in"]):
                    st["short_call"] += 1
            for _k, a in n["a"]:
                if a["k"] == "ref":
                    st["ref_attrs"] += 1
                    if is_call:
                        st["ref_on_call"] += 1
            for b in n["b"]:
                if where == "fn":
                    st["fn_sub"] += 1
                walk(b["n"], where, depth + 1)

    walk(fm["g"]["n"], "main", 0)
    for f in fm["f"]:
        walk(f["n"], "fn", 0)
        st["fn_params"] += len(f["p"])
        st["fn_defaults"] += sum(1 for p in f["p"] if p[1] is not None)
        if any(o in f["i"] for o in f["o"]):
            st["passthrough"] += 1
    return st


def _fcorr_step(part, case_id, name: str, model, where, crit=None) -> bool:
    """one step of the function-call correspondence: encode, apply the real pass (to `model`, in place), encode
    again, queue the driver request; returns False when the real pass raised"""
    cmd, extra = FMODELLED[name]
    try:
        fenc = FEncoder()
        before = fenc.model(model)
        if cmd == "inline.defaults":
            extra = {**extra, **_defaults_request(model, fenc)}
    except Unencodable as e:
        part.count("fcorr_skipped:unencodable:" + str(e)[:40])
        try:
            _run_real(name, model)
        except PassTimeout as e:
            _nonterm_failure(part, name, "correspondence", str(e), {"origin": case_id, "seq": [name]})
            return False
        except Exception:  # noqa: BLE001
            return False
        return True
    req = {"m": cmd, "model": before, **extra}
    if extra.get("crit") == "even":
        crit = [tuple(f.identifier()) for f in model.functions.values() if _crit_even(f)]
    try:
        if cmd == "inline.run" and crit is not None:
            from onnx_ir.passes import common as P

            ids = {tuple(i) for i in crit}
            req["crit"] = [list(i) for i in sorted(ids)]
            res = _apply(P.InlinePass(criteria=lambda f: tuple(f.identifier()) in ids), model)
        else:
            res = _run_real(name, model)
    except PassTimeout as e:
        _nonterm_failure(part, name, "correspondence", str(e), {"origin": case_id, "seq": [name], "where": where})
        return False
    except Exception as e:  # noqa: BLE001
        # the theorems assume validF: a model on which the real pass raises must not satisfy it
        part.count("fcorr_real_pass_raised:" + _base_name(name) + ":" + type(e).__name__)
        if cmd == "inline.run":
            _CORR_BUF.append((req, "fraised", [where, name, type(e).__name__, str(e)[:200]], None, case_id))
        return False
    try:
        after = FEncoder().model(model)
    except Unencodable as e:
        part.count("fcorr_skipped:unencodable:" + str(e)[:40])
        return True
    stats = _fmodel_stats(before)
    for k, v in stats.items():
        if v:
            part.count(f"fcorr_feat:{k}")
    _CORR_BUF.append((req, "fstep", [where, name, bool(res.modified), crit is not None],
                      fcanon(after, domains=(cmd == "inline.ruo")), case_id))
    return True


def _fcorr_check(part, req, kind, where, expect, case_id, out) -> None:
    """compare one driver answer of the function-call models with the real result"""
    if kind == "fraised":
        part.count("fcorr_raised_checked")
        if out.get("raised"):
            # the model meets None among the replacement values of a call (a function returns an input that the call
            # does not supply): replace_nodes_and_values raises, and the model answers with the unchanged model
            part.count("fcorr_raised_predicted:" + where[2])
        elif out.get("valid"):
            part.disagree(f"{where[1]} raised {where[2]} ({where[3]}) on a model that satisfies validF (the hypotheses "
                          f"of C05_inline) and for which the model of the pass does not predict the raise",
                          case_id, {"valid": True, "raised": False}, "raised")
        else:
            part.count("fcorr_raised_on_invalid:" + "+".join(out.get("why", [])))
        return
    name, modified = where[1], where[2]
    cmd = req["m"]
    if cmd == "inline.run":
        part.count("fcorr_valid=" + str(out.get("valid")))
        if not out.get("valid"):
            part.count("fcorr_assumption_unmet:" + "+".join(out.get("why", [])))
        part.count("fcorr_flat=" + str(out.get("flat")))
        part.count("fcorr_hyp_partial=" + str(bool(out.get("valid") and out.get("flat"))))
        if not where[3]:
            # C05_inline_nested_partial: criteria=None, validF, any nesting depth
            part.count("fcorr_hyp_nested=" + str(bool(out.get("valid"))))
            if out.get("valid") and not out.get("flat"):
                part.count("fcorr_nested_under_theorem")
        part.count("fcorr_valid_after=" + str(out.get("valid_after")))
        # hypothesis of C05_coherent (main graph without calls / reference attributes, Identity nodes with one input)
        part.count("fcorr_pure_main_before=" + str(out.get("pure_main")))
        part.count("fcorr_pure_main_after=" + str(out.get("pure_after")))
        # C05_inline: any criteria, validF, any nesting depth
        part.count("fcorr_hyp_inline=" + str(bool(out.get("valid"))))
        # C05_inline_canonical: the result of a valid model has call depth <= ITS number of functions (<= that of the model)
        part.count("fcorr_canon_depth=" + str(out.get("canon_depth")))
        if out.get("valid") and not out.get("canon_depth"):
            part.disagree(f"{name} at {where[0]}: the result of the model of the pass on a valid model is deeper than its "
                          f"number of functions (contradicts C05_inline_canonical)", case_id, None, None)
        flags = {k: out.get(k) for k in ("stuck", "dangling", "accepted_left", "raised", "syn_bad", "depth_bad")}
        if any(flags.values()):
            part.disagree(f"{name} at {where[0]}: the model fell back to the unchanged model ({flags}) although the "
                          f"real pass returned", case_id, flags, None)
        if bool(out.get("count")) != modified:
            part.disagree(f"{name} at {where[0]}: modified flag {modified} but the model inlined {out.get('count')} calls",
                          case_id, out.get("count"), modified)
        part.count("fcorr_inlined=" + ("0" if not out.get("count") else "1-2" if out["count"] <= 2 else "3-5" if out["count"] <= 5 else ">5"))
        if where[3]:
            part.count("fcorr_with_criteria")
    elif cmd == "inline.defaults":
        # decidable hypothesis of C05_add_defaults (a call of a model-local function gets no new attribute) and what
        # the case exercises; the other hypothesis (the operator interpretation respects the defaults) is what the
        # ReferenceEvaluator oracle checks on the same models
        part.count("fcorr_hyp_add_defaults=" + str(out.get("calls_untouched")))
        if not out.get("calls_untouched"):
            part.count("fcorr_assumption_unmet:add_defaults_touches_call")
        t = out.get("touched", 0)
        part.count("fcorr_defaults_touched_nodes=" + ("0" if not t else "1-2" if t <= 2 else "3-9" if t <= 9 else ">=10"))
        part.count("fcorr_defaults_nodes", out.get("nodes", 0))
        part.count("fcorr_defaults_nodes_with_schema", out.get("with_schema", 0))
        part.count("fcorr_defaults_nodes_touched", t)
        if req.get("nver"):
            part.count("fcorr_defaults_node_versions")
        if bool(out.get("modified")) != modified:
            part.disagree(f"{name} at {where[0]}: modified flag {modified} but the model says {out.get('modified')}",
                          case_id, out.get("modified"), modified)
    elif cmd == "inline.ruf":
        if not out.get("closed"):
            part.disagree(f"{name} at {where[0]}: the model's used set is not closed", case_id, out.get("used"), None)
        part.count("fcorr_ruf_modified=" + str(modified))
        part.count("fcorr_pure_main_before=" + str(out.get("pure_main")))
    got = fcanon(out["model"], domains=(cmd == "inline.ruo"))
    if got != expect:
        part.disagree(f"fstep {where}: model result != real pass result at {first_diff(got, expect)}",
                      case_id, _trunc(got), _trunc(expect))
    else:
        part.count("corr_agree")
        part.count("fcorr_agree:" + _base_name(name))


# === END CORRESPONDENCE =======================================================================

_F, _I, _B, _S = TP.FLOAT, TP.INT64, TP.BOOL, TP.STRING
KINDS: dict[str, tuple[int, tuple]] = {
    "F23": (_F, (2, 3)), "F3": (_F, (3,)), "F0": (_F, ()), "F33": (_F, (3, 3)),
    "F11": (_F, (1, 1)), "F21": (_F, (2, 1)), "F2": (_F, (2,)), "F1": (_F, (1,)),
    "F6": (_F, (6,)), "F63": (_F, (6, 3)), "F36": (_F, (3, 6)), "FL": (_F, (1100,)), "FN3": (_F, ("N", 3)),
    "I3": (_I, (3,)), "I0": (_I, ()), "I2": (_I, (2,)), "I1": (_I, (1,)),
    "B0": (_B, ()), "B23": (_B, (2, 3)), "B3": (_B, (3,)),
    "S0": (_S, ()), "S2": (_S, (2,)),
}
_NP = {_F: np.float32, _I: np.int64, _B: np.bool_}
_FLOAT_EW = ("F23", "F3", "F0", "F33")
_BOOL_OF = {"F23": "B23", "F3": "B3", "F0": "B0", "I3": "B3", "I0": "B0"}
_FVALS = [-3.0, -2.0, -1.5, -1.0, -0.5, 0.0, 0.5, 1.0, 1.5, 2.0, 3.0, 4.0]
_ALPHAS = [0.25, 0.5, 1.0, 1.5, 2.0, 0.0, -0.0]
_STRS = [b"a", b"bb", b"", b"xyz", b"a\x00", b"bb\x00\x00"]

# static parameters that some operators need as inputs with a known content: role -> (kind, content chooser)
_ROLES = {
    "axis01": ("I0", lambda r: r.choice([0, 1])),
    "k2": ("I1", lambda r: [2]),
    "split21": ("I2", lambda r: [2, 1]),
    "axes0": ("I1", lambda r: [0]),
    "axes1": ("I1", lambda r: [1]),
    "ratio": ("F0", lambda r: 0.5),
    "true": ("B0", lambda r: True),
    "trip": ("I0", lambda r: r.choice([1, 2, 2, 3])),
}


def _a_alpha(r):
    return {} if r.random() < 0.3 else {"alpha": r.choice(_ALPHAS)}


def _a_hs(r):
    return {"alpha": r.choice([0.2, 0.5]), "beta": r.choice([0.5, 0.25])} if r.random() < 0.6 else {}


def _a_kd0(r):
    return {"keepdims": 0}


def _a_gemm(r):
    d = {}
    if r.random() < 0.4:
        d["alpha"] = r.choice([0.5, 2.0])
    if r.random() < 0.4:
        d["beta"] = r.choice([0.5, 2.0])
    if r.random() < 0.3:
        d["transB"] = 1
    return d


def _a_gemm33(r):
    d = _a_gemm(r)
    if r.random() < 0.3:
        d["transA"] = 1
    return d


def _build_ops():
    ops: dict[str, list] = {}

    def sig(op, ins, outs, attrfn=None):
        ops.setdefault(op, []).append((op, tuple(ins), tuple(outs), attrfn))

    for k in _FLOAT_EW:
        for op in ("Add", "Sub", "Mul", "Div", "Max", "Min"):
            sig(op, [k, k], [k])
        for op in ("Neg", "Abs", "Relu", "Floor", "Sign", "Sqrt"):
            sig(op, [k], [k])
        for op in ("LeakyRelu", "Elu", "Selu", "Celu", "ThresholdedRelu"):
            sig(op, [k], [k], _a_alpha)
        sig("HardSigmoid", [k], [k], _a_hs)
        for op in ("Greater", "Less", "Equal", "GreaterOrEqual"):
            if k in _BOOL_OF:
                sig(op, [k, k], [_BOOL_OF[k]])
        if k in _BOOL_OF:
            sig("Where", [_BOOL_OF[k], k, k], [k])
            sig("IsNaN", [k], [_BOOL_OF[k]])
        sig("Where", ["B0", k, k], [k])
        for op in ("ReduceSum", "ReduceMax", "ReduceMin", "ReduceMean"):
            sig(op, [k], ["F0"], _a_kd0)
        sig("Clip", [k, "F0", "F0"], [k])
    for a, b, o in (("F23", "F3", "F23"), ("F23", "F0", "F23"), ("F0", "F23", "F23"), ("F3", "F0", "F3"),
                    ("F23", "F11", "F23"), ("F23", "F21", "F23"), ("F33", "F3", "F33"), ("F33", "F0", "F33")):
        for op in ("Add", "Sub", "Mul", "Div"):
            sig(op, [a, b], [o])
    for k in ("I3", "I0"):
        for op in ("Add", "Sub", "Mul", "Max", "Min"):
            sig(op, [k, k], [k])
        for op in ("Neg", "Abs"):
            sig(op, [k], [k])
        for op in ("Greater", "Less", "Equal"):
            sig(op, [k, k], [_BOOL_OF[k]])
    sig("Add", ["I3", "I0"], ["I3"])
    sig("Mul", ["I3", "I0"], ["I3"])
    sig("Where", ["B3", "I3", "I3"], ["I3"])
    sig("Where", ["B0", "I3", "I3"], ["I3"])
    for b in ("B0", "B3", "B23"):
        for op in ("And", "Or", "Xor"):
            sig(op, [b, b], [b])
        sig("Not", [b], [b])
    for a, o, to in (("F3", "I3", _I), ("F0", "I0", _I), ("I3", "F3", _F), ("I0", "F0", _F), ("B0", "F0", _F),
                     ("B3", "F3", _F), ("B23", "F23", _F), ("F23", "B23", _B), ("F3", "B3", _B), ("F0", "B0", _B),
                     ("I0", "B0", _B)):
        sig("Cast", [a], [o], (lambda to: (lambda r: {"to": int(to)}))(to))
    for k in ("F2", "F1", "F6", "F63", "F36", "FL", "FN3", "F11", "F21"):
        sig("ReduceSum", [k], ["F0"], _a_kd0)
        sig("ReduceMax", [k], ["F0"], _a_kd0)
    for k in ("I3", "I2", "I1"):
        sig("ReduceSum", [k], ["I0"], _a_kd0)
        sig("ReduceMax", [k], ["I0"], _a_kd0)
    sig("ReduceSum", ["F23"], ["F11"], lambda r: {"keepdims": 1})
    sig("ReduceSum", ["F23", "@axes0"], ["F3"], _a_kd0)
    sig("ReduceSum", ["F23", "@axes1"], ["F2"], _a_kd0)
    sig("Gemm", ["F23", "F33"], ["F23"], _a_gemm)
    sig("Gemm", ["F23", "F33", "F3"], ["F23"], _a_gemm)
    sig("Gemm", ["F33", "F33"], ["F33"], _a_gemm33)
    sig("Gemm", ["F33", "F33", "F3"], ["F33"], _a_gemm33)
    sig("MatMul", ["F23", "F33"], ["F23"])
    sig("MatMul", ["F33", "F33"], ["F33"])
    sig("MatMul", ["F3", "F33"], ["F3"])
    sig("Transpose", ["F33"], ["F33"], lambda r: {"perm": [1, 0]} if r.random() < 0.5 else {})
    sig("Concat", ["F3", "F3"], ["F6"], lambda r: {"axis": r.choice([0, -1])})
    sig("Concat", ["F33", "F33"], ["F63"], lambda r: {"axis": 0})
    sig("Concat", ["F33", "F33"], ["F36"], lambda r: {"axis": 1})
    sig("Softmax", ["F23"], ["F23"], lambda r: {"axis": r.choice([0, 1, -1])})
    sig("Trilu", ["F33"], ["F33"], lambda r: {"upper": r.choice([0, 1])})
    sig("CumSum", ["F23", "@axis01"], ["F23"], lambda r: {"reverse": r.choice([0, 1]), "exclusive": r.choice([0, 1])})
    sig("TopK", ["F3", "@k2"], ["F2", "I2"], lambda r: {"largest": r.choice([0, 1])})
    sig("TopK", ["F6", "@k2"], ["F2", "I2"], lambda r: {"largest": r.choice([0, 1]), "sorted": 1})
    sig("Split", ["F6"], ["F3", "F3"], lambda r: {"num_outputs": 2})
    sig("Split", ["F6"], ["F2", "F2", "F2"], lambda r: {"num_outputs": 3})
    sig("Split", ["F3", "@split21"], ["F2", "F1"])
    sig("Dropout", ["F23"], ["F23"])
    sig("Dropout", ["F23"], ["F23", "B23"])
    sig("Dropout", ["F23", "@ratio"], ["F23", "B23"])
    sig("BatchNormalization", ["F23", "F3", "F3", "F3", "F3"], ["F23"],
        lambda r: {"epsilon": 0.5} if r.random() < 0.4 else {})
    sig("LayerNormalization", ["F23", "F3"], ["F23"], lambda r: {"axis": -1} if r.random() < 0.5 else {})
    sig("LayerNormalization", ["F23", "F3", "F3"], ["F23", "F21", "F21"], lambda r: {"epsilon": 0.5})
    sig("Shape", ["F23"], ["I2"])
    sig("Size", ["F23"], ["I0"])
    return ops


_OPS = _build_ops()
_OP_TYPES = sorted(_OPS)
_SIGS_BY_OUT: dict[str, list] = {}
for _op in _OP_TYPES:
    for _s in _OPS[_op]:
        if len(_s[2]) == 1:
            _SIGS_BY_OUT.setdefault(_s[2][0], []).append(_s)
_UNSOURCEABLE = {"FN3"}
_CONST_FORMS = {
    "F0": ("value_float", "value"), "I0": ("value_int", "value"),
    "F3": ("value_floats", "value"), "F1": ("value_floats", "value"), "F2": ("value_floats", "value"),
    "F6": ("value_floats", "value"), "I3": ("value_ints", "value"), "I2": ("value_ints", "value"),
    "I1": ("value_ints", "value"), "S0": ("value_string", "value"), "S2": ("value_strings", "value"),
}
_CF_OPS = {"If", "Loop"}


# ================================================================================ (A) generator


def _vi(name: str, kind: str):
    et, shape = KINDS[kind]
    return oh.make_tensor_value_info(name, et, list(shape))


class _Scope:
    """One graph under construction: main graph, If/Loop body ("sub") or a function body ("func")."""

    def __init__(self, kind: str, parent: "_Scope | None" = None):
        self.kind = kind
        self.parent = parent
        self.depth = 0 if parent is None else parent.depth + 1
        self.recs: list[dict] = []  # {"node", "outs": [(name, kind)], "cf": bool}
        self.inits: list = []
        self.init_kinds: dict[str, str] = {}
        self.inputs: list[tuple[str, str]] = []
        self.vals: dict[str, list[str]] = {}
        self.src: dict[str, str] = {}  # own value -> "input" | "init" | "node"
        self.vinfo: list = []
        self.roles: dict[str, list[str]] = {}
        self.func_attrs: list = [] if parent is None else parent.func_attrs
        self.uses_local = False

    def root(self) -> "_Scope":
        s = self
        while s.parent is not None:
            s = s.parent
        return s

    def add(self, name: str, kind: str, src: str) -> None:
        self.vals.setdefault(kind, []).append(name)
        self.src[name] = src

    def chain(self):
        s, out = self, []
        while s is not None:
            out.append(s)
            s = s.parent
        return out[::-1]  # outermost first

    def graph(self, name: str, outputs: list[tuple[str, str]]):
        skip = {n for n, _ in self.inputs} | {n for n, _ in outputs}
        vinfo = [v for v in self.vinfo if v.name not in skip]
        return oh.make_graph(
            [r["node"] for r in self.recs], name, [_vi(n, k) for n, k in self.inputs],
            [_vi(n, k) for n, k in outputs], initializer=self.inits, value_info=vinfo,
        )


class _Fn:
    def __init__(self, name, in_kinds, out_kinds, attrs):
        self.name, self.in_kinds, self.out_kinds, self.attrs = name, in_kinds, out_kinds, attrs
        self.index = -1


class _Gen:
    MAX_FUNCS = 4

    def __init__(self, rng: random.Random, size: int):
        self.rng = rng
        self.size = size
        self.opset = rng.choice([18, 18, 20])
        self.ir_version = rng.choice([9, 10])
        self.n = 0
        self.feat: set[str] = set()
        self.dead: set[str] = set()
        self.consumed: set[str] = set()
        self.prefer_out: list[str] = []
        self.funcs: list[_Fn] = []
        self.func_protos: list = []
        self.fn_building = 0
        self.total_nodes = 0
        self.max_depth = 0

    # ---- names / contents
    def fresh(self, p: str = "v") -> str:
        self.n += 1
        return f"{p}{self.n}"

    def content(self, kind: str):
        et, shape = KINDS[kind]
        r = self.rng
        size = int(np.prod(shape)) if shape else 1
        if et == _S:
            vals = [r.choice(_STRS) for _ in range(size)]
            return vals if shape else vals[0]
        if size > 64:
            rs = np.random.RandomState(r.randrange(2**31))
            return rs.randint(-4, 5, size=shape).astype(_NP[et])
        if et == _F:
            vals = [r.choice(_FVALS) for _ in range(size)]
        elif et == _I:
            vals = [r.randint(-3, 4) for _ in range(size)]
        else:
            vals = [r.random() < 0.5 for _ in range(size)]
        return np.array(vals, dtype=_NP[et]).reshape(shape)

    def tensor(self, name: str, kind: str, content, raw=None):
        et, shape = KINDS[kind]
        if et == _S:
            vals = content if isinstance(content, list) else [content]
            t = TP(name=name, data_type=_S, dims=list(shape))  # (helper.make_tensor goes through numpy: drops NULs)
            t.string_data.extend(vals)
            return t
        arr = np.asarray(content, dtype=_NP[et]).reshape(shape)
        if raw is None:
            raw = self.rng.random() < 0.5
        if raw or et == _B and False:
            return onh.from_array(arr, name)
        flat = arr.ravel().tolist()
        return oh.make_tensor(name, et, list(shape), flat)

    # ---- value access
    def visible(self, sc: _Scope, kind: str) -> list[str]:
        out = []
        for s in sc.chain():
            out += [v for v in s.vals.get(kind, ()) if v not in self.dead]
        return out

    def outer_visible(self, sc: _Scope, kind: str) -> list[str]:
        return self.visible(sc.parent, kind) if sc.parent is not None else []

    def own_node_vals(self, sc: _Scope, kind: str) -> list[str]:
        return [v for v in sc.vals.get(kind, ()) if sc.src[v] == "node" and v not in self.dead]

    def pick(self, sc: _Scope, kind: str) -> str:
        c = self.visible(sc, kind)
        if c and (kind in _UNSOURCEABLE or self.rng.random() < 0.92):
            if self.rng.random() < 0.6:
                return self.rng.choice(c[-3:])
            return self.rng.choice(c)
        return self.source(sc, kind)

    def source(self, sc: _Scope, kind: str) -> str:
        assert kind not in _UNSOURCEABLE, kind
        if sc.root().kind != "func" and self.rng.random() < 0.45:
            return self.new_init(sc, kind)
        return self.new_const(sc, kind)

    def role_value(self, sc: _Scope, role: str) -> str:
        c = []
        for s in sc.chain():
            c += [v for v in s.roles.get(role, ()) if v not in self.dead]
        if c and self.rng.random() < 0.5:
            return self.rng.choice(c)
        kind, chooser = _ROLES[role]
        content = chooser(self.rng)
        if sc.root().kind != "func" and self.rng.random() < 0.4:
            v = self.new_init(sc, kind, content)
        else:
            v = self.new_const(sc, kind, content)
        sc.roles.setdefault(role, []).append(v)
        return v

    def new_init(self, sc: _Scope, kind: str, content=None, name=None, raw=None) -> str:
        name = name or self.fresh("w")
        if content is None:
            content = self.content(kind)
        sc.inits.append(self.tensor(name, kind, content, raw))
        sc.init_kinds[name] = kind
        sc.add(name, kind, "init")
        self.feat.add("init" if sc.kind == "main" else "init_sub")
        if KINDS[kind][0] == _S:
            self.feat.add("init_string")
        if kind == "FL":
            self.feat.add("init_large")
        return name

    def new_const(self, sc: _Scope, kind: str, content=None, form=None, dead=False) -> str:
        if content is None:
            content = self.content(kind)
        forms = _CONST_FORMS.get(kind, ("value",))
        form = form or self.rng.choice(forms)
        et, shape = KINDS[kind]
        if form == "value":
            val = self.tensor(self.fresh("t"), kind, content)
            n = int(np.prod(shape)) if shape else 1
            self.feat.add("const_value_large" if n > 16 else "const_value_small")
        elif et == _S:
            val = content
        elif form in ("value_float", "value_int"):
            val = float(content) if et == _F else int(content)
        else:
            val = [float(x) if et == _F else int(x) for x in np.asarray(content).ravel().tolist()]
        self.feat.add("const_" + form)
        return self.emit(sc, "Constant", [], [kind], {form: val}, dead=dead)[0]

    # ---- node emission
    def emit(self, sc: _Scope, op: str, ins, out_kinds, attrs=None, domain="", dead=False, ref_attrs=None,
             out_names=None) -> list[str]:
        r = self.rng
        outs = []
        for i, k in enumerate(out_kinds):
            if out_names is not None and out_names[i] is not None:
                outs.append(out_names[i])
            else:
                outs.append("" if k is None else self.fresh())
        node = oh.make_node(op, list(ins), outs, **(attrs or {}))
        if domain:
            node.domain = domain
            sc.root().uses_local = True
            s = sc
            while s is not None:
                s.uses_local = True
                s = s.parent
        for an, (rn, at) in (ref_attrs or {}).items():
            node.attribute.append(onnx.AttributeProto(name=an, ref_attr_name=rn, type=at))
        x = r.random()
        if x < 0.25:
            node.name = ""
            self.feat.add("node_noname")
        elif x < 0.33:
            node.name = "dup"
            self.feat.add("node_dupname")
        else:
            node.name = self.fresh("n")
        if r.random() < 0.1:
            node.doc_string = "doc " + op
            self.feat.add("meta")
        if r.random() < 0.1:
            e = node.metadata_props.add()
            e.key, e.value = "k", op
            self.feat.add("meta")
        sc.recs.append({"node": node, "outs": [(n, k) for n, k in zip(outs, out_kinds) if k], "cf": op in _CF_OPS})
        self.total_nodes += 1
        for v in ins:
            if v:
                self.consumed.add(v)
        for n, k in zip(outs, out_kinds):
            if not k:
                continue
            sc.add(n, k, "node")
            if dead:
                self.dead.add(n)
            if r.random() < 0.5:
                et, shape = KINDS[k]
                sc.vinfo.append(oh.make_tensor_value_info(n, et, list(shape)))
        return outs

    def emit_sig(self, sc: _Scope, s, dead=False) -> list[str]:
        op, ins, outs, attrfn = s
        names = []
        for k in ins:
            if k.startswith("@"):
                names.append(self.role_value(sc, k[1:]))
            else:
                names.append(self.pick(sc, k))
        return self.emit(sc, op, names, list(outs), attrfn(self.rng) if attrfn else None, dead=dead)

    def usable(self, sc: _Scope, s) -> bool:
        return all(k.startswith("@") or k not in _UNSOURCEABLE or self.visible(sc, k) for k in s[1])

    def make_kind(self, sc: _Scope, kind: str) -> str:
        """Emit one node in `sc` whose single output has `kind` (so the value is produced in this graph)."""
        sigs = [s for s in _SIGS_BY_OUT.get(kind, ()) if self.usable(sc, s)]
        if not sigs or self.rng.random() < 0.15:
            if kind in _UNSOURCEABLE:
                raise AssertionError(kind)
            return self.new_const(sc, kind)
        return self.emit_sig(sc, self.rng.choice(sigs))[0]

    # ---- feature actions (each adds a few nodes to `sc`)
    def a_ew(self, sc):
        for _ in range(6):
            op = self.rng.choice(_OP_TYPES)
            sigs = [s for s in _OPS[op] if self.usable(sc, s)]
            if sigs:
                s = self.rng.choice(sigs)
                self.emit_sig(sc, s)
                if len(s[2]) > 1:
                    self.feat.add("multi_out")
                return

    def any_value(self, sc, outer_only=False):
        kinds = [k for k in KINDS if (self.outer_visible(sc, k) if outer_only else self.visible(sc, k))]
        if not kinds:
            return None, None
        k = self.rng.choice(kinds)
        return self.rng.choice(self.outer_visible(sc, k) if outer_only else self.visible(sc, k)), k

    def a_identity(self, sc):
        v, k = self.any_value(sc)
        if v is None:
            return self.a_ew(sc)
        self.feat.add("identity")
        o = self.emit(sc, "Identity", [v], [k])[0]
        if sc.kind == "sub" and v not in sc.src:
            self.feat.add("id_of_outer")
        if self.rng.random() < 0.35:
            self.feat.add("id_chain")
            for _ in range(self.rng.randint(1, 2)):
                o = self.emit(sc, "Identity", [o], [k])[0]

    def a_dup(self, sc):
        recs = [r for r in sc.recs if not r["cf"] and all(n not in self.dead for n, _ in r["outs"])]
        if not recs:
            return self.a_ew(sc)
        rec = self.rng.choice(recs)
        src = rec["node"]
        attrs_copy = list(src.attribute)
        outs = self.emit(sc, src.op_type, list(src.input), [k for _, k in rec["outs"]], domain=src.domain)
        node = sc.recs[-1]["node"]
        # keep "" outputs of the original in the same positions
        if len(src.output) != len(node.output):
            names = iter(outs)
            del node.output[:]
            node.output.extend([next(names) if o else "" for o in src.output])
        node.attribute.extend(attrs_copy)
        self.feat.add("dup_node")
        if src.op_type in ("RandomNormal", "RandomUniform", "RandomNormalLike"):
            self.feat.add("dup_random")
        if src.domain:
            self.feat.add("dup_call")
        if self.rng.random() < 0.3:
            self.prefer_out += [outs[0], rec["outs"][0][0]]
            self.feat.add("dup_outputs")

    def a_dup_attr(self, sc):
        r = self.rng
        c = r.randrange(7)
        self.feat.add("dup_attr")
        if c == 0:
            k = r.choice(_FLOAT_EW)
            x = self.pick(sc, k)
            op = r.choice(["LeakyRelu", "Elu", "Selu", "Celu", "ThresholdedRelu"])
            a1, a2 = r.sample([0.25, 0.5, 1.0, 1.5, 2.0], 2)
            self.emit(sc, op, [x], [k], {"alpha": a1})
            self.emit(sc, op, [x], [k], {"alpha": a2} if r.random() < 0.8 else {})
        elif c == 1:
            a, b, cc = self.pick(sc, "F23"), self.pick(sc, "F33"), self.pick(sc, "F3")
            which = r.choice(["alpha", "beta", "transB"])
            v1, v2 = (0, 1) if which == "transB" else (0.5, 2.0)
            self.emit(sc, "Gemm", [a, b, cc], ["F23"], {which: v1})
            self.emit(sc, "Gemm", [a, b, cc], ["F23"], {which: v2})
        elif c == 2:
            x = self.pick(sc, "F23")
            self.emit(sc, "ReduceSum", [x], ["F0"], {"keepdims": 0})
            self.emit(sc, "ReduceSum", [x], ["F11"], {"keepdims": 1})
        elif c == 3:
            x, k = self.pick(sc, "F3"), self.role_value(sc, "k2")
            self.emit(sc, "TopK", [x, k], ["F2", "I2"], {"largest": 0})
            self.emit(sc, "TopK", [x, k], ["F2", "I2"], {"largest": 1} if r.random() < 0.7 else {})
            self.feat.add("multi_out")
        elif c == 4:
            a, b = self.pick(sc, "F33"), self.pick(sc, "F33")
            self.emit(sc, "Concat", [a, b], ["F63"], {"axis": 0})
            self.emit(sc, "Concat", [a, b], ["F36"], {"axis": 1})
        elif c == 5:
            x, ax = self.pick(sc, "F23"), self.role_value(sc, "axis01")
            self.emit(sc, "CumSum", [x, ax], ["F23"], {"reverse": 0})
            self.emit(sc, "CumSum", [x, ax], ["F23"], {"reverse": 1})
        else:
            x = self.pick(sc, "F33")
            self.emit(sc, "Trilu", [x], ["F33"], {"upper": 0})
            self.emit(sc, "Trilu", [x], ["F33"], {"upper": 1})

    def a_dup_nout(self, sc):
        r = self.rng
        c = r.randrange(3)
        self.feat.add("dup_nout")
        self.feat.add("multi_out")
        if c == 0:
            x = self.pick(sc, "F23")
            self.emit(sc, "Dropout", [x], ["F23"])
            self.emit(sc, "Dropout", [x], ["F23", "B23"])
        elif c == 1:
            x, s, b = self.pick(sc, "F23"), self.pick(sc, "F3"), self.pick(sc, "F3")
            self.emit(sc, "LayerNormalization", [x, s, b], ["F23"])
            self.emit(sc, "LayerNormalization", [x, s, b], ["F23", "F21", "F21"])
        else:
            x = self.pick(sc, "F6")
            self.emit(sc, "Split", [x], ["F3", "F3"], {"num_outputs": 2})
            self.emit(sc, "Split", [x], ["F2", "F2", "F2"], {"num_outputs": 3})

    def consume(self, sc, v, kind):
        """Give a freshly made value a consumer (so it is live) with some probability."""
        r = self.rng
        et = KINDS[kind][0]
        if et == _S:
            if r.random() < 0.6:
                o = self.emit(sc, "Identity", [v], [kind])[0]
                self.feat.add("identity")
                if sc.kind == "main" and r.random() < 0.6:
                    self.prefer_out.append(o)
            elif sc.kind == "main":
                self.prefer_out.append(v)
            return
        sigs = [s for op in ("Add", "Mul", "Sub", "Div", "ReduceSum", "ReduceMax", "Cast", "And", "Or", "Where")
                for s in _OPS.get(op, ()) if kind in s[1] and self.usable(sc, s)]
        if not sigs or r.random() < 0.15:
            return
        op, ins, outs, attrfn = r.choice(sigs)
        pos = r.choice([i for i, k in enumerate(ins) if k == kind])
        names = [v if i == pos else (self.role_value(sc, k[1:]) if k.startswith("@") else self.pick(sc, k))
                 for i, k in enumerate(ins)]
        self.emit(sc, op, names, list(outs), attrfn(r) if attrfn else None)

    def a_const(self, sc):
        r = self.rng
        kind = r.choice(["F0", "F0", "I0", "F3", "I3", "F23", "F33", "B0", "S0", "S2", "F63", "F36", "F1", "I1", "FL"])
        v = self.new_const(sc, kind)
        self.consume(sc, v, kind)

    def a_const_dup(self, sc):
        r = self.rng
        kind = r.choice(["F0", "I0", "F3", "I3", "F23", "B0", "S2", "F63"])
        content = self.content(kind)
        form = r.choice(_CONST_FORMS.get(kind, ("value",)))
        v1 = self.new_const(sc, kind, content, form)
        v2 = self.new_const(sc, kind, content, form if r.random() < 0.8 else None)
        self.feat.add("const_dup")
        self.consume(sc, v1, kind)
        self.consume(sc, v2, kind)

    def a_signed_zero(self, sc):
        r = self.rng
        k = r.choice(["F3", "F23"])
        x = self.pick(sc, k)
        c = r.randrange(5)
        self.feat.add("signed_zero")
        if c == 4:
            o1 = self.emit(sc, "LeakyRelu", [x], [k], {"alpha": 0.0})[0]
            o2 = self.emit(sc, "LeakyRelu", [x], [k], {"alpha": -0.0})[0]
        else:
            if c == 0:
                z1 = self.new_const(sc, "F0", 0.0, "value_float")
                z2 = self.new_const(sc, "F0", -0.0, "value_float")
            elif c == 1:
                z1 = self.new_const(sc, "F0", 0.0, "value")
                z2 = self.new_const(sc, "F0", -0.0, "value")
            elif c == 2:
                z1 = self.new_const(sc, "F1", [0.0], "value_floats")
                z2 = self.new_const(sc, "F1", [-0.0], "value_floats")
            else:
                z1 = self.new_const(sc, "F1", [0.0], "value")
                z2 = self.new_const(sc, "F1", [-0.0], "value")
            o1 = self.emit(sc, "Div", [x, z1], [k])[0]
            o2 = self.emit(sc, "Div", [x, z2], [k])[0]
        if sc.kind == "main":
            self.prefer_out += [o1, o2]

    def a_const_dtype_twins(self, sc):
        """two small `value` Constants with the same shape and the same raw bytes but different element types
        (float32/int32, int32/uint32, bool/uint8, int64/double), both consumed through Cast(to=FLOAT): a CSE key
        that ignores the tensor dtype merges them and the second Cast reads the wrong type"""
        r = self.rng
        self.feat.add("const_dtype_twins")
        t1, t2, width = r.choice([(TP.FLOAT, TP.INT32, 4), (TP.INT32, TP.UINT32, 4), (TP.BOOL, TP.UINT8, 1),
                                  (TP.INT64, TP.DOUBLE, 8), (TP.FLOAT, TP.UINT32, 4)])
        if width == 1:
            raw = bytes(r.choice([0, 1]) for _ in range(3))
        else:
            raw = b"".join(int(r.choice([0, 1, 2, 3, 1065353216 if width == 4 else 1])).to_bytes(width, "little")
                           for _ in range(3))
        outs = []
        for et in (t1, t2):
            c = self.fresh()
            node = oh.make_node("Constant", [], [c], value=TP(name=self.fresh("t"), data_type=et, dims=[3], raw_data=raw))
            node.name = self.fresh("n")
            sc.recs.append({"node": node, "outs": [], "cf": True})
            self.total_nodes += 1
            outs.append(self.emit(sc, "Cast", [c], ["F3"], {"to": TP.FLOAT})[0])
        if sc.kind == "main":
            self.prefer_out += outs
        else:
            self.emit(sc, "Add", outs, ["F3"])

    def a_nan_const(self, sc):
        r = self.rng
        self.feat.add("nan_const")
        if r.random() < 0.5:
            v, k = self.new_const(sc, "F0", float("nan"), "value_float"), "F0"
        else:
            k = r.choice(["F3", "F23"])
            arr = self.content(k)
            arr.ravel()[r.randrange(arr.size)] = np.nan
            v = self.new_const(sc, k, arr, r.choice(_CONST_FORMS.get(k, ("value",))))
        if r.random() < 0.5:
            v2 = self.new_const(sc, "F0", float("nan"), "value_float") if k == "F0" else None
            if v2:
                self.consume(sc, v2, "F0")
        self.consume(sc, v, k)

    # (sparse_value Constants are not generated: onnx_ir.serde raises NotImplementedError for sparse tensors,
    # a documented limitation, so such a model cannot even be loaded)

    def a_init(self, sc):
        r = self.rng
        if sc.root().kind == "func":
            return self.a_const(sc)
        c = r.random()
        if c < 0.28:  # plain, maybe also a graph input
            kind = r.choice(["F23", "F3", "F3", "I3", "F0", "F33", "B0", "I0"])
            v = self.new_init(sc, kind)
            if sc.kind == "main" and r.random() < 0.6:
                sc.inputs.insert(r.randint(0, len(sc.inputs)), (v, kind))
                self.feat.add("init_is_input")
            self.consume(sc, v, kind)
        elif c < 0.36:  # same bytes, different shape: must NOT be merged
            k1, k2 = r.choice([("F0", "F1"), ("F6", "F23"), ("I0", "I1"), ("F1", "F0"), ("F23", "F6")])
            content = self.content(k1)
            v1 = self.new_init(sc, k1, content)
            v2 = self.new_init(sc, k2, np.asarray(content).reshape(KINDS[k2][1]))
            self.feat.add("init_same_bytes_other_shape")
            self.consume(sc, v1, k1)
            self.consume(sc, v2, k2)
            if sc.kind == "main" and r.random() < 0.5:
                self.prefer_out += [self.emit(sc, "Identity", [v1], [k1])[0], self.emit(sc, "Identity", [v2], [k2])[0]]
        elif c < 0.68:  # duplicates (same dtype/shape/content, storage may differ)
            kind = r.choice(["F3", "F23", "I3", "F0", "F33", "S2", "FL", "B0"])
            content = self.content(kind)
            v1 = self.new_init(sc, kind, content)
            v2 = self.new_init(sc, kind, content)
            self.feat.add("init_dup" if sc.kind == "main" else "init_dup_sub")
            if KINDS[kind][0] != _S and kind != "FL" and r.random() < 0.5:
                x = self.pick(sc, kind)
                op = r.choice(["Add", "Mul"]) if KINDS[kind][0] != _B else "And"
                self.emit(sc, op, [x, v1], [kind])
                self.emit(sc, op, [x, v2], [kind])
                self.feat.add("dup_after_dedup")
            else:
                self.consume(sc, v1, kind)
                self.consume(sc, v2, kind)
        elif c < 0.78:  # large
            v = self.new_init(sc, "FL")
            self.consume(sc, v, "FL")
        elif c < 0.87:  # strings
            kind = r.choice(["S0", "S2"])
            v = self.new_init(sc, kind)
            self.consume(sc, v, kind)
        elif c < 0.94:  # unused
            v = self.new_init(sc, r.choice(["F3", "I3", "S2", "FL"]))
            self.dead.add(v)
            self.feat.add("init_unused")
        else:
            self.a_string_nul(sc)

    def a_string_nul(self, sc):
        if sc.root().kind == "func":
            return self.a_const(sc)
        self.feat.add("string_nul_pair")
        v1 = self.new_init(sc, "S2", [b"a\x00", b"bb"])
        v2 = self.new_init(sc, "S2", [b"a", b"bb"])
        o1 = self.emit(sc, "Identity", [v1], ["S2"])[0]
        o2 = self.emit(sc, "Identity", [v2], ["S2"])[0]
        if sc.kind == "main":
            self.prefer_out += [o1, o2]

    def a_optional(self, sc):
        r = self.rng
        c = r.randrange(6)
        self.feat.add("optional_io")
        if c <= 1:
            k = r.choice(_FLOAT_EW)
            x, lo, hi = self.pick(sc, k), self.pick(sc, "F0"), self.pick(sc, "F0")
            ins = r.choice([[x, "", hi], [x, lo, ""], [x, lo], [x], [x, "", ""], [x, lo, hi]])
            self.emit(sc, "Clip", ins, [k])
            self.feat.add("opt_in_middle" if len(ins) == 3 and ins[1] == "" and ins[2] else "opt_in_trailing")
        elif c == 2:
            x = self.pick(sc, "F23")
            ins = r.choice([[x, "", ""], [x, self.role_value(sc, "ratio"), ""], [x, ""]])
            self.emit(sc, "Dropout", ins, r.choice([["F23"], ["F23", "B23"], ["F23", None]]))
            self.feat.add("opt_in_trailing")
        elif c == 3:
            x, s = self.pick(sc, "F23"), self.pick(sc, "F3")
            outs = r.choice([["F23", None, "F21"], ["F23", "F21", None], ["F23", None, None], ["F23", "F21", "F21"]])
            self.emit(sc, "LayerNormalization", r.choice([[x, s, ""], [x, s], [x, s, self.pick(sc, "F3")]]), outs)
            self.feat.add("opt_out")
        elif c == 4:
            x = self.pick(sc, "F23")
            self.emit(sc, "Dropout", [x], ["F23", "B23"])  # mask usually unused -> optional output trimming
            self.feat.add("opt_out")
        else:
            x = self.pick(sc, "F23")
            ps = [self.pick(sc, "F3") for _ in range(4)]
            self.emit(sc, "BatchNormalization", [x, *ps], ["F23"], {"momentum": 0.5} if r.random() < 0.5 else {})

    def a_bn_training(self, sc):
        # BatchNormalization(training_mode=1) whose running_mean / running_var outputs are unused (D36)
        self.feat.add("bn_training")
        x = self.pick(sc, "F23")
        ps = [self.pick(sc, "F3") for _ in range(4)]
        outs = self.emit(sc, "BatchNormalization", [x, *ps], ["F23", "F3", "F3"], {"training_mode": 1})
        self.dead.update(outs[1:])
        if sc.kind == "main":
            self.prefer_out.append(outs[0])

    def a_random(self, sc):
        r = self.rng
        self.feat.add("random_op")
        seed = float(r.randint(0, 5))
        c = r.randrange(3)
        if c == 0:
            self.emit(sc, "RandomNormal", [], ["F23"], {"shape": [2, 3], "seed": seed, "dtype": 1})
        elif c == 1:
            self.emit(sc, "RandomUniform", [], ["F3"], {"shape": [3], "seed": seed, "low": -1.0, "high": 2.0})
        else:
            self.emit(sc, "RandomNormalLike", [self.pick(sc, "F23")], ["F23"], {"seed": seed})
        if r.random() < 0.5:
            self.a_dup_last(sc)

    def a_dup_last(self, sc):
        rec = sc.recs[-1]
        src = rec["node"]
        self.emit(sc, src.op_type, list(src.input), [k for _, k in rec["outs"]])
        sc.recs[-1]["node"].attribute.extend(list(src.attribute))
        self.feat.add("dup_random")

    def a_dead(self, sc):
        r = self.rng
        self.feat.add("dead_node" if sc.kind != "sub" else "dead_in_sub")
        for _ in range(6):
            op = r.choice(_OP_TYPES)
            sigs = [s for s in _OPS[op] if self.usable(sc, s) and len(s[2]) == 1]
            if not sigs:
                continue
            s = r.choice(sigs)
            o = self.emit_sig(sc, s, dead=True)[0]
            k = s[2][0]
            for _ in range(r.choice([0, 0, 1, 2])):  # dead chain
                o = self.emit(sc, "Identity" if r.random() < 0.5 else "Neg" if KINDS[k][0] in (_F, _I) else "Identity",
                              [o], [k], dead=True)[0]
                self.feat.add("dead_chain")
            return

    # ---- control flow
    def pick_cond(self, sc) -> str:
        r = self.rng
        c = self.visible(sc, "B0")
        if c and r.random() < 0.4:
            return r.choice(c)
        k = r.choice(["F23", "F3"])
        x = self.pick(sc, k)
        s = self.emit(sc, "ReduceSum", [x], ["F0"], {"keepdims": 0})[0]
        self.feat.add("reduce_cond")
        return self.emit(sc, r.choice(["Greater", "Less"]), [s, self.pick(sc, "F0")], ["B0"])[0]

    def sub_output(self, sub: _Scope, kind: str, taken: list[str], loop_in: str | None = None) -> str:
        """A value of `kind` that may legally be an output of subgraph `sub` (and is not in `taken`)."""
        r = self.rng
        own = [v for v in self.own_node_vals(sub, kind) if v not in taken]
        outer = self.outer_visible(sub, kind)
        x = r.random()
        if loop_in is not None and x < 0.45 and kind not in ("B0",):
            sigs = [s for s in _SIGS_BY_OUT.get(kind, ()) if s[1] == (kind, kind)]
            if sigs:
                s = r.choice(sigs)
                other = self.pick(sub, kind)
                ins = [loop_in, other] if r.random() < 0.7 else [other, loop_in]
                return self.emit(sub, s[0], ins, [kind])[0]
        if loop_in is not None and x < 0.55 and loop_in not in taken:
            self.feat.add("sub_out_is_sub_in")
            return loop_in
        if loop_in is not None and x < 0.65:
            self.feat.add("identity")
            return self.emit(sub, "Identity", [loop_in], [kind])[0]
        if outer and r.random() < 0.07:
            self.feat.add("id_outer_subout")
            self.feat.add("identity")
            return self.emit(sub, "Identity", [r.choice(outer)], [kind])[0]
        if own and r.random() < 0.6:
            return r.choice(own)
        y = r.random()
        if own and y < 0.2:
            self.feat.add("identity")
            return self.emit(sub, "Identity", [r.choice(own)], [kind])[0]
        if y < 0.35 and kind not in _UNSOURCEABLE and sub.root().kind != "func":
            w = self.new_init(sub, kind)
            self.feat.add("identity")
            return self.emit(sub, "Identity", [w], [kind])[0]
        return self.make_kind(sub, kind)

    def branch(self, parent: _Scope, out_kinds: list[str], name: str):
        r = self.rng
        sub = _Scope("sub", parent)
        self.max_depth = max(self.max_depth, sub.depth)
        for _ in range(r.choice([0, 0, 1, 1, 2, 3])):
            self.step(sub)
        if sub.func_attrs and r.random() < 0.3:
            self.ref_node(sub, r.choice(sub.func_attrs))
        taken: list[str] = []
        for k in out_kinds:
            taken.append(self.sub_output(sub, k, taken))
        if r.random() < 0.2:
            self.a_dead(sub)
        return sub.graph(self.fresh(name), list(zip(taken, out_kinds)))

    def a_if(self, sc):
        r = self.rng
        self.feat.add("if" if sc.kind != "sub" else "nested_cf")
        if sc.root().kind == "func":
            self.feat.add("fn_with_if")
        cond = self.pick_cond(sc)
        pool = [k for k in ("F23", "F3", "I3", "F0", "B0", "F33", "S2") if self.visible(sc, k)] or ["F3"]
        out_kinds = [r.choice(pool) for _ in range(r.choice([1, 1, 2]))]
        tg = self.branch(sc, out_kinds, "then")
        eg = self.branch(sc, out_kinds, "else")
        fk = [k for k in ("F3", "F23") if self.visible(sc, k)]
        if fk and r.random() < 0.4:
            # sibling scopes may reuse a name: the same local name with DIFFERENT types in the two branches
            x = r.choice(self.visible(sc, r.choice(fk)))
            shared = self.fresh("s")
            tg.node.append(oh.make_node("Cast", [x], [shared], to=_I, name=self.fresh("n")))
            eg.node.append(oh.make_node("Neg", [x], [shared], name=self.fresh("n")))
            self.consumed.add(x)
            self.feat.add("sibling_same_name")
        self.emit(sc, "If", [cond], out_kinds, {"then_branch": tg, "else_branch": eg})

    def a_loop(self, sc):
        r = self.rng
        self.feat.add("loop" if sc.kind != "sub" else "nested_cf")
        carried = [r.choice(["F3", "F23", "I3", "F0"]) for _ in range(r.randint(1, 2))]
        n_scan = r.choice([0, 1, 1])
        mode = r.choice(["M", "M", "M+cond", "cond"])
        m_in = self.role_value(sc, "trip") if mode != "cond" else ""
        if mode == "cond":
            self.feat.add("opt_in_middle")
        cond0 = self.role_value(sc, "true")
        v_init = [self.pick(sc, k) for k in carried]
        body = _Scope("sub", sc)
        self.max_depth = max(self.max_depth, body.depth)
        it, ci = self.fresh("it"), self.fresh("ci")
        cin = [self.fresh("lc") for _ in carried]
        body.inputs = [(it, "I0"), (ci, "B0")] + list(zip(cin, carried))
        for n, k in body.inputs:
            body.add(n, k, "input")
        for _ in range(r.choice([0, 1, 1, 2, 3])):
            self.step(body)
        outs: list[str] = []
        # condition
        if mode == "M":
            c = r.randrange(3)
            if c == 0:
                co = ci
                self.feat.add("sub_out_is_sub_in")
            elif c == 1:
                co = self.emit(body, "Identity", [ci], ["B0"])[0]
                self.feat.add("identity")
            else:
                co = self.new_const(body, "B0", True)
        elif mode == "M+cond" and r.random() < 0.5 and any(KINDS[k][0] == _F for k in carried):
            j = [i for i, k in enumerate(carried) if KINDS[k][0] == _F][0]
            s = self.emit(body, "ReduceSum", [cin[j]], ["F0"], {"keepdims": 0})[0]
            co = self.emit(body, "Less", [s, self.pick(body, "F0")], ["B0"])[0]
        else:
            lim = self.new_const(body, "I0", r.choice([1, 2]))
            co = self.emit(body, "Less", [it, lim], ["B0"])[0]
        outs.append(co)
        for n, k in zip(cin, carried):
            outs.append(self.sub_output(body, k, outs, loop_in=n))
        for _ in range(n_scan):
            self.feat.add("loop_scan")
            outs.append(self.sub_output(body, "F3", outs))
        if r.random() < 0.2:
            self.a_dead(body)
        g = body.graph(self.fresh("body"), list(zip(outs, ["B0"] + carried + ["F3"] * n_scan)))
        self.emit(sc, "Loop", [m_in, cond0, *v_init], carried + ["FN3"] * n_scan, {"body": g})

    # ---- model-local functions
    def ref_node(self, sc: _Scope, attr) -> None:
        """A node in a function body (or a subgraph of it) with attribute `ref_attr_name`."""
        r = self.rng
        an, at, _default = attr
        self.feat.add("fn_ref_attr")
        if at == "f":
            c = r.randrange(5)
            if c <= 1:
                k = r.choice(_FLOAT_EW)
                op, key = r.choice([("Selu", "alpha"), ("Celu", "alpha"), ("Shrink", "lambd"), ("Selu", "gamma")])
                self.emit(sc, op, [self.pick(sc, k)], [k], ref_attrs={key: (an, onnx.AttributeProto.FLOAT)})
            elif c == 2:
                v = self.emit(sc, "Constant", [], ["F0"], ref_attrs={"value_float": (an, onnx.AttributeProto.FLOAT)})[0]
                k = r.choice(["F23", "F3"])
                self.emit(sc, "Mul", [self.pick(sc, k), v], [k])
            elif c == 3:
                self.emit(sc, "Gemm", [self.pick(sc, "F23"), self.pick(sc, "F33")], ["F23"],
                          ref_attrs={"alpha": (an, onnx.AttributeProto.FLOAT)})
            else:
                self.emit(sc, "LayerNormalization", [self.pick(sc, "F23"), self.pick(sc, "F3")], ["F23"],
                          ref_attrs={"epsilon": (an, onnx.AttributeProto.FLOAT)})
        else:
            c = r.randrange(3)
            if c == 0:
                self.emit(sc, "Trilu", [self.pick(sc, "F33")], ["F33"], ref_attrs={"upper": (an, onnx.AttributeProto.INT)})
            elif c == 1:
                self.emit(sc, "CumSum", [self.pick(sc, "F23"), self.role_value(sc, "axis01")], ["F23"],
                          ref_attrs={"reverse": (an, onnx.AttributeProto.INT)})
            else:
                v = self.emit(sc, "Constant", [], ["I0"], ref_attrs={"value_int": (an, onnx.AttributeProto.INT)})[0]
                self.emit(sc, "Add", [self.pick(sc, "I3"), v], ["I3"])

    def new_function(self) -> _Fn:
        r = self.rng
        self.fn_building += 1
        in_kinds = r.choice([["F23"], ["F23", "F3"], ["F3"], ["F33", "F3"], ["F23", "F0"], ["I3"], ["F3", "F3"]])
        # separate stream: more two-operand functions over one kind (their calls can be repeated with swapped operands)
        if random.Random(f"kinds-{self.n}-{self.total_nodes}-{len(self.funcs)}").random() < 0.3:
            in_kinds = [in_kinds[0], in_kinds[0]]
        attrs = r.choice([[], [], [("alpha", "f")], [("flag", "i")], [("alpha", "f"), ("flag", "i")]])
        attrs = [(n, t, (r.choice([0.5, 1.5]) if t == "f" else r.choice([0, 1])) if r.random() < 0.6 else None)
                 for n, t in attrs]
        fs = _Scope("func", None)
        fs.func_attrs = attrs
        ins = [(self.fresh("fa"), k) for k in in_kinds]
        fs.inputs = ins
        for n, k in ins:
            fs.add(n, k, "input")
        for a in attrs:
            if r.random() < 0.85:
                self.ref_node(fs, a)
        for _ in range(r.randint(1, 4)):
            self.step(fs)
        cand = [(n, k) for rec in fs.recs for n, k in rec["outs"] if n not in self.dead and k not in ("FN3",)]
        if not cand:
            n0, k0 = ins[0]
            cand = [(self.emit(fs, "Identity", [n0], [k0])[0], k0)]
        n_out = min(len(cand), r.choice([1, 1, 2]))
        # prefer the latest values so that the body is mostly live
        outs = r.sample(cand[-4:], min(n_out, len(cand[-4:])))
        if r.random() < 0.18:
            # a function that returns one of its inputs (D300: the inliner forwards it through an Identity node);
            # sometimes as the only output (the checker rejects a value listed twice)
            pt = r.choice(ins)
            outs = ([] if r.random() < 0.15 else outs) + [pt]
            r.shuffle(outs)
            self.feat.add("fn_passthrough_output")
        fn = _Fn(self.fresh("Fn"), in_kinds, [k for _, k in outs], attrs)
        # separate stream (recorded seeds unchanged): a model-local function that carries the NAME of a standard operator
        # (domain "local"; seeded C05-r1: an operator table keyed by op_type alone treats local::Add as commutative)
        rs = random.Random(f"std-{fn.name}-{self.total_nodes}-{ins[0][0]}-{len(fs.recs)}")
        if rs.random() < (0.7 if len(in_kinds) == 2 and in_kinds[0] == in_kinds[1] else 0.3):
            free = [n for n in ("Add", "Mul", "Equal", "Sub", "Max", "Xor", "Or") if all(f.name != n for f in self.funcs)]
            if free:
                fn.name = rs.choice(free)
                self.feat.add("fn_std_op_name")
        fop = self.opset  # the checker rejects a function importing another version of a domain than the model
        imports = [oh.make_opsetid("", fop)]
        if fs.uses_local:
            imports.append(oh.make_opsetid("local", 1))
            self.feat.add("fn_nested_call")
        fp = oh.make_function(
            "local", fn.name, [n for n, _ in ins], [n for n, _ in outs], [rec["node"] for rec in fs.recs],
            opset_imports=imports, attributes=[a[0] for a in attrs if a[2] is None],
            attribute_protos=[oh.make_attribute(a[0], a[2]) for a in attrs if a[2] is not None],
        )
        if r.random() < 0.2:
            fp.doc_string = "fn doc"
        if r.random() < 0.4:
            fp.value_info.extend([v for v in fs.vinfo if v.name not in {n for n, _ in ins + outs}][:3])
        fn.index = len(self.funcs)
        self.funcs.append(fn)
        self.func_protos.append(fp)
        self.fn_building -= 1
        self.feat.add("function")
        if attrs:
            self.feat.add("fn_attr_param")
        return fn

    def a_call(self, sc):
        r = self.rng
        # every function in self.funcs is complete (the one being built is registered last), so calls cannot cycle
        avail = self.funcs
        if avail and (r.random() < 0.6 or len(self.funcs) >= self.MAX_FUNCS or self.fn_building >= 2):
            fn = r.choice(avail)
            self.feat.add("fn_called_again")
        elif len(self.funcs) < self.MAX_FUNCS and self.fn_building < 2:
            fn = self.new_function()
        else:
            return self.a_ew(sc)
        ins = [self.pick(sc, k) for k in fn.in_kinds]
        attrs = {}
        for an, at, default in fn.attrs:
            if default is None or r.random() < 0.6:
                attrs[an] = r.choice([0.25, 0.5, 1.5, 2.0]) if at == "f" else r.choice([0, 1])
                self.feat.add("call_sets_attr")
            else:
                self.feat.add("call_omits_attr")
        self.feat.add("call")
        self.emit(sc, fn.name, ins, fn.out_kinds, attrs, domain="local")
        # separate stream: the same call again with its two operands swapped (same attributes)
        if len(ins) == 2 and fn.in_kinds[0] == fn.in_kinds[1] and ins[0] != ins[1]:
            rs = random.Random(f"swap-{fn.name}-{self.total_nodes}-{ins[0]}-{ins[1]}")
            if rs.random() < (0.7 if fn.name.startswith("Fn") else 1.0):
                self.emit(sc, fn.name, [ins[1], ins[0]], fn.out_kinds, attrs, domain="local")
                self.feat.add("call_swapped_operands")

    # ---- dispatcher
    _WEIGHTS = [
        ("ew", 30), ("identity", 12), ("dup", 12), ("dup_attr", 4), ("dup_nout", 3), ("const", 9), ("const_dup", 5),
        ("signed_zero", 0.8), ("const_dtype_twins", 1.2), ("nan_const", 1.5), ("init", 16), ("optional", 5),
        ("bn_training", 0.5), ("random", 2.5), ("dead", 5), ("if", 5), ("loop", 3.5), ("call", 7),
    ]

    def step(self, sc: _Scope) -> None:
        r = self.rng
        names = [n for n, _ in self._WEIGHTS]
        weights = [w for _, w in self._WEIGHTS]
        for _ in range(10):
            a = r.choices(names, weights)[0]
            if a in ("if", "loop"):
                if sc.depth >= 3 or self.total_nodes > 70 or (sc.kind == "sub" and r.random() < 0.5):
                    continue
                if sc.root().kind == "func" and (a == "loop" or sc.depth >= 1 or r.random() < 0.5):
                    continue
            if a == "bn_training" and sc.root().kind == "func":
                continue
            getattr(self, "a_" + a)(sc)
            return
        self.a_ew(sc)

    # ---- whole model
    def build(self) -> onnx.ModelProto:
        r = self.rng
        main = _Scope("main")
        for _ in range(r.randint(1, 4)):
            k = r.choice(["F23", "F23", "F23", "F3", "F3", "I3", "F0", "B0", "F33"])
            n = self.fresh("x")
            main.inputs.append((n, k))
            main.add(n, k, "input")
        if r.random() < 0.12:
            n = self.fresh("x")
            k = r.choice(["F23", "I3", "F3"])
            main.inputs.append((n, k))  # unused graph input (never registered as a value)
            self.feat.add("unused_input")
        for _ in range(r.choice([0, 1, 1, 2])):
            k = r.choice(["F3", "F23", "F0", "I3", "F33"])
            content = self.content(k)
            w = self.new_init(main, k, content)
            if r.random() < 0.25:
                main.inputs.append((w, k))
                self.feat.add("init_is_input")
                if r.random() < 0.6:
                    # a later initializer with the same tensor: it may be merged into a canonical copy, never into
                    # the one a caller can override
                    self.new_init(main, k, content)
                    self.feat.add("init_input_dup")
        if r.random() < 0.3:
            k = r.choice(["F3", "F23", "F0", "I3"])
            content = self.content(k)
            self.new_init(main, k, content)
            self.new_init(main, k, content)
            self.feat.add("init_dup")
        while len(main.recs) < self.size:
            self.step(main)
        if len(self.funcs) < self.MAX_FUNCS and r.random() < 0.25:
            self.new_function()
            self.feat.add("fn_unused")
        outputs = self.choose_outputs(main)
        g = main.graph("main_graph", outputs)
        if r.random() < 0.15:
            g.doc_string = "graph doc"
            self.feat.add("meta")
        imports = [oh.make_opsetid("", self.opset)]
        if self.funcs or r.random() < 0.12:
            imports.append(oh.make_opsetid("local", 1))
        if r.random() < 0.25:
            imports.append(oh.make_opsetid(r.choice(["ai.onnx.ml", "com.example"]), r.choice([1, 3])))
            self.feat.add("unused_opset")
        if not self.funcs and len(imports) > 1:
            self.feat.add("unused_opset")
        m = oh.make_model(g, opset_imports=imports, ir_version=self.ir_version, functions=self.func_protos,
                          producer_name="c05gen")
        if r.random() < 0.1:
            e = m.metadata_props.add()
            e.key, e.value = "origin", "c05"
        return m

    def choose_outputs(self, main: _Scope) -> list[tuple[str, str]]:
        r = self.rng
        kind_of = {n: k for rec in main.recs for n, k in rec["outs"]}
        sinks = [n for n in kind_of if n not in self.consumed and n not in self.dead]
        pref = [n for n in dict.fromkeys(self.prefer_out) if n in kind_of and n not in self.dead]
        outs: list[str] = list(pref[:4])
        rest = [n for n in sinks if n not in outs]
        r.shuffle(rest)
        want = r.randint(1, 4)
        # keep most of the graph live: the latest sinks first
        rest.sort(key=lambda n: -int("".join(ch for ch in n if ch.isdigit()) or 0))
        for n in rest:
            if len(outs) >= want:
                break
            outs.append(n)
        if not outs:
            live = [n for n in kind_of if n not in self.dead]
            if live:
                outs.append(live[-1])
        res = [(n, kind_of[n]) for n in outs]
        all_kind = dict(kind_of)
        all_kind.update(main.init_kinds)
        all_kind.update({n: k for n, k in main.inputs})
        real_inputs = [(n, k) for n, k in main.inputs if n not in main.init_kinds and n in main.src]
        if real_inputs and r.random() < 0.12:
            res.insert(r.randint(0, len(res)), r.choice(real_inputs))
            self.feat.add("out_is_input")
        if main.init_kinds and r.random() < 0.1:
            n = r.choice(sorted(main.init_kinds))
            if n not in self.dead:
                res.insert(r.randint(0, len(res)), (n, main.init_kinds[n]))
                self.feat.add("out_is_init")
        if real_inputs and r.random() < 0.1:
            n, k = r.choice(real_inputs)
            res.append((self.emit(main, "Identity", [n], [k])[0], k))
            self.feat.add("id_input_to_output")
            self.feat.add("identity")
        if main.init_kinds and r.random() < 0.08:
            n = r.choice(sorted(main.init_kinds))
            res.append((self.emit(main, "Identity", [n], [main.init_kinds[n]])[0], main.init_kinds[n]))
            self.feat.add("id_init_to_output")
            self.feat.add("identity")
        if res and r.random() < 0.1:
            res.insert(r.randint(0, len(res)), r.choice(res))
            self.feat.add("out_twice")
        if not res:
            n, k = main.inputs[0]
            res = [(self.emit(main, "Identity", [n], [k])[0], k)]
        return res


def gen_model_ex(rng: random.Random, size: int) -> tuple[onnx.ModelProto, dict]:
    """Generate one model; returns (proto, info) with info = {"features": [...], "depth": int, "nodes": int}."""
    g = _Gen(rng, size)
    m = g.build()
    return m, {"features": sorted(g.feat), "depth": g.max_depth, "nodes": g.total_nodes, "opset": g.opset}


def gen_model(rng: random.Random, size: int) -> onnx.ModelProto:
    return gen_model_ex(rng, size)[0]


OVERRIDE = "@override:"  # feed key prefix: a value supplied for an initializer-backed graph input


def gen_inputs(rng: random.Random, model_proto: onnx.ModelProto, override: bool = False) -> dict[str, np.ndarray]:
    """Values for every graph input that is not an initializer; with `override` also a value (different from the
    default) for every graph input that is backed by an initializer, under the key OVERRIDE + name."""
    inits = {i.name: i for i in model_proto.graph.initializer}
    feeds = {}
    for inp in model_proto.graph.input:
        if inp.name in inits:
            if override and inits[inp.name].data_type != _S:
                arr = onh.to_array(inits[inp.name])
                if arr.dtype == np.bool_:
                    feeds[OVERRIDE + inp.name] = np.logical_not(arr)
                else:
                    feeds[OVERRIDE + inp.name] = (arr + np.asarray(rng.choice([1, 2, -3]), dtype=arr.dtype)).astype(arr.dtype)
            continue
        tt = inp.type.tensor_type
        shape = tuple(d.dim_value if d.HasField("dim_value") else 2 for d in tt.shape.dim)
        n = int(np.prod(shape)) if shape else 1
        if tt.elem_type == _F:
            style = rng.randrange(4)
            if style == 0:
                vals = [float(rng.randint(-3, 3)) for _ in range(n)]
            elif style == 1:
                vals = [rng.choice(_FVALS) for _ in range(n)]
            elif style == 2:
                vals = [round(rng.uniform(-4, 4), 2) for _ in range(n)]
            else:
                vals = [rng.choice([0.0, -0.0, 1.0, -1.0]) for _ in range(n)]
            if rng.random() < 0.12:
                vals[rng.randrange(n)] = rng.choice([float("nan"), float("inf"), float("-inf")])
            arr = np.array(vals, dtype=np.float32)
        elif tt.elem_type == _I:
            arr = np.array([rng.randint(-3, 4) for _ in range(n)], dtype=np.int64)
        elif tt.elem_type == _B:
            arr = np.array([rng.random() < 0.5 for _ in range(n)], dtype=np.bool_)
        else:
            arr = np.array([rng.choice(["a", "bb", ""]) for _ in range(n)], dtype=object)
        feeds[inp.name] = arr.reshape(shape)
    return feeds


# ================================================================================ (B) passes and sequences


def _passes() -> dict:
    from onnx_ir.passes import common as P

    reg = {
        "AddDefaultAttributesPass": P.AddDefaultAttributesPass,
        "AddInitializersToInputsPass": P.AddInitializersToInputsPass,
        "CheckerPass": P.CheckerPass,
        "CheckerPass(full)": lambda: P.CheckerPass(full_check=True),
        "ClearMetadataAndDocStringPass": P.ClearMetadataAndDocStringPass,
        "CommonSubexpressionEliminationPass": P.CommonSubexpressionEliminationPass,
        "CommonSubexpressionEliminationPass(size_limit=0)": lambda: P.CommonSubexpressionEliminationPass(size_limit=0),
        "CommonSubexpressionEliminationPass(size_limit=2000)": lambda: P.CommonSubexpressionEliminationPass(size_limit=2000),
        "DeduplicateHashedInitializersPass": P.DeduplicateHashedInitializersPass,
        "DeduplicateInitializersPass": P.DeduplicateInitializersPass,
        "DeduplicateInitializersPass(size_limit=4)": lambda: P.DeduplicateInitializersPass(size_limit=4),
        "IdentityEliminationPass": P.IdentityEliminationPass,
        "InlinePass": P.InlinePass,
        "InlinePass(criteria=even)": lambda: P.InlinePass(criteria=_crit_even),
        "LiftConstantsToInitializersPass": P.LiftConstantsToInitializersPass,
        "LiftConstantsToInitializersPass(all,0)": lambda: P.LiftConstantsToInitializersPass(
            lift_all_constants=True, size_limit=0),
        "LiftConstantsToInitializersPass(value,0)": lambda: P.LiftConstantsToInitializersPass(size_limit=0),
        "LiftSubgraphInitializersToMainGraphPass": P.LiftSubgraphInitializersToMainGraphPass,
        "NameFixPass": P.NameFixPass,
        "OutputFixPass": P.OutputFixPass,
        "RemoveInitializersFromInputsPass": P.RemoveInitializersFromInputsPass,
        "RemoveUnusedFunctionsPass": P.RemoveUnusedFunctionsPass,
        "RemoveUnusedNodesPass": P.RemoveUnusedNodesPass,
        "RemoveUnusedOpsetsPass": P.RemoveUnusedOpsetsPass,
        "RemoveUnusedOpsetsPass(no_functions)": lambda: P.RemoveUnusedOpsetsPass(process_functions=False),
        "ShapeInferencePass": P.ShapeInferencePass,
        "ShapeInferencePass(lenient)": lambda: P.ShapeInferencePass(check_type=False, strict_mode=False, data_prop=False),
        "TopologicalSortPass": P.TopologicalSortPass,
    }
    missing = [n for n in P.__all__ if n not in reg]
    assert not missing, f"passes without a registry entry: {missing}"
    return reg


class _Lazy(dict):
    """PASSES is filled on first use so that importing this module does not import onnx_ir."""

    def _fill(self):
        if not dict.__len__(self):
            dict.update(self, _passes())

    def __getitem__(self, k):
        self._fill()
        return dict.__getitem__(self, k)

    def __iter__(self):
        self._fill()
        return dict.__iter__(self)

    def __len__(self):
        self._fill()
        return dict.__len__(self)

    def keys(self):
        self._fill()
        return dict.keys(self)

    def items(self):
        self._fill()
        return dict.items(self)

    def __contains__(self, k):
        self._fill()
        return dict.__contains__(self, k)


PASSES: dict = _Lazy()  # name -> zero-arg factory


def _base_name(pass_name: str) -> str:
    return pass_name.split("(")[0]


# sequences in which an earlier pass enables a later one
_CHAINS = [
    ["OutputFixPass", "IdentityEliminationPass"],
    ["CommonSubexpressionEliminationPass", "RemoveUnusedNodesPass"],
    ["LiftSubgraphInitializersToMainGraphPass", "DeduplicateInitializersPass"],
    ["LiftSubgraphInitializersToMainGraphPass", "DeduplicateHashedInitializersPass", "CommonSubexpressionEliminationPass"],
    ["InlinePass", "CommonSubexpressionEliminationPass", "IdentityEliminationPass"],
    ["InlinePass", "RemoveUnusedNodesPass", "RemoveUnusedOpsetsPass"],
    ["LiftConstantsToInitializersPass(all,0)", "DeduplicateInitializersPass", "CommonSubexpressionEliminationPass"],
    ["LiftConstantsToInitializersPass(value,0)", "LiftSubgraphInitializersToMainGraphPass", "DeduplicateInitializersPass"],
    ["IdentityEliminationPass", "CommonSubexpressionEliminationPass", "RemoveUnusedNodesPass"],
    ["DeduplicateInitializersPass", "CommonSubexpressionEliminationPass", "IdentityEliminationPass"],
    ["AddDefaultAttributesPass", "CommonSubexpressionEliminationPass"],
    ["RemoveUnusedNodesPass", "RemoveUnusedFunctionsPass", "RemoveUnusedOpsetsPass"],
    ["AddInitializersToInputsPass", "DeduplicateInitializersPass", "RemoveInitializersFromInputsPass"],
    ["RemoveInitializersFromInputsPass", "DeduplicateInitializersPass"],
    ["IdentityEliminationPass", "OutputFixPass", "IdentityEliminationPass"],
    ["CommonSubexpressionEliminationPass(size_limit=2000)", "IdentityEliminationPass", "TopologicalSortPass"],
    ["InlinePass", "NameFixPass", "CheckerPass"],
    ["ShapeInferencePass", "IdentityEliminationPass", "CheckerPass(full)"],
    ["ClearMetadataAndDocStringPass", "CommonSubexpressionEliminationPass"],
    ["RemoveUnusedNodesPass", "CommonSubexpressionEliminationPass", "RemoveUnusedNodesPass"],
    ["InlinePass", "LiftConstantsToInitializersPass(all,0)", "DeduplicateHashedInitializersPass", "RemoveUnusedNodesPass"],
    ["InlinePass(criteria=even)", "RemoveUnusedFunctionsPass", "InlinePass"],
    ["InlinePass(criteria=even)", "RemoveUnusedNodesPass", "RemoveUnusedOpsetsPass"],
]


def gen_sequences(rng: random.Random, n_random: int) -> list[list[str]]:
    """Every single pass, plus `n_random` sequences of length 2..4 (half of them built around an enabling chain)."""
    names = sorted(PASSES.keys())
    seqs = [[n] for n in names]
    for _ in range(n_random):
        if rng.random() < 0.55:
            s = list(rng.choice(_CHAINS))
            if len(s) < 4 and rng.random() < 0.4:
                s.insert(rng.randint(0, len(s)), rng.choice(names))
        else:
            s = [rng.choice(names) for _ in range(rng.randint(2, 4))]
        seqs.append(s[:4])
    return seqs


# ================================================================================ (C) oracle

# A pass raising on a checker-valid model is a failure, except these documented limitations:
# (pass base name, exception type name, substring of the message)
EXCLUDED_RAISES: list[tuple[str, str, str]] = [
    # inliner.py requires(): "No cyclic dependencies between functions" (never generated: the checker
    # rejects recursive functions anyway; listed so that a corpus entry with a cycle is not a finding)
    ("InlinePass", "PreconditionError", "Cyclic dependency"),
    # inliner.py _instantiate_call: graph-valued attribute parameters are documented as unsupported
    ("InlinePass", "ValueError", "does not support graph attribute parameters"),
]


# The property preserves the NUMBER and ORDER of graph outputs and non-initializer inputs, not their names.  A pass
# that renames a main-graph input/output is reported (io-rename-*) except where renaming is what the pass is for:
RENAME_EXEMPT = {
    # output_fix.py:86-101,126-137: a value listed twice as output / a graph input used as output gets an Identity;
    # one of the two values that shared a name has to be renamed ("<name>_alias_<i>", "<name>_orig")
    "OutputFixPass": "OutputFixPass separates values that shared one name; count, order and values are preserved",
}


def _quiet() -> None:
    logging.getLogger("onnx_ir").setLevel(logging.CRITICAL)
    logging.getLogger("onnx_ir").propagate = False
    warnings.filterwarnings("ignore")
    np.seterr(all="ignore")


def _sub_graphs(node):
    for a in node.attribute:
        if a.type == onnx.AttributeProto.GRAPH:
            yield a.g
        elif a.type == onnx.AttributeProto.GRAPHS:
            yield from a.graphs


def _all_graphs(g):
    """g and every nested subgraph (pre-order)."""
    yield g
    for n in g.node:
        for sg in _sub_graphs(n):
            yield from _all_graphs(sg)


def _node_lists(model):
    """Every node container: (owner, nodes) for the main graph, subgraphs, function bodies and their subgraphs."""
    for g in _all_graphs(model.graph):
        yield g, g.node
    for f in model.functions:
        yield f, f.node
        for n in f.node:
            for sg in _sub_graphs(n):
                for g in _all_graphs(sg):
                    yield g, g.node


def _hex(b) -> bytes:
    return bytes(b).hex().encode() + b"|"


def _prep_for_eval(proto: onnx.ModelProto) -> onnx.ModelProto:
    """Copy of `proto` normalised for onnx.reference.ReferenceEvaluator, without changing what it computes:

    * string tensors / string Constant attributes are hex-escaped (numpy drops trailing NULs; strings are only
      moved around by the generated operators, so an injective re-encoding preserves equality exactly);
    * omitted outputs ("") get unique names (the evaluator would store them under "" and later hand them to
      omitted optional inputs);
    * call sites get the function's `attribute_proto` defaults spelled out (the evaluator ignores defaults);
    * sparse_value Constants that nothing reads are dropped (the evaluator cannot hold a SparseTensor result).
    """
    m = onnx.ModelProto()
    m.CopyFrom(proto)
    defaults = {(f.domain, f.name): list(f.attribute_proto) for f in m.functions if f.attribute_proto}
    counter = [0]
    used = set()
    for _owner, nodes in _node_lists(m):
        for n in nodes:
            used.update(n.input)
    for g in _all_graphs(m.graph):
        used.update(o.name for o in g.output)
    for f in m.functions:
        used.update(f.output)

    def fix_tensor(t):
        if t.data_type == _S:
            vals = [_hex(b) for b in t.string_data]
            del t.string_data[:]
            t.string_data.extend(vals)

    for owner, nodes in _node_lists(m):
        if isinstance(owner, onnx.GraphProto):
            for t in owner.initializer:
                fix_tensor(t)
        drop = []
        for n in nodes:
            if n.op_type == "Constant" and n.domain == "":
                for a in n.attribute:
                    if a.ref_attr_name:
                        continue
                    if a.name == "value":
                        fix_tensor(a.t)
                    elif a.name == "value_string":
                        a.s = _hex(a.s)
                    elif a.name == "value_strings":
                        vals = [_hex(b) for b in a.strings]
                        del a.strings[:]
                        a.strings.extend(vals)
                    elif a.name == "sparse_value" and not any(o in used for o in n.output):
                        drop.append(n)
            for i, o in enumerate(n.output):
                if o == "":
                    counter[0] += 1
                    n.output[i] = f"__omitted_{counter[0]}"
            d = defaults.get((n.domain, n.op_type))
            if d:
                have = {a.name for a in n.attribute}
                for a in d:
                    if a.name not in have:
                        n.attribute.add().CopyFrom(a)
        for n in drop:
            nodes.remove(n)
    return m


def _canon_out(a):
    if isinstance(a, list):  # sequences are never generated; keep something comparable
        return ("list", [_canon_out(x) for x in a])
    a = np.asarray(a)
    if a.dtype == object or a.dtype.kind in "US":
        return ("str", list(a.shape), [x if isinstance(x, str) else repr(x) for x in a.ravel().tolist()])
    return (str(a.dtype), list(a.shape), a.tobytes().hex())


def _evaluate(proto: onnx.ModelProto, inputs: list[dict]) -> list:
    from onnx.reference import ReferenceEvaluator

    sess = ReferenceEvaluator(_prep_for_eval(proto))
    # the property is positional: when a pass renamed a model input (only OutputFixPass may, see RENAME_EXEMPT)
    # the k-th supplied tensor goes to the k-th non-initializer input
    names = [n for n, _ in _io_sig(proto)["inputs"]]
    all_inputs = {i.name for i in proto.graph.input}
    init_names = {i.name for i in proto.graph.initializer}

    def feed(feeds: dict) -> dict:
        free = {k: v for k, v in feeds.items() if not k.startswith(OVERRIDE)}
        if set(free) != set(names) and len(free) == len(names):
            free = dict(zip(names, free.values()))
        for k, v in feeds.items():
            if not k.startswith(OVERRIDE):
                continue
            n = k[len(OVERRIDE):]
            if n not in all_inputs and n + "_orig" in all_inputs:
                n = n + "_orig"  # OutputFixPass renamed the input (see RENAME_EXEMPT)
            if n not in all_inputs:
                # the initializer is no longer a graph input (RemoveInitializersFromInputsPass): a caller cannot
                # supply it any more, this input set does not apply to the model
                return None
            free[n] = v
        return free

    # feeds are copied: some reference operators (BatchNormalization in training mode) write into their inputs
    return [None if feed(feeds) is None else
            [_canon_out(a) for a in sess.run(None, {k: np.array(v, copy=True) for k, v in feed(feeds).items()})]
            for feeds in inputs]


def _elem(vi) -> int:
    return vi.type.tensor_type.elem_type if vi.type.HasField("tensor_type") else 0


def _io_sig(proto: onnx.ModelProto) -> dict:
    inits = {i.name for i in proto.graph.initializer}
    return {
        "inputs": [(i.name, _elem(i)) for i in proto.graph.input if i.name not in inits],
        "outputs": [(o.name, _elem(o)) for o in proto.graph.output],
    }


def _analyse(proto: onnx.ModelProto, inputs: list[dict], evaluate: bool = True) -> dict:
    st: dict = {"checker": None, "full": None, "eval_error": None, "outs": None}
    try:
        onnx.checker.check_model(proto, full_check=False)
    except Exception as e:  # noqa: BLE001
        st["checker"] = f"{type(e).__name__}: {str(e)[:300]}"
    if st["checker"] is None:
        try:  # strict shape/type inference on top; only compared when the model before passes it too
            onnx.checker.check_model(proto, full_check=True)
        except Exception as e:  # noqa: BLE001
            st["full"] = f"{type(e).__name__}: {str(e)[:300]}"
    st["io"] = _io_sig(proto)
    if st["checker"] is None and evaluate:
        try:
            st["outs"] = _evaluate(proto, inputs)
        except Exception as e:  # noqa: BLE001
            st["eval_error"] = f"{type(e).__name__}: {str(e)[:300]}"
    return st


def _compare(base: dict, st: dict) -> tuple[str, str] | None:
    """First difference between the analysis of the model before (`base`) and after a pass, as (kind, detail)."""
    if st["checker"] is not None:
        return "checker", st["checker"]
    bi, ai = base["io"], st["io"]
    for what in ("inputs", "outputs"):
        b, a = bi[what], ai[what]
        if len(b) != len(a):
            return f"io-count-{what}", f"{[n for n, _ in b]} -> {[n for n, _ in a]}"
        if [n for n, _ in b] != [n for n, _ in a]:
            if sorted(n for n, _ in b) == sorted(n for n, _ in a):
                return f"io-order-{what}", f"{[n for n, _ in b]} -> {[n for n, _ in a]}"
            return f"io-rename-{what}", f"{[n for n, _ in b]} -> {[n for n, _ in a]}"
        for (n, tb), (_, ta) in zip(b, a):
            if tb and ta and tb != ta:
                return f"io-dtype-{what}", f"{n}: elem_type {tb} -> {ta}"
    if st["eval_error"] is not None:
        return "eval-raise", st["eval_error"]
    for k, (ob, oa) in enumerate(zip(base["outs"], st["outs"])):
        if ob is None or oa is None:
            continue  # input set with a value for an initializer-backed input that is no longer an input
        if len(ob) != len(oa):
            return "eval-diff", f"input set {k}: {len(ob)} outputs -> {len(oa)}"
        for pos, (x, y) in enumerate(zip(ob, oa)):
            if x != y:
                why = "dtype" if x[0] != y[0] else "shape" if x[1] != y[1] else "bytes"
                return "eval-diff", f"input set {k}, output {pos}: {why} differ: {_short(x)} -> {_short(y)}"
    if base.get("full") is None and st.get("full") is not None:
        return "checker-full", st["full"]
    return None


def _short(c) -> str:
    if c[0] in ("str", "list"):
        return str(c)[:120]
    try:
        arr = np.frombuffer(bytes.fromhex(c[2]), dtype=np.dtype(c[0])).reshape(c[1])
        return f"{c[0]}{c[1]} {arr.ravel().tolist()[:8]}"
    except Exception:  # noqa: BLE001
        return str(c)[:120]


def _parse(raw: bytes) -> onnx.ModelProto:
    m = onnx.ModelProto()
    m.ParseFromString(raw)
    return m


def _sha(b: bytes) -> str:
    return hashlib.sha1(b).hexdigest()


def _excluded(pass_name: str, e: BaseException) -> bool:
    chain, seen = [], e
    while seen is not None and len(chain) < 4:
        chain.append(seen)
        seen = seen.__cause__
    for pn, tn, sub in EXCLUDED_RAISES:
        if pn == _base_name(pass_name) and any(type(x).__name__ == tn and sub in str(x) for x in chain):
            return True
    return False


def _check_sequence(proto: onnx.ModelProto, seq: list[str], inputs: list[dict], cache: dict | None = None) -> dict:
    """Apply `seq` to a fresh deserialisation of `proto`; compare with the model before after EACH pass.

    Returns {"status": ok|gen_invalid|skip_eval_before|excluded|fail, "modified": [...], and for fail:
    "kind", "pass", "step", "detail"}."""
    import onnx_ir as ir

    cache = cache if cache is not None else {}
    raw = proto.SerializeToString()
    key0 = _sha(raw)
    base = cache.get(key0)
    if base is None:
        base = cache[key0] = _analyse(proto, inputs)
    if base["checker"] is not None:
        return {"status": "gen_invalid", "detail": base["checker"], "modified": []}
    if base["eval_error"] is not None:
        return {"status": "skip_eval_before", "detail": base["eval_error"], "modified": []}
    res: dict = {"status": "ok", "modified": [], "changed": []}
    try:
        # deserialize a private copy: an IR initializer keeps a reference to its TensorProto, so renaming it in a pass
        # (OutputFixPass: "<name>_orig") would write through into `proto` and corrupt the next sequence
        model = ir.serde.deserialize_model(_parse(raw))
    except Exception as e:  # noqa: BLE001
        return {"status": "fail", "kind": "deserialize-raise", "pass": "serde", "step": -1,
                "detail": f"{type(e).__name__}: {str(e)[:300]}", "modified": []}
    prev_key = key0
    raw_prev = raw
    # step -1: the serde round trip alone (so that a serde problem is not blamed on the first pass)
    try:
        rt = ir.serde.serialize_model(model)
        raw_rt = rt.SerializeToString()
        prev_key = _sha(raw_rt)
        raw_prev = raw_rt
        st = cache.get(prev_key)
        if st is None:
            st = cache[prev_key] = _analyse(rt, inputs)
        diff = _compare(base, st)
        if diff is not None:
            res.update(status="fail", kind=diff[0], **{"pass": "serde-roundtrip"}, step=-1, detail=diff[1], after=raw_rt)
            return res
    except Exception as e:  # noqa: BLE001
        res.update(status="fail", kind="serialize-raise", **{"pass": "serde-roundtrip"}, step=-1,
                   exc=type(e).__name__, detail=f"{type(e).__name__}: {str(e)[:300]}")
        return res
    for step, name in enumerate(seq):
        p = PASSES[name]()
        try:
            r = _apply(p, model)
            model = r.model
            res["modified"].append(bool(r.modified))
        except PassTimeout as e:
            res.update(status="fail", kind="nontermination", **{"pass": name}, step=step, exc="PassTimeout",
                       before_step=raw_prev, detail=str(e))
            return res
        except Exception as e:  # noqa: BLE001
            if _excluded(name, e):
                res["status"] = "excluded"
                return res
            cause = e.__cause__
            tn = type(e).__name__ + (f"<{type(cause).__name__}>" if cause is not None else "")
            res.update(status="fail", kind="raise", **{"pass": name}, step=step, exc=tn, before_step=raw_prev,
                       detail=f"{tn}: {str(e)[:200]} {str(cause)[:200] if cause else ''}")
            return res
        try:
            after = ir.serde.serialize_model(model)
            raw_after = after.SerializeToString()
        except Exception as e:  # noqa: BLE001
            res.update(status="fail", kind="serialize-raise", **{"pass": name}, step=step, exc=type(e).__name__,
                       detail=f"{type(e).__name__}: {str(e)[:300]}", before_step=raw_prev)
            return res
        key = _sha(raw_after)
        res["changed"].append(key != prev_key)
        prev_key = key
        st = cache.get(key)
        if st is None:
            st = cache[key] = _analyse(after, inputs)
        diff = _compare(base, st)
        if diff is not None and diff[0].startswith("io-rename") and _base_name(name) in RENAME_EXEMPT:
            # names are not part of the property (count and order are); later steps are compared
            # against the renamed signature
            res.setdefault("exempt", []).append(f"{diff[0]}:{_base_name(name)}")
            base = dict(base)
            base["io"] = st["io"]
            diff = _compare(base, st)
        if diff is not None:
            res.update(status="fail", kind=diff[0], **{"pass": name}, step=step, detail=diff[1], after=raw_after,
                       before_step=raw_prev)
            return res
        raw_prev = raw_after
    return res


# ---- classification of a failing (minimised) case -> specific signature feature


def _const_float_bits(node) -> list[tuple[str, bytes]]:
    out = []
    for a in node.attribute:
        if a.type == onnx.AttributeProto.FLOAT and not a.ref_attr_name:
            out.append((a.name, struct.pack("<f", a.f)))
        elif a.type == onnx.AttributeProto.FLOATS:
            out.append((a.name, b"".join(struct.pack("<f", x) for x in a.floats)))
    return out


def _defined_in(g) -> set:
    d = {i.name for i in g.input} | {t.name for t in g.initializer}
    for n in g.node:
        d.update(n.output)
    return d


def _has_subgraph_output_from_outer(model) -> bool:
    def scan(nodes):
        for n in nodes:
            for sg in _sub_graphs(n):
                outs = {o.name for o in sg.output}
                own = _defined_in(sg)
                for m in sg.node:
                    if m.op_type == "Identity" and m.domain == "" and m.output[0] in outs and m.input[0] not in own:
                        return True
                if scan(sg.node):
                    return True
        return False

    return scan(model.graph.node) or any(scan(f.node) for f in model.functions)


def _has_signed_zero_twins(model) -> bool:
    for _owner, nodes in _node_lists(model):
        seen: dict = {}
        for n in nodes:
            for an, bits in _const_float_bits(n):
                vals = struct.unpack(f"<{len(bits) // 4}f", bits)
                k = (n.op_type, n.domain, an, tuple(n.input), vals)
                try:
                    hash(k)
                except TypeError:
                    continue
                if any(v != v for v in vals):
                    continue
                if k in seen and seen[k] != bits:
                    return True
                seen.setdefault(k, bits)
    return False


def _has_string_nul_twins(model) -> bool:
    for g in _all_graphs(model.graph):
        ts = [t for t in g.initializer if t.data_type == _S]
        for i, a in enumerate(ts):
            for b in ts[i + 1:]:
                la, lb = list(a.string_data), list(b.string_data)
                if list(a.dims) == list(b.dims) and la != lb and len(la) == len(lb):
                    w = max([len(x) for x in la + lb] or [0])
                    if [x.ljust(w, b"\0") for x in la] == [x.ljust(w, b"\0") for x in lb]:
                        return True
    return False


def _op_types(model) -> set:
    return {(n.domain + "::" if n.domain else "") + n.op_type for _o, nodes in _node_lists(model) for n in nodes}


def _classify(kind: str, pass_name: str, model: onnx.ModelProto, fail: dict) -> str:
    """Specific feature for the signature `<kind>:<PassName>:<feature>`, decided on the (minimised) model."""
    base = _base_name(pass_name)
    ops = _op_types(model)
    detail = fail.get("detail", "")
    if kind == "nontermination":
        if any(f.domain == "" and f.name == "Identity" for f in model.functions):
            return "function-named-identity"
        return "ops=" + "+".join(sorted(ops)[:6])
    if base == "CommonSubexpressionEliminationPass" and kind == "checker":
        if "Field 'type' of 'value_info'" in detail:
            return "output-replaced-by-untyped-value"
        if "SSA" in detail and len({o.name for o in model.graph.output}) < len(model.graph.output):
            return "output-listed-twice-ssa"
    if "should not have duplicate outputs" in detail:
        return "function-duplicate-outputs"
    if base == "IdentityEliminationPass" and kind in ("checker", "raise", "eval-raise", "serialize-raise") \
            and _has_subgraph_output_from_outer(model):
        return "subgraph-output-from-outer"
    if base == "RemoveUnusedNodesPass" and kind == "eval-diff" and any(
        n.op_type == "BatchNormalization" and any(a.name == "training_mode" and a.i == 1 for a in n.attribute)
        for _o, nodes in _node_lists(model) for n in nodes
    ):
        return "batchnorm-training"
    if base in ("DeduplicateInitializersPass", "DeduplicateHashedInitializersPass") and kind == "eval-diff" \
            and _has_string_nul_twins(model):
        return "string-nul-padding"
    if base == "CommonSubexpressionEliminationPass" and kind in ("eval-diff", "eval-raise") and sum(
        1 for _o, nodes in _node_lists(model) for n in nodes if n.op_type == "Constant" and any(
            a.name == "value" and a.t.data_type == TP.STRING for a in n.attribute)) >= 2:
        # the key of a string-tensor attribute is built from object addresses (D55): address reuse merges
        # different constants, not deterministically
        return "string-tensor-constants"
    if base == "CommonSubexpressionEliminationPass" and kind == "eval-diff" and _has_signed_zero_twins(model):
        return "float-signed-zero"
    if base == "LiftConstantsToInitializersPass" and any(
        n.op_type == "Constant" and any(a.name == "sparse_value" for a in n.attribute)
        for _o, nodes in _node_lists(model) for n in nodes
    ) and kind == "raise":
        return "sparse-value-constant"
    if base == "LiftConstantsToInitializersPass" and any(
        n.op_type == "Constant" and any(
            (a.name == "value_string" and a.s.endswith(b"\0")) or
            (a.name == "value_strings" and any(x.endswith(b"\0") for x in a.strings)) for a in n.attribute)
        for _o, nodes in _node_lists(model) for n in nodes
    ):
        return "string-constant-trailing-nul"
    if base == "AddInitializersToInputsPass" and any(
        len(sg.initializer) for gg in [model.graph] for sg in list(_all_graphs(gg))[1:]
    ):
        return "subgraph-initializers"
    g = model.graph
    inits = {t.name for t in g.initializer}
    in_names = {i.name for i in g.input if i.name not in inits}
    out_names = [o.name for o in g.output]
    if kind.startswith("io-rename") and base == "InlinePass" and any(
            any(o in list(f.input) for o in f.output) for f in model.functions):
        # D300: a function that returns one of its inputs: replace_nodes_and_values copies the name (type, shape) of
        # the call's output onto the caller's value, here a graph input / a value that is also a graph output
        return "function-passthrough-output"
    if kind.startswith("io-"):
        after_names: list = []
        try:
            import ast

            after_names = ast.literal_eval(detail.split(" -> ")[1])
        except Exception:  # noqa: BLE001
            pass
        if base == "OutputFixPass" and kind == "io-rename-inputs" and any(o in in_names for o in out_names):
            return "input-is-output"
        if base == "OutputFixPass" and any("_alias_" in str(x) for x in after_names):
            return "output-listed-twice"
        if base == "IdentityEliminationPass" and kind == "io-rename-outputs" and len(set(after_names)) < len(after_names) \
                and len(set(out_names)) == len(out_names):
            return "two-outputs-merged-under-one-name"
        if len(set(out_names)) < len(out_names):
            return "output-listed-twice"
        if any(n.op_type == "Identity" and n.output[0] in out_names and n.input[0] in out_names for n in g.node):
            return "identity-between-two-outputs"
        if any(n.op_type == "Identity" and n.output[0] in out_names for n in g.node):
            return "identity-to-output"
    if len(set(out_names)) < len(out_names) and kind == "checker":
        return "output-listed-twice"
    if kind == "raise":
        return fail.get("exc", "Exception") + ":ops=" + "+".join(sorted(ops)[:5])
    return "ops=" + "+".join(sorted(ops)[:6])


# ---- confirmation of a suspected cause (a feature being PRESENT in the model is not the cause)


def _neutralise(feature: str, model: onnx.ModelProto) -> onnx.ModelProto | None:
    """The same model with the suspected cause of `feature` switched off, or None when there is no neutraliser."""
    if feature == "batchnorm-training":
        m = _copy(model)
        hit = False
        for _o, nodes in _node_lists(m):
            for n in nodes:
                if n.op_type == "BatchNormalization":
                    for a in n.attribute:
                        if a.name == "training_mode" and a.i == 1:
                            a.i = 0
                            hit = True
        return m if hit else None
    return None


def _classify_confirmed(kind: str, pass_name: str, model: onnx.ModelProto, fail: dict, seq: list, inputs: list) -> str:
    """`_classify`, but a cause-specific feature is kept only when the failure disappears once the cause is
    neutralised (D36: training_mode=1 -> 0 on every BatchNormalization); otherwise the generic class is used."""
    feature = _classify(kind, pass_name, model, fail)
    neutral = _neutralise(feature, model)
    if neutral is None:
        return feature
    try:
        r = _check_sequence(neutral, list(seq), inputs, {})
    except Exception:  # noqa: BLE001
        return "unconfirmed-" + feature
    if r["status"] == "fail" and _base_name(r.get("pass", "")) == _base_name(pass_name):
        # still fails without the suspected cause: something else is wrong
        return "not-" + feature + ":ops=" + "+".join(sorted(_op_types(model))[:6])
    return feature


# ---- minimisation


def _copy(m):
    c = onnx.ModelProto()
    c.CopyFrom(m)
    return c


def _used_names(model) -> set:
    used = set()
    for _o, nodes in _node_lists(model):
        for n in nodes:
            used.update(n.input)
    for g in _all_graphs(model.graph):
        used.update(o.name for o in g.output)
    for f in model.functions:
        for n in f.node:
            for sg in _sub_graphs(n):
                for g in _all_graphs(sg):
                    used.update(o.name for o in g.output)
        used.update(f.output)
    return used


def _dce(model) -> onnx.ModelProto:
    """Remove nodes without any used output (all graphs), unused initializers, inputs and functions."""
    m = _copy(model)
    for _ in range(30):
        used = _used_names(m)
        changed = False
        for _o, nodes in _node_lists(m):
            for n in list(nodes):
                if not any(o and o in used for o in n.output):
                    nodes.remove(n)
                    changed = True
        if not changed:
            break
    used = _used_names(m)
    for g in _all_graphs(m.graph):
        for t in list(g.initializer):
            if t.name not in used:
                g.initializer.remove(t)
        for v in list(g.value_info):
            g.value_info.remove(v)
    called = {(n.domain, n.op_type) for _o, nodes in _node_lists(m) for n in nodes}
    for f in list(m.functions):
        if (f.domain, f.name) not in called:
            m.functions.remove(f)
    return m


def _rename_uses(model, old: str, new: str) -> None:
    for _o, nodes in _node_lists(model):
        for n in nodes:
            for i, x in enumerate(n.input):
                if x == old:
                    n.input[i] = new


def _candidates(model):
    """Smaller variants of `model` (not necessarily valid; the predicate decides)."""
    g = model.graph
    if len(g.output) > 1:
        for i in range(len(g.output)):
            c = _copy(model)
            del c.graph.output[i]
            yield _dce(c)
    yield _dce(model)
    # bypass a node: uses of its first output read one of its inputs instead
    containers = list(_node_lists(model))
    for ci, (_owner, nodes) in enumerate(containers):
        for ni in reversed(range(len(nodes))):
            n = nodes[ni]
            if not n.output or not n.output[0]:
                continue
            for src in dict.fromkeys(x for x in n.input if x):
                c = _copy(model)
                cn = list(_node_lists(c))[ci][1]
                out = cn[ni].output[0]
                del cn[ni]
                _rename_uses(c, out, src)
                ok = True
                for gg in _all_graphs(c.graph):
                    for o in gg.output:
                        if o.name == out:
                            ok = False  # a graph output cannot simply be renamed; keep such nodes
                if ok:
                    yield _dce(c)
    # drop unused graph inputs
    used = _used_names(model)
    inits = {t.name for t in g.initializer}
    for i, inp in enumerate(g.input):
        if inp.name not in used and inp.name not in inits:
            c = _copy(model)
            del c.graph.input[i]
            yield c
    # strip decoration
    c = _copy(model)
    touched = False
    for _o, nodes in _node_lists(c):
        for n in nodes:
            if n.doc_string or n.metadata_props:
                n.doc_string = ""
                del n.metadata_props[:]
                touched = True
    if touched:
        yield c


def _detail_class(kind: str, detail: str) -> str:
    """Coarse class of a failure message; the minimiser must not drift from one class to another."""
    import re

    if kind == "eval-diff":
        m = re.search(r": (dtype|shape|bytes) differ", detail)
        return m.group(1) if m else "count"
    if kind.startswith("io-"):
        return ""
    return re.sub(r"'[^']*'|\"[^\"]*\"|%\S+|\d+", "#", detail)[:50]


def _minimise(model, seq, inputs, kind, pass_name, budget_s: float = 300.0, max_evals: int = 120):
    """Greedy shrinking of (model, seq) while the same (kind, pass) failure stays. Returns (model, seq, inputs, fail)."""
    t0 = time.time()
    evals = [0]

    def feeds_for(m):
        names = {i.name for i in m.graph.input}
        return [{k: v for k, v in f.items() if k in names} for f in inputs]

    def fails(m, s):
        evals[0] += 1
        try:
            r = _check_sequence(m, s, feeds_for(m), {})
        except Exception:  # noqa: BLE001
            return None
        if r["status"] == "fail" and r["kind"] == kind and r["pass"] == pass_name and (
            cls[0] is None or _detail_class(kind, r.get("detail", "")) == cls[0]
        ):
            return r
        return None

    cls: list = [None]
    best_fail = fails(model, seq)
    if best_fail is None:
        return model, seq, inputs, None
    cls[0] = _detail_class(kind, best_fail.get("detail", ""))
    # shorten the sequence first
    seq = list(seq[: best_fail["step"] + 1]) if best_fail["step"] >= 0 else []
    i = 0
    while i < len(seq) - 1:
        s2 = seq[:i] + seq[i + 1:]
        r = fails(model, s2)
        if r is not None:
            seq, best_fail = s2, r
        else:
            i += 1
    progress = True
    while progress and time.time() - t0 < budget_s and evals[0] < max_evals:
        progress = False
        size = model.ByteSize()
        for c in _candidates(model):
            if time.time() - t0 > budget_s or evals[0] >= max_evals:
                break
            if c.ByteSize() >= size:
                continue
            r = fails(c, seq)
            if r is not None:
                model, best_fail, progress = c, r, True
                break
    return model, seq, feeds_for(model), best_fail


# ---- case encoding


def _enc_inputs(inputs: list[dict]) -> list[dict]:
    out = []
    for feeds in inputs:
        d = {}
        for k, v in feeds.items():
            v = np.asarray(v)
            if v.dtype == object:
                d[k] = {"dtype": "object", "shape": list(v.shape), "data": v.ravel().tolist()}
            else:
                d[k] = {"dtype": str(v.dtype), "shape": list(v.shape), "hex": v.tobytes().hex(),
                        "data": [x if x == x and abs(x) != float("inf") else repr(x) for x in v.ravel().tolist()]}
        out.append(d)
    return out


def _dec_inputs(enc: list[dict]) -> list[dict]:
    out = []
    for d in enc:
        feeds = {}
        for k, e in d.items():
            if e["dtype"] == "object":
                feeds[k] = np.array(e["data"], dtype=object).reshape(e["shape"])
            elif "hex" in e:
                feeds[k] = np.frombuffer(bytes.fromhex(e["hex"]), dtype=np.dtype(e["dtype"])).reshape(e["shape"]).copy()
            else:
                feeds[k] = np.array([float(x) if isinstance(x, str) else x for x in e["data"]],
                                    dtype=np.dtype(e["dtype"])).reshape(e["shape"])
        out.append(feeds)
    return out


def _ort_opinion(before: onnx.ModelProto, after_raw: bytes | None, inputs: list[dict]) -> str:
    """Second opinion used ONLY as a label on an eval-diff finding."""
    if after_raw is None:
        return "ort:n/a"
    try:
        import onnxruntime as ort

        so = ort.SessionOptions()
        so.intra_op_num_threads = 1
        so.log_severity_level = 4
        so.graph_optimization_level = ort.GraphOptimizationLevel.ORT_DISABLE_ALL
        a = ort.InferenceSession(before.SerializeToString(), so, providers=["CPUExecutionProvider"])
        b = ort.InferenceSession(after_raw, so, providers=["CPUExecutionProvider"])
        for feeds in inputs:
            # copies: onnxruntime writes BatchNormalization running statistics into the input buffers
            ra = a.run(None, {k: np.array(v, copy=True) for k, v in feeds.items()})
            rb = b.run(None, {k: np.array(v, copy=True) for k, v in feeds.items()})
            if [_canon_out(x) for x in ra] != [_canon_out(x) for x in rb]:
                return "ort:also-differs"
        return "ort:no-difference"
    except Exception as e:  # noqa: BLE001
        return f"ort:unavailable({type(e).__name__})"


def _default_inputs(proto: onnx.ModelProto) -> list[dict]:
    rng = random.Random("C05:inputs:" + _sha(proto.SerializeToString()))
    return [gen_inputs(rng, proto) for _ in range(2)]


def oracle(part, case_id, proto_before: onnx.ModelProto, seq_names: list[str], inputs: list[dict] | None = None,
           cache: dict | None = None, state: dict | None = None, minimise: bool = True) -> dict:
    """The property on the real code for one (model, sequence). Reports through part.fail / part.count.

    `cache` (sha1 of a serialized model -> its analysis) may be shared between sequences of the same model;
    `state` is per-worker memory used to avoid minimising the same kind of failure over and over."""
    if inputs is None:
        inputs = _default_inputs(proto_before)
    state = state if state is not None else {}
    res = _check_sequence(proto_before, list(seq_names), inputs, cache)
    part.count("oracle:" + res["status"])
    for e in res.get("exempt", []):
        part.count("exempt:" + e)
    if res["status"] != "fail":
        return res
    kind, pname = res["kind"], res["pass"]
    pre = _classify_confirmed(kind, pname, proto_before, res, list(seq_names[: res["step"] + 1]), inputs)
    pre_key = (kind, _base_name(pname), pre if not pre.startswith(("ops=",)) and ":ops=" not in pre else "?")
    seen = state.setdefault("seen", {})
    seen[pre_key] = seen.get(pre_key, 0) + 1
    part.count(f"fail:{kind}:{_base_name(pname)}")
    if seen[pre_key] > (1 if pre_key[2] != "?" else 3):
        return res
    model, seq, feeds, fail = proto_before, list(seq_names[: res["step"] + 1]), inputs, res
    if res.get("step", 0) > 0 and res.get("before_step"):
        # the model right before the failing pass is equivalent to the original (it passed every comparison):
        # restart from it so that the stored case is a single pass whenever the failure does not need in-memory state
        mid = onnx.ModelProto()
        mid.ParseFromString(res["before_step"])
        r1 = _check_sequence(mid, [pname], inputs, {})
        if r1["status"] == "fail" and r1["kind"] == kind:
            model, seq, fail = mid, [pname], r1
    if minimise and kind != "nontermination":  # every evaluation of a candidate would cost the whole guard
        m2, s2, f2, fl2 = _minimise(model, seq, inputs, kind, pname)
        if fl2 is not None:
            model, seq, feeds, fail = m2, s2, f2, fl2
    feature = _classify_confirmed(kind, pname, model, fail, seq, feeds)
    signature = f"{kind}:{_base_name(pname)}:{feature}"
    label = _ort_opinion(model, fail.get("after"), feeds) if kind == "eval-diff" else ""
    case = {
        "model_b64": base64.b64encode(model.SerializeToString()).decode(),
        "seq": seq,
        "inputs": _enc_inputs(feeds),
        "origin": case_id,
        "kind": kind,
        "pass": pname,
        "feature": feature,
        "detail": fail.get("detail", ""),
        "second_opinion": label,
        "model_text": _text(model),
        "generator_features": (case_id or {}).get("features") if isinstance(case_id, dict) else None,
    }
    what = f"{pname} after {seq[:-1]}: {kind}: {fail.get('detail', '')[:300]} {label}".strip()
    sigs = state.setdefault("sigs", set())
    if signature not in sigs:
        sigs.add(signature)
        if len(part["failures"]) < 40:
            part["failures"].append({"signature": signature, "what": what, "case": case})
    res["signature"] = signature
    return res


def _text(model) -> str:
    try:
        return onnx.printer.to_text(model)[:4000]
    except Exception:  # noqa: BLE001
        return ""


# ================================================================================ (D) run / replay

N_RANDOM_SEQ = 18  # random sequences per model, in addition to every single pass
N_CHUNKS = 16


def _bucket(n: int, edges=(5, 10, 20, 40, 80)) -> str:
    for e in edges:
        if n <= e:
            return f"<={e}"
    return f">{edges[-1]}"


def _size(rng: random.Random) -> int:
    return rng.choice([3, 4, 5, 6, 8, 10, 12, 15, 18, 21, 25])


# ---- stream "instance reuse": a pass object (and a Sequential / PassManager built from pass objects) must behave
# the same on its n-th model as a fresh object: the same instance is applied to every model of a worker in turn,
# including pairs of models that define a function with the SAME identifier but a different call structure, and the
# serialized result is compared with the result of a fresh instance on a private copy of the same model.

_REUSED: dict[str, object] = {}
_REUSE_CHAINS = {
    "Sequential(RemoveUnusedNodes,RemoveUnusedFunctions,RemoveUnusedOpsets)":
        ("seq", ["RemoveUnusedNodesPass", "RemoveUnusedFunctionsPass", "RemoveUnusedOpsetsPass"]),
    "Sequential(Inline,RemoveUnusedFunctions)": ("seq", ["InlinePass", "RemoveUnusedFunctionsPass"]),
    "PassManager(IdentityElimination,CSE,RemoveUnusedNodes,RemoveUnusedFunctions;steps=2,early_stop)":
        ("pm", ["IdentityEliminationPass", "CommonSubexpressionEliminationPass", "RemoveUnusedNodesPass",
                "RemoveUnusedFunctionsPass"]),
}


def _make_instance(name: str):
    import onnx_ir as ir

    if name in _REUSE_CHAINS:
        kind, names = _REUSE_CHAINS[name]
        passes = [PASSES[n]() for n in names]
        if kind == "seq":
            return ir.passes.Sequential(*passes)
        return ir.passes.PassManager(passes, steps=2, early_stop=True)
    return PASSES[name]()


def _apply_stepwise(name: str, raw: bytes) -> tuple:
    """what a Sequential / PassManager chain is documented to do, with fresh pass objects applied one by one"""
    import onnx_ir as ir

    kind, names = _REUSE_CHAINS[name]
    try:
        model = ir.serde.deserialize_model(_parse(raw))
        overall = False
        for _step in range(1 if kind == "seq" else 2):
            modified = False
            for n in names:
                r = _apply(PASSES[n](), model)
                model = r.model
                modified = modified or bool(r.modified)
            overall = overall or modified
            if kind == "pm" and not modified:
                break
        return ("ok", ir.serde.serialize_model(model).SerializeToString(), overall)
    except PassTimeout:
        return ("timeout", "stepwise:" + name, None)
    except Exception as e:  # noqa: BLE001
        return ("raised", "PassError" if True else type(e).__name__, None)


def _apply_bytes(inst, raw: bytes) -> tuple:
    import onnx_ir as ir

    try:
        model = ir.serde.deserialize_model(_parse(raw))
        res = _apply(inst, model)
        return ("ok", ir.serde.serialize_model(res.model).SerializeToString(), bool(res.modified))
    except PassTimeout:
        return ("timeout", "instance:" + type(inst).__name__, None)
    except Exception as e:  # noqa: BLE001
        return ("raised", type(e).__name__, None)


def _fn_twin_pair(rng: random.Random) -> tuple[bytes, bytes]:
    """two checker-valid models that define local::F (same identifier): in the first F is a leaf and no function is
    unused, in the second F calls the helper local::H (sometimes H calls local::G)"""
    ops = ["Abs", "Neg", "Relu", "Exp", "Tanh", "Sigmoid"]
    imp = [oh.make_opsetid("", 18), oh.make_opsetid("local", 1)]
    vi = oh.make_tensor_value_info

    def model(funcs, extra_main=()):
        g = oh.make_graph([oh.make_node("F", ["x"], ["y"], domain="local"), *extra_main], "g", [vi("x", _F, [3])],
                          [vi("y", _F, [3])])
        m = oh.make_model(g, opset_imports=imp, ir_version=10, functions=funcs)
        onnx.checker.check_model(m)
        return m.SerializeToString()

    f_leaf = oh.make_function("local", "F", ["a"], ["b"], [oh.make_node(rng.choice(ops), ["a"], ["b"])], imp[:1])
    deep = rng.random() < 0.4
    h_body = [oh.make_node("G", ["a"], ["b"], domain="local")] if deep else [oh.make_node(rng.choice(ops), ["a"], ["b"])]
    h = oh.make_function("local", "H", ["a"], ["b"], h_body, imp if deep else imp[:1])
    gfn = oh.make_function("local", "G", ["a"], ["b"], [oh.make_node(rng.choice(ops), ["a"], ["b"])], imp[:1])
    f_call = oh.make_function("local", "F", ["a"], ["b"], [oh.make_node("H", ["a"], ["c"], domain="local"),
                                                             oh.make_node(rng.choice(ops), ["c"], ["b"])], imp)
    first = model([f_leaf])
    second = model([f_call, h] + ([gfn] if deep else []))
    return first, second


_REUSE_HISTORY: list[bytes] = []  # the last models seen by the reused instances of this worker
_REUSE_HISTORY_LEN = 6


def _first_text_diff(a: bytes, b: bytes) -> str:
    try:
        ta, tb = onnx.printer.to_text(_parse(a)).split("\n"), onnx.printer.to_text(_parse(b)).split("\n")
        for x, y in zip(ta, tb):
            if x != y:
                return f"{x.strip()[:160]} | {y.strip()[:160]}"
        return f"{len(ta)} vs {len(tb)} lines" if len(ta) != len(tb) else "same text, different bytes"
    except Exception as e:  # noqa: BLE001
        return f"(no text diff: {type(e).__name__})"


def _reuse_check(part, raw: bytes, prev_raw: bytes | None, origin) -> None:
    history = list(_REUSE_HISTORY)
    for name in [*sorted(PASSES.keys()), *_REUSE_CHAINS]:
        inst = _REUSED.get(name)
        if inst is None:
            inst = _REUSED[name] = _make_instance(name)
        got = _apply_bytes(inst, raw)
        want = _apply_bytes(_make_instance(name), raw)
        part.count("reuse_checks")
        if "timeout" in (got[0], want[0]):
            # a timed-out instance may be half-way through its state: do not reuse it
            _REUSED.pop(name, None)
            _nonterm_failure(part, name, "reused-or-fresh-instance", f"{got[1] if got[0] == 'timeout' else want[1]}",
                             {"kind": "instance-state", "pass": name, "origin": origin,
                              "model_b64": base64.b64encode(raw).decode(), "seq": [name]})
            continue
        if name in _REUSE_CHAINS:
            step = _apply_stepwise(name, raw)
            part.count("chain_stepwise_checks")
            if step[0] == "timeout":
                _nonterm_failure(part, name, "stepwise-chain", step[1],
                                 {"kind": "chain-vs-stepwise", "pass": name, "origin": origin,
                                  "model_b64": base64.b64encode(raw).decode(), "seq": [name]})
                continue
            if step != want:
                sig = f"chain-vs-stepwise:{_base_name(name)}:differs"
                if not any(f["signature"] == sig for f in part["failures"]) and len(part["failures"]) < 40:
                    part["failures"].append({
                        "signature": sig,
                        "what": f"{name}: the result differs from applying its passes one by one "
                                f"({want[0]}/{want[2]} vs {step[0]}/{step[2]})",
                        "case": {"kind": "chain-vs-stepwise", "pass": name, "origin": origin,
                                 "model_b64": base64.b64encode(raw).decode(), "seq": [name]}})
        if got == want:
            continue
        # confirm: a fresh instance that sees the same recent history must show the same deviation (state kept
        # between runs is deterministic); otherwise the two results differ for another reason
        probe = _make_instance(name)
        for h in history:
            _apply_bytes(probe, h)
        again = _apply_bytes(probe, raw)
        want2 = _apply_bytes(_make_instance(name), raw)
        if again == want or want2 != want:
            part.count("reuse_unconfirmed:" + name)
            if len(part["samples"]) < 2:
                part["samples"].append({"reuse_unconfirmed": name, "origin": origin, "fresh_equal_fresh": want2 == want,
                                        "status": [got[0], want[0]],
                                        "diff": _first_text_diff(got[1], want[1]) if got[0] == want[0] == "ok" else ""})
            continue
        part.count("reuse_differs:" + name)
        sig = f"instance-state:{_base_name(name)}:reused-instance-differs-from-fresh"
        if not any(f["signature"] == sig for f in part["failures"]) and len(part["failures"]) < 40:
            part["failures"].append({
                "signature": sig,
                "what": f"{name}: after the models it was applied to before, the same pass object gives a different "
                        f"result than a fresh object on the same model ({again[0]}/{again[2]} vs {want[0]}/{want[2]}): "
                        f"{_first_text_diff(again[1], want[1]) if again[0] == want[0] == 'ok' else ''}",
                "case": {"kind": "instance-state", "pass": name, "origin": origin,
                         "history_b64": [base64.b64encode(h).decode() for h in history],
                         "model_b64": base64.b64encode(raw).decode(), "seq": [name]},
            })
    _REUSE_HISTORY.append(raw)
    del _REUSE_HISTORY[:-_REUSE_HISTORY_LEN]


def _replay_instance_state(part, case: dict) -> None:
    name = case["pass"]
    inst = _make_instance(name)
    for h in case.get("history_b64") or []:
        _apply_bytes(inst, base64.b64decode(h))
    raw = base64.b64decode(case["model_b64"])
    got, want = _apply_bytes(inst, raw), _apply_bytes(_make_instance(name), raw)
    if got != want:
        part["failures"].append({"signature": f"instance-state:{_base_name(name)}:reused-instance-differs-from-fresh",
                                 "what": f"{name}: reused instance differs from a fresh one", "case": case})


def _stochastic_twin_models() -> list[tuple[str, bytes]]:
    """checker-valid models with two IDENTICAL unseeded nodes of every stochastic operator (both outputs are
    graph outputs): the two nodes draw independently, so CSE must keep both (structural oracle: the evaluator
    is not deterministic on them)"""
    vi = oh.make_tensor_value_info
    specs = [
        ("RandomNormal", [], {"shape": [3], "dtype": 1}, (_F, [3])),
        ("RandomUniform", [], {"shape": [3], "dtype": 1}, (_F, [3])),
        ("RandomNormalLike", ["x"], {}, (_F, [3])),
        ("RandomUniformLike", ["x"], {}, (_F, [3])),
        ("Bernoulli", ["x"], {}, (_F, [3])),
        ("Multinomial", ["p"], {"sample_size": 2}, (TP.INT32, [1, 2])),
    ]
    out = []
    for op, ins, attrs, (et, shape) in specs:
        nodes = [oh.make_node(op, ins, ["r1"], **attrs), oh.make_node(op, ins, ["r2"], **attrs),
                 oh.make_node("Identity", ["r2"], ["r3"])]
        g = oh.make_graph(nodes, "g", [vi("x", _F, [3]), vi("p", _F, [1, 3])],
                          [vi("r1", et, shape), vi("r3", et, shape)])
        m = oh.make_model(g, opset_imports=[oh.make_opsetid("", 18)], ir_version=10)
        onnx.checker.check_model(m, full_check=True)
        out.append((op, m.SerializeToString()))
    return out


def _stochastic_twins_stream(part) -> None:
    import onnx_ir as ir

    cse = [n for n in sorted(PASSES.keys()) if n.startswith("CommonSubexpressionEliminationPass")]
    for op, raw in _stochastic_twin_models():
        for name in cse:
            part.count("stochastic_twin_checks")
            model = ir.serde.deserialize_model(_parse(raw))
            try:
                _apply(PASSES[name](), model)
            except PassTimeout as e:
                _nonterm_failure(part, name, "stochastic-twins", str(e),
                                 {"model_b64": base64.b64encode(raw).decode(), "seq": [name], "kind": "stochastic-twins"})
                continue
            left = sum(1 for n in model.graph if n.op_type == op)
            if left != 2:
                sig = f"cse-merged-stochastic:CommonSubexpressionEliminationPass:{op}"
                if not any(f["signature"] == sig for f in part["failures"]):
                    part["failures"].append({
                        "signature": sig,
                        "what": f"{name} merged two unseeded {op} nodes (they draw independently): {left} left of 2",
                        "case": {"model_b64": base64.b64encode(raw).decode(), "seq": [name], "kind": "stochastic-twins"}})
            correspond(part, {"stream": "stochastic-twins", "op": op, "sha1": _sha(raw)},
                       lambda b=raw: ir.serde.deserialize_model(_parse(b)), [name])


def _ref_attr(name: str, ref: str, typ) -> "onnx.AttributeProto":
    a = onnx.AttributeProto()
    a.name, a.ref_attr_name, a.type = name, ref, typ
    return a


def _fn_edge_models() -> list[tuple[str, bytes]]:
    """hand-built checker-valid models around the corners of function calls that the random generator reaches
    rarely or never: pass-through and repeated function outputs, calls that supply fewer inputs, reference
    attributes that stay references when a call is inlined into a function body, unused functions that call
    functions, calls inside control flow, control flow with captures and initializers inside a function body,
    several calls of one function"""
    vi = oh.make_tensor_value_info
    imp = [oh.make_opsetid("", 18), oh.make_opsetid("local", 1)]
    FLOAT = onnx.AttributeProto.FLOAT
    out: list[tuple[str, bytes]] = []

    def add(tag, nodes, funcs, ins=(("x", [3]),), outs=(("y", [3]),), inits=()):
        try:
            g = oh.make_graph(list(nodes), "g", [vi(n, _F, sh) for n, sh in ins], [vi(n, _F, sh) for n, sh in outs],
                              initializer=list(inits))
            m = oh.make_model(g, opset_imports=imp, ir_version=10, functions=list(funcs))
            onnx.checker.check_model(m)
            out.append((tag, m.SerializeToString()))
        except Exception:  # noqa: BLE001 - a corner the checker rejects is not a case
            pass

    call = lambda name, i, o, **kw: oh.make_node(name, i, o, domain="local", **kw)  # noqa: E731
    # pass-through output: F(a, b) => (Neg(a), b)
    f_pass = oh.make_function("local", "Fp", ["a", "b"], ["c", "b"], [oh.make_node("Neg", ["a"], ["c"])], imp[:1])
    add("passthrough", [call("Fp", ["x", "w"], ["p", "q"]), oh.make_node("Add", ["p", "q"], ["y"])], [f_pass],
        ins=(("x", [3]), ("w", [3])))
    # pass-through of a graph input that is also read later and is a graph output
    add("passthrough_io", [call("Fp", ["x", "w"], ["p", "q"]), oh.make_node("Mul", ["q", "w"], ["y"])], [f_pass],
        ins=(("x", [3]), ("w", [3])), outs=(("y", [3]), ("p", [3])))
    # the same input returned twice, and a function that only returns its input
    f_pass2 = oh.make_function("local", "Fq", ["a", "b"], ["b", "c", "b"], [oh.make_node("Neg", ["a"], ["c"])], imp[:1])
    add("passthrough_twice", [call("Fq", ["x", "w"], ["p", "q", "r"]), oh.make_node("Add", ["p", "q"], ["s"]),
                              oh.make_node("Add", ["s", "r"], ["y"])], [f_pass2], ins=(("x", [3]), ("w", [3])))
    f_id = oh.make_function("local", "Fid", ["a"], ["a"], [], imp[:1])
    add("passthrough_only", [call("Fid", ["x"], ["p"]), oh.make_node("Neg", ["p"], ["y"])], [f_id])
    add("passthrough_only_output", [call("Fid", ["x"], ["y"])], [f_id])
    # nested: G returns what the pass-through function F returns (its own input), F called twice in a chain
    g_nest = oh.make_function("local", "Gn", ["a", "b"], ["u", "v"],
                              [call("Fp", ["a", "b"], ["t", "u"]), call("Fp", ["t", "u"], ["v", "w2"])], imp)
    add("passthrough_nested", [call("Gn", ["x", "w"], ["p", "q"]), oh.make_node("Add", ["p", "q"], ["y"])],
        [f_pass, g_nest], ins=(("x", [3]), ("w", [3])))
    h_nest = oh.make_function("local", "Hn", ["a"], ["r"], [call("Fid", ["a"], ["s"]), call("Fid", ["s"], ["r"])], imp)
    add("passthrough_chain", [call("Hn", ["x"], ["y"])], [f_id, h_nest])
    add("passthrough_chain_criteria", [call("Hn", ["x"], ["u"]), call("Fid", ["u"], ["y"])], [h_nest, f_id])
    # a call that does not supply the input that the function returns: the real pass raises (None among the
    # replacement values); the model has to predict it (driver flag `raised`)
    add("passthrough_short_call", [call("Fp", ["x"], ["p", "q"]), oh.make_node("Neg", ["p"], ["y"])], [f_pass])
    g_short = oh.make_function("local", "Gs", ["a", "b"], ["t"], [call("Fp", ["a", "b"], ["t", "u"])], imp)
    add("passthrough_short_nested", [call("Gs", ["x"], ["y"])], [f_pass, g_short])
    # a model-local function called Identity in the default domain (the inserted Identity nodes would be calls)
    f_identity = oh.make_function("", "Identity", ["a"], ["b"], [oh.make_node("Neg", ["a"], ["b"])], imp[:1])
    add("identity_function", [call("Fid", ["x"], ["p"]), oh.make_node("Identity", ["p"], ["y"])], [f_id, f_identity])
    # the same value twice among the function outputs
    f_dup = oh.make_function("local", "Fd", ["a"], ["c", "c"], [oh.make_node("Abs", ["a"], ["c"])], imp[:1])
    add("dup_outputs", [call("Fd", ["x"], ["p", "q"]), oh.make_node("Sub", ["p", "q"], ["y"])], [f_dup])
    # a call that supplies fewer inputs than the function declares (the missing one is not read)
    f_opt = oh.make_function("local", "Fo", ["a", "b"], ["c"], [oh.make_node("Relu", ["a"], ["c"])], imp[:1])
    add("short_call", [call("Fo", ["x"], ["y"])], [f_opt])
    # nested calls, reference attribute passed on as a reference: Fb(beta) calls Ga(alpha=@beta)
    ga_node = oh.make_node("LeakyRelu", ["a"], ["b"])
    ga_node.attribute.append(_ref_attr("alpha", "alpha", FLOAT))
    ga = oh.make_function("local", "Ga", ["a"], ["b"], [ga_node], imp[:1], attributes=["alpha"])
    inner = call("Ga", ["a"], ["t"])
    inner.attribute.append(_ref_attr("alpha", "beta", FLOAT))
    fb = oh.make_function("local", "Fb", ["a"], ["b"], [inner, oh.make_node("Neg", ["t"], ["b"])], imp, attributes=["beta"])
    add("ref_chain", [call("Fb", ["x"], ["u"], beta=0.25), call("Ga", ["u"], ["y"], alpha=0.5)], [ga, fb])
    # the same with a default on the callee (the hypothesis of the theorem excludes it; the model must still agree)
    gd = oh.make_function("local", "Gd", ["a"], ["b"], [ga_node], imp[:1],
                          attribute_protos=[oh.make_attribute("alpha", 2.0)])
    inner_d = call("Gd", ["a"], ["t"])
    inner_d.attribute.append(_ref_attr("alpha", "beta", FLOAT))
    fd = oh.make_function("local", "Fe", ["a"], ["b"], [inner_d], imp, attributes=["beta"])
    add("ref_chain_default", [call("Fe", ["x"], ["y"], beta=0.25)], [gd, fd])
    # an unused function that calls a used one and an unused one
    leaf = oh.make_function("local", "L1", ["a"], ["b"], [oh.make_node("Abs", ["a"], ["b"])], imp[:1])
    leaf2 = oh.make_function("local", "L2", ["a"], ["b"], [oh.make_node("Neg", ["a"], ["b"])], imp[:1])
    dead = oh.make_function("local", "Dd", ["a"], ["b"], [call("L1", ["a"], ["t"]), call("L2", ["t"], ["b"])], imp)
    add("unused_calls", [call("L1", ["x"], ["y"])], [leaf, leaf2, dead])
    # three levels, several calls of one function
    mid = oh.make_function("local", "Md", ["a"], ["b"], [call("L1", ["a"], ["t"]), call("L1", ["t"], ["u"]),
                                                           call("L2", ["u"], ["b"])], imp)
    top = oh.make_function("local", "Tp", ["a"], ["b"], [call("Md", ["a"], ["t"]), call("L2", ["t"], ["b"])], imp)
    add("three_levels", [call("Tp", ["x"], ["u"]), call("Md", ["u"], ["v"]), call("Tp", ["v"], ["y"])], [leaf, leaf2, mid, top])
    # a call inside an If branch that captures an outer value; a function whose body has an If with a capture
    # and an initializer
    then_g = oh.make_graph([call("L2", ["x"], ["tb"])], "then", [], [vi("tb", _F, [3])])
    else_g = oh.make_graph([oh.make_node("Add", ["x", "k"], ["eb"])], "else", [], [vi("eb", _F, [3])],
                           initializer=[onh.from_array(np.array([1.0, 2.0, 3.0], dtype=np.float32), "k")])
    cond = oh.make_node("Constant", [], ["c"], value=onh.from_array(np.array(True), "cv"))
    add("call_in_if", [cond, oh.make_node("If", ["c"], ["y"], then_branch=then_g, else_branch=else_g)], [leaf2])
    f_then = oh.make_graph([oh.make_node("Mul", ["a", "k2"], ["ft"])], "fthen", [], [vi("ft", _F, [3])],
                           initializer=[onh.from_array(np.array([2.0, 2.0, 2.0], dtype=np.float32), "k2")])
    f_else = oh.make_graph([oh.make_node("Neg", ["a"], ["fe"])], "felse", [], [vi("fe", _F, [3])])
    f_if = oh.make_function("local", "Fi", ["a", "c"], ["b"],
                            [oh.make_node("If", ["c"], ["b"], then_branch=f_then, else_branch=f_else)], imp[:1])
    add("if_in_function", [cond, call("Fi", ["x", "c"], ["u"]), call("Fi", ["u", "c"], ["y"])], [f_if])
    # a call with FEWER OUTPUTS than its function (wave 5): accepted by check_model(full_check=False) and evaluated by
    # the ReferenceEvaluator, rejected by the strict checker and by onnxruntime ("output index out of range"); the real
    # InlinePass raises ValueError in replace_all_uses_with (number of values and replacements must match); the model
    # of the pass predicts the raise (flag `raised`).  Correspondence only (observation D302).
    f_two = oh.make_function("local", "F2", ["a"], ["b", "c"],
                             [oh.make_node("Neg", ["a"], ["b"]), oh.make_node("Abs", ["a"], ["c"])], imp[:1])
    add("short_outputs", [call("F2", ["x"], ["y"])], [f_two])
    g_two = oh.make_function("local", "G2", ["a"], ["r"], [call("F2", ["a"], ["r"])], imp)
    add("short_outputs_nested", [call("G2", ["x"], ["y"])], [f_two, g_two])
    # kept function (criteria=even keeps G2? whichever): the body of a function that is left is rewritten in place
    add("short_outputs_unused_caller", [oh.make_node("Neg", ["x"], ["y"])], [f_two, g_two])
    # the omitted output is a returned input that the call does not supply either (None beyond the call's outputs)
    add("short_outputs_none_beyond", [call("Fp", ["x"], ["y"])], [f_pass])
    # one call with all outputs, one with fewer
    add("short_outputs_mixed", [call("F2", ["x"], ["p", "q"]), call("F2", ["p"], ["r"]), oh.make_node("Add", ["r", "q"], ["y"])],
        [f_two])
    return out


_FN_EDGE_CORR_ONLY = {"passthrough_short_call", "passthrough_short_nested", "identity_function", "short_outputs",
                      "short_outputs_nested", "short_outputs_unused_caller", "short_outputs_none_beyond",
                      "short_outputs_mixed"}


def _identity_function_model() -> bytes:
    """D301: a model-local function ("", "Identity") that returns its input, called from the main graph"""
    vi = oh.make_tensor_value_info
    imp = [oh.make_opsetid("", 18)]
    f_identity = oh.make_function("", "Identity", ["a"], ["a"], [], imp)
    g = oh.make_graph([oh.make_node("Identity", ["x"], ["y"])], "g", [vi("x", _F, [3])], [vi("y", _F, [3])])
    return oh.make_model(g, opset_imports=imp, ir_version=10, functions=[f_identity]).SerializeToString()


def _identity_function_stream(part) -> None:
    """D301 (fixed in /repo as c0ac427): InlinePass forwards a returned function input through a standard Identity
    node; when the model defines a local function of that identifier which returns its input, the forwarding node is
    itself a call that was inlined into a forwarding node, without end.  Termination is part of the property (a pass
    that does not return preserves nothing): the pass runs under the guard of `_apply` (5 s of CPU here)."""
    import onnx_ir as ir
    from onnx_ir.passes import common as P

    raw = _identity_function_model()
    try:
        onnx.checker.check_model(_parse(raw))
    except Exception:  # noqa: BLE001 - a corner the checker rejects is not a case
        part.count("identity_function_stream:checker_rejects")
        return
    model = ir.serde.deserialize_model(_parse(raw))
    try:
        _apply(P.InlinePass(), model, cpu_s=5.0, wall_s=120.0)
        outcome = "returned"
    except PassTimeout:
        outcome = "timeout"
    except Exception as e:  # noqa: BLE001
        outcome = "raised:" + type(e).__name__ + ("<" + type(e.__cause__).__name__ + ">" if e.__cause__ else "")
    del model
    part.count("identity_function_stream:" + outcome)
    if outcome == "timeout":
        _nonterm_failure(part, "InlinePass", "function-named-identity",
                         "checker-valid model that defines the local function ::Identity returning its input: the "
                         "Identity node that forwards the returned input is inlined as a call to that function, again "
                         "and again (D301)",
                         {"model_b64": base64.b64encode(raw).decode(), "seq": ["InlinePass"], "kind": "identity-function"})


_STD_NAMES = ("Add", "Mul", "Sub", "Equal", "Max", "Min", "And", "Or", "Xor", "Sum", "BitwiseAnd", "BitwiseOr", "BitwiseXor",
              "MatMul", "Concat", "Where", "Identity")


def _std_named_fn_models() -> list[tuple[str, bytes]]:
    """a model-local function (domain "local", and a second copy in the domain "custom") that carries the NAME of a standard
    operator but computes X - Y*Y, called twice on the same two values in swapped order (and once more in the first order):
    only the identifier (domain, name, overload) may decide what a pass knows about an operator (seeded C05-r1: a CSE
    key that sorts the operands of 'commutative' op types without looking at the domain merges F(a, b) with F(b, a))"""
    vi = oh.make_tensor_value_info
    out = []
    for dom in ("local", "custom"):
        imp = [oh.make_opsetid("", 18), oh.make_opsetid(dom, 1)]
        for name in _STD_NAMES:
            f = oh.make_function(dom, name, ["X", "Y"], ["Z"],
                                 [oh.make_node("Mul", ["Y", "Y"], ["t"]), oh.make_node("Sub", ["X", "t"], ["Z"])], imp[:1])
            call = lambda i, o: oh.make_node(name, i, o, domain=dom)  # noqa: E731
            nodes = [call(["a", "b"], ["p"]), call(["b", "a"], ["q"]), call(["a", "b"], ["r"]),
                     oh.make_node("Add", ["p", "r"], ["s"])]
            try:
                g = oh.make_graph(nodes, "g", [vi("a", _F, [3]), vi("b", _F, [3])], [vi("q", _F, [3]), vi("s", _F, [3])])
                m = oh.make_model(g, opset_imports=imp, ir_version=10, functions=[f])
                onnx.checker.check_model(m)
                out.append((f"{dom}::{name}", m.SerializeToString()))
            except Exception:  # noqa: BLE001 - a corner the checker rejects is not a case
                pass
    return out


def _std_named_fn_stream(part) -> None:
    seqs = [["CommonSubexpressionEliminationPass"], ["CommonSubexpressionEliminationPass", "RemoveUnusedNodesPass"],
            ["IdentityEliminationPass", "CommonSubexpressionEliminationPass", "InlinePass"],
            ["InlinePass", "CommonSubexpressionEliminationPass"]]
    state: dict = {}
    for tag, raw in _std_named_fn_models():
        part.count("std_named_fn_models")
        proto = _parse(raw)
        try:
            inputs = _default_inputs(proto)
        except Exception:  # noqa: BLE001
            part.count("std_named_fn_inputs_error:" + tag)
            continue
        for seq in seqs:
            oracle(part, {"stream": "std-named-fn", "tag": tag, "sha1": _sha(raw), "seq": seq}, proto, seq, inputs, {}, state)


def _fn_edge_stream(part) -> None:
    import onnx_ir as ir

    seqs = [["InlinePass"], ["InlinePass(criteria=even)"], ["RemoveUnusedFunctionsPass"],
            ["InlinePass", "RemoveUnusedFunctionsPass", "RemoveUnusedOpsetsPass"],
            ["InlinePass(criteria=even)", "RemoveUnusedFunctionsPass", "InlinePass"]]
    state: dict = {}
    skip = set(filter(None, os.environ.get("C05_SKIP_EDGE", "").split(",")))  # development only (mutation runs)
    for tag, raw in _fn_edge_models():
        if tag in skip:
            part.count("fn_edge_skipped_by_env:" + tag)
            continue
        part.count("fn_edge_models")
        part.count("fn_edge:" + tag)
        proto = _parse(raw)
        if tag in _FN_EDGE_CORR_ONLY:
            # not a case of the oracle: the strict onnx checker (C++ shape inference) crashes the process on a call
            # that omits an input which the function returns, and a function in the default domain does not survive
            # the serde round trip of the checker's required fields; model/implementation correspondence only
            part.count("fn_edge_corr_only:" + tag)
            for seq in seqs[:2]:
                case_id = {"stream": "fn-edge", "tag": tag, "sha1": _sha(raw), "seq": seq}
                correspond(part, case_id, lambda b=raw: ir.serde.deserialize_model(_parse(b)), seq)
            continue
        try:
            inputs = _default_inputs(proto)
        except Exception:  # noqa: BLE001
            part.count("fn_edge_inputs_error:" + tag)
            continue
        for seq in seqs:
            case_id = {"stream": "fn-edge", "tag": tag, "sha1": _sha(raw), "seq": seq}
            oracle(part, case_id, proto, seq, inputs, {}, state)
            correspond(part, case_id, lambda b=raw: ir.serde.deserialize_model(_parse(b)), seq)


def _short_outputs_case(part, raw: bytes, seed_str: str, case_id: dict) -> None:
    """wave 5: a generated model in which one function gets an extra output (a value of its body, one of its outputs
    again, or one of its inputs), so that every call of it has FEWER OUTPUTS than the function: the real InlinePass
    raises when it instantiates such a call (ValueError in replace_all_uses_with) and returns when it meets none (the
    function is not called, or the criterion keeps it); the model of the pass must predict which (flag `raised`).
    Correspondence only: the strict checker and onnxruntime reject these models."""
    import onnx_ir as ir

    for name in ("InlinePass", "InlinePass(criteria=even)"):
        rng = random.Random(seed_str)
        model = ir.serde.deserialize_model(_parse(raw))
        funcs = [f for f in model.functions.values() if len(f.outputs) >= 1]
        if not funcs:
            part.count("short_outputs_stream:no_function")
            return
        f = rng.choice(funcs)
        pool = [o for n in f for o in n.outputs] + list(f.outputs) + list(f.inputs)
        f.outputs.append(rng.choice(pool))
        part.count("short_outputs_cases")
        _fcorr_step(part, {**case_id, "stream": "short-outputs", "seq": [name]}, name, model, "short-outputs")


_DEF_VERSIONS = [1, 6, 9, 11, 13, 17, 18, 20, 21, 1000]


def _defaults_versions_case(part, raw: bytes, seed_str: str, case_id: dict) -> None:
    """wave 5: how AddDefaultAttributesPass finds the opset version: random nodes (main graph, subgraphs, function
    bodies) get an `ir.Node.version`, the main graph's and the functions' imports of the default domain are changed or
    deleted.  Correspondence only (`node.version` does not survive serialization, and the defaults of another opset
    version need not suit the node)."""
    import onnx_ir as ir

    rng = random.Random(seed_str)
    model = ir.serde.deserialize_model(_parse(raw))
    for n in _all_nodes(model):
        if rng.random() < 0.3:
            n.version = rng.choice(_DEF_VERSIONS)
    r = rng.random()
    if r < 0.25:
        model.graph.opset_imports.pop("", None)
        part.count("defaults_versions:main_import_deleted")
    elif r < 0.6:
        model.graph.opset_imports[""] = rng.choice(_DEF_VERSIONS)
    for f in model.functions.values():
        if rng.random() < 0.4:
            f.opset_imports[""] = rng.choice(_DEF_VERSIONS)
    part.count("defaults_versions_cases")
    _fcorr_step(part, {**case_id, "stream": "defaults-versions", "seq": ["AddDefaultAttributesPass"]},
                "AddDefaultAttributesPass", model, "defaults-versions")


def _defaults_edge_models() -> list[tuple[str, bytes, bool]]:
    """hand-built models around AddDefaultAttributesPass: a default that changed between opset versions, nodes in
    function bodies and in subgraphs, an attribute that is present as a REFERENCE, a function with its own (compatible)
    opset import, a domain the main graph does not import, an operator without schema, a model-local function that
    shadows an ONNX operator with defaults (the hypothesis `callsUntouched` of C05_add_defaults is false there)"""
    vi = oh.make_tensor_value_info
    FLOAT = onnx.AttributeProto.FLOAT
    out: list[tuple[str, bytes, bool]] = []

    def add(tag, nodes, funcs=(), imp=None, ins=(("x", [2, 3]),), outs=(("y", [2, 3]),), inits=()):
        imp = imp or [oh.make_opsetid("", 18), oh.make_opsetid("local", 1)]
        g = oh.make_graph(list(nodes), "g", [vi(n, _F, sh) for n, sh in ins], [vi(n, _F, sh) for n, sh in outs],
                          initializer=list(inits))
        m = oh.make_model(g, opset_imports=imp, ir_version=10, functions=list(funcs))
        try:
            onnx.checker.check_model(m)
            ok = True
        except Exception:  # noqa: BLE001
            ok = False
        out.append((tag, m.SerializeToString(), ok))

    call = lambda name, i, o, **kw: oh.make_node(name, i, o, domain="local", **kw)  # noqa: E731
    for v in (11, 13, 18):
        add(f"softmax_opset{v}", [oh.make_node("Softmax", ["x"], ["y"])], imp=[oh.make_opsetid("", v)])
    add("partly_present", [oh.make_node("Selu", ["x"], ["t"], gamma=1.5), oh.make_node("LeakyRelu", ["t"], ["u"]),
                           oh.make_node("Gemm", ["u", "w"], ["y"], transB=1)],
        ins=(("x", [2, 3]), ("w", [3, 3])))
    lr = oh.make_node("LeakyRelu", ["a"], ["t"])
    lr.attribute.append(_ref_attr("alpha", "alpha", FLOAT))
    fb = oh.make_function("local", "Fa", ["a"], ["b"], [lr, oh.make_node("Softmax", ["t"], ["u"]),
                                                         oh.make_node("LogSoftmax", ["u"], ["b"])],
                          [oh.make_opsetid("", 18)], attributes=["alpha"])
    add("function_body_ref_present", [call("Fa", ["x"], ["t"], alpha=0.25), oh.make_node("Elu", ["t"], ["y"])], [fb])
    fb17 = oh.make_function("local", "Fb", ["a"], ["b"], [oh.make_node("Selu", ["a"], ["t"]),
                                                           oh.make_node("HardSigmoid", ["t"], ["b"])],
                            [oh.make_opsetid("", 17)])
    add("function_other_opset", [call("Fb", ["x"], ["y"])], [fb17])
    then_g = oh.make_graph([oh.make_node("Elu", ["x"], ["tb"])], "then", [], [vi("tb", _F, [2, 3])])
    else_g = oh.make_graph([oh.make_node("ThresholdedRelu", ["x"], ["eb"])], "else", [], [vi("eb", _F, [2, 3])])
    cond = oh.make_node("Constant", [], ["c"], value=onh.from_array(np.array(True), "cv"))
    add("subgraphs", [cond, oh.make_node("If", ["c"], ["y"], then_branch=then_g, else_branch=else_g)])
    add("domain_not_imported", [oh.make_node("Selu", ["x"], ["y"])], imp=[oh.make_opsetid("local", 1)])
    add("no_schema", [oh.make_node("NoSuchOperator", ["x"], ["t"]), oh.make_node("Selu", ["t"], ["y"])])
    shadow = oh.make_function("", "Selu", ["a"], ["b"], [oh.make_node("Neg", ["a"], ["b"])], [oh.make_opsetid("", 18)])
    add("local_function_shadows_operator", [oh.make_node("Selu", ["x"], ["y"])], [shadow])
    # a function in the default domain does not survive the checker's required-field test after a serde round trip
    out[-1] = (out[-1][0], out[-1][1], False)
    return out


def _defaults_edge_stream(part) -> None:
    import onnx_ir as ir

    seqs = [["AddDefaultAttributesPass"], ["AddDefaultAttributesPass", "InlinePass"],
            ["InlinePass", "AddDefaultAttributesPass", "CommonSubexpressionEliminationPass"],
            ["AddDefaultAttributesPass", "AddDefaultAttributesPass"]]
    state: dict = {}
    for tag, raw, ok in _defaults_edge_models():
        part.count("defaults_edge:" + tag + ("" if ok else ":corr_only"))
        proto = _parse(raw)
        inputs = None
        if ok:
            try:
                inputs = _default_inputs(proto)
            except Exception:  # noqa: BLE001
                inputs = None
        for seq in seqs:
            if tag == "function_other_opset" and "InlinePass" in seq:
                continue  # InlinePass refuses functions whose opset import differs from the model's (an error exit)
            case_id = {"stream": "defaults-edge", "tag": tag, "sha1": _sha(raw), "seq": seq}
            if inputs is not None:
                oracle(part, case_id, proto, seq, inputs, {}, state)
            correspond(part, case_id, lambda b=raw: ir.serde.deserialize_model(_parse(b)), seq)
        for k in range(3):
            _defaults_versions_case(part, raw, f"C05:defaults-edge:{tag}:{k}", {"tag": tag, "k": k})


def _work(chunk: tuple) -> dict:
    seed, index, n_models = chunk
    _quiet()
    import onnx_ir as ir

    rng = random.Random(f"C05:{seed}:{index}")
    part = Part()
    state: dict = {}
    prev_raw: bytes | None = None
    twin_rng = random.Random(f"C05:twins:{seed}:{index}")
    for mi in range(n_models):
        if mi % 8 == 0:
            # function-identifier twins through the reused instances (see _fn_twin_pair)
            a_raw, b_raw = _fn_twin_pair(twin_rng)
            part.count("reuse_twin_pairs")
            _reuse_check(part, a_raw, prev_raw, {"seed": seed, "chunk": index, "twin": mi, "which": "first"})
            _reuse_check(part, b_raw, a_raw, {"seed": seed, "chunk": index, "twin": mi, "which": "second"})
            prev_raw = b_raw
        try:
            proto, info = gen_model_ex(rng, _size(rng))
        except Exception as e:  # noqa: BLE001 - generator bug: visible in the histogram, never a finding
            part.count("gen_error:" + type(e).__name__)
            continue
        inputs = [gen_inputs(rng, proto), gen_inputs(rng, proto, override=True)]
        seqs = gen_sequences(rng, N_RANDOM_SEQ)
        raw = proto.SerializeToString()
        sha = _sha(raw)
        cache: dict = {}
        base = cache[sha] = _analyse(proto, inputs)
        part.count("models")
        if base["checker"] is not None or base["eval_error"] is not None:
            part.count("gen_invalid")
            part.count("gen_invalid:" + (base["checker"] or base["eval_error"])[:60])
            continue
        for f in info["features"]:
            part.count("feat:" + f)
        _reuse_check(part, raw, prev_raw, {"seed": seed, "chunk": index, "model": mi, "sha1": sha})
        prev_raw = raw
        nfeat = _bucket(len(info["features"]), (5, 10, 15, 20, 30))
        for seq in seqs:
            case_id = {"seed": seed, "chunk": index, "model": mi, "sha1": sha, "seq": seq, "features": info["features"]}
            res = oracle(part, case_id, proto, seq, inputs, cache, state)
            modified = any(res.get("modified", []))
            for name in seq:
                part.count("pass=" + name)
            if len(seq) == 1 and modified:
                part.count("modified_single=" + seq[0])
            part.case(
                [sha, seq], nontrivial=modified,
                sample={"model_sha1": sha, "seq": seq, "nodes": info["nodes"], "features": info["features"][:12]}
                if modified and len(seq) > 1 else None,
                seqlen=len(seq), nodes=_bucket(info["nodes"]), depth=info["depth"], modified=modified,
                nfeatures=nfeat, status=res["status"],
            )
            correspond(part, case_id, lambda b=raw: ir.serde.deserialize_model(_parse(b)), seq)
        # wave 5: opset-version look-up of AddDefaultAttributesPass; calls with fewer outputs than the function
        origin = {"seed": seed, "chunk": index, "model": mi, "sha1": sha}
        _defaults_versions_case(part, raw, f"C05:defver:{seed}:{index}:{mi}", origin)
        if proto.functions:
            _short_outputs_case(part, raw, f"C05:shortout:{seed}:{index}:{mi}", origin)
    corr_flush(part)
    return part


def _replay_case(part, case: dict, state: dict | None = None, minimise: bool = False) -> dict:
    proto = onnx.ModelProto()
    proto.ParseFromString(base64.b64decode(case["model_b64"]))
    inputs = _dec_inputs(case["inputs"]) if case.get("inputs") else None
    origin = case.get("origin") if isinstance(case.get("origin"), dict) else {"corpus": True}
    return oracle(part, origin, proto, list(case["seq"]), inputs, None, state, minimise=minimise)


def run(ctx: Ctx) -> None:
    _quiet()
    ctx.rule = (
        "one case = (generated checker-valid model, pass sequence): every single pass of onnx_ir.passes.common "
        "(+ parameter variants) and random sequences of length 2..4; non-trivial = at least one pass of the "
        "sequence reported modified=True; distinct by (sha1 of the serialized model, sequence)"
    )
    part = Part()
    state: dict = {}
    for entry in load_corpus("C05"):
        case = entry.get("case", entry)
        if "model_b64" not in case:
            continue
        _replay_case(part, case, state)
        part.count("corpus_replayed")
        import onnx_ir as ir

        proto = onnx.ModelProto()
        proto.ParseFromString(base64.b64decode(case["model_b64"]))
        correspond(part, {"corpus": True}, lambda b=proto.SerializeToString(): ir.serde.deserialize_model(_parse(b)),
                   list(case["seq"]))
    _stochastic_twins_stream(part)
    _fn_edge_stream(part)
    _std_named_fn_stream(part)
    _identity_function_stream(part)
    _defaults_edge_stream(part)
    corr_flush(part)
    ctx.merge(part)
    n = ctx.pick(320, 6400)
    per = [n // N_CHUNKS + (1 if i < n % N_CHUNKS else 0) for i in range(N_CHUNKS)]
    chunks = [(ctx.seed, i, per[i]) for i in range(N_CHUNKS)]
    for p in pmap(_work, chunks):
        ctx.merge(p)
    # coverage floors of the wave-5 streams (only on runs without failures / disagreements: a broken implementation
    # may well starve a stream, and then the failures are the result)
    floors = {"fcorr_agree:AddDefaultAttributesPass": ctx.pick(400, 4000), "fcorr_defaults_node_versions": ctx.pick(100, 1000),
              "fcorr_raised_predicted:ValueError": ctx.pick(30, 300), "fcorr_canon_depth=True": ctx.pick(500, 5000)}
    ctx.extra["coverage_floors"] = {k: {"got": ctx.dist.get(k, 0), "floor": v} for k, v in floors.items()}
    thin = [k for k, v in floors.items() if ctx.dist.get(k, 0) < v]
    if thin and not ctx.failures and not ctx.disagreements:
        from harness.common import Infra

        raise Infra(f"coverage floor not reached: {({k: ctx.extra['coverage_floors'][k] for k in thin})}")
    models = ctx.dist.get("models", 0)
    invalid = ctx.dist.get("gen_invalid", 0)
    ctx.notes.append(f"generated models: {models}, rejected before any pass (gen_invalid): {invalid}")
    ctx.extra["passes_covered"] = sorted(PASSES.keys())


def replay(ctx: Ctx, obj: dict) -> None:
    _quiet()
    case = obj.get("case", obj)
    part = Part()
    if case.get("kind") == "instance-state":
        _replay_instance_state(part, case)
    elif case.get("kind") == "stochastic-twins":
        _stochastic_twins_stream(part)
    elif case.get("kind") == "identity-function":
        _identity_function_stream(part)
    elif case.get("kind") == "chain-vs-stepwise":
        raw = base64.b64decode(case["model_b64"])
        if _apply_stepwise(case["pass"], raw) != _apply_bytes(_make_instance(case["pass"]), raw):
            part["failures"].append({"signature": f"chain-vs-stepwise:{_base_name(case['pass'])}:differs",
                                     "what": "chain differs from stepwise application", "case": case})
    else:
        _replay_case(part, case, {}, minimise=False)
    ctx.merge(part)


if __name__ == "__main__":  # development only: distribution and modified-rate report
    import collections
    import sys

    _quiet()
    import onnx_ir as ir

    N = int(sys.argv[1]) if len(sys.argv) > 1 else 300
    mod, tot = collections.Counter(), collections.Counter()
    feats, bad = collections.Counter(), collections.Counter()
    t0 = time.time()
    for i in range(N):
        rng = random.Random(f"C05:dev:{i}")
        proto, info = gen_model_ex(rng, _size(rng))
        inputs = [gen_inputs(rng, proto) for _ in range(2)]
        st = _analyse(proto, inputs)
        if st["checker"] or st["eval_error"]:
            bad[(st["checker"] or st["eval_error"])[:150]] += 1
            continue
        try:
            onnx.checker.check_model(proto, full_check=True)
        except Exception as e:  # noqa: BLE001
            bad["full_check: " + str(e)[:150].replace("\n", " ")] += 1
        for f in info["features"]:
            feats[f] += 1
        for name in sorted(PASSES.keys()):
            tot[name] += 1
            try:
                if PASSES[name]()(ir.serde.deserialize_model(_parse(proto.SerializeToString()))).modified:
                    mod[name] += 1
            except Exception:  # noqa: BLE001
                mod[name + " (raised)"] += 1
    print(f"{N} models in {time.time() - t0:.1f}s; invalid/unevaluable: {sum(bad.values())}")
    for k, v in bad.most_common():
        print("  ", v, k)
    for name in sorted(tot):
        print(f"  {name:55s} modified {100 * mod[name] / tot[name]:5.1f}%  raised {mod[name + ' (raised)']}")
    print(sorted(feats.items()))

"""Attribute layer of the C03 / C17 model (`lean/IrVerif/Model/ScopeAttr.lean`): abstraction of the `attribute` list of
every NodeProto / the `Attributes` dict of every ir.Node (main graph, subgraphs, function bodies) into the JSON of
`scope.adeser` / `scope.aser`, the correspondence checks of both properties, the generator extensions.

Tokens.  The payload of a non-graph attribute is the hex of the deterministic bytes of an AttributeProto that holds ONLY
the payload field of the attribute's type (never a float as text).  Proto side: the field is read as the decoder reads
it (`proto.i` of an absent field is 0) — stray payload fields of other types are not in the abstraction; for a
reference attribute the token is "" unless the field is present (the model drops it; the real code must, too).
TENSOR(S) / TYPE_PROTO(S) payloads are normalised through their leaf codec (`deserialize_tensor` -> `serialize_tensor`,
`deserialize_type_proto_for_*` -> `serialize_type_into` / `serialize_shape_into`) when the leaf decoder accepts them:
the layer is about names, dict order, survivors, reference / type / doc fields, graphs and error paths, the leaf
codecs are opaque.  IR side: the same AttributeProto is built from `attr.value` with the leaf encoders.
`ok` (leafOk): STRINGS decodable as UTF-8 (checked here), TENSOR(S) / TYPE_PROTO(S): the leaf decoder alone does not raise.

`proto.type` of a number that is no AttributeType member reads as 0 with python-protobuf (closed enum; the number
stays in the unknown fields), so `AErr.unknownType` (`_enums.AttributeType(proto.type)` raising) is not reachable
from real protos; the harness always sends the number `proto.type` reads.
"""
from __future__ import annotations

import random
import re
import zlib

import onnx
import onnx_ir as ir

from harness import serde_common as sc
from harness.serde_common import OutsideModel

T = onnx.AttributeProto
_SCALAR = {T.FLOAT: "f", T.INT: "i", T.STRING: "s", T.TENSOR: "t", T.TYPE_PROTO: "tp"}
_REPEATED = {T.FLOATS: "floats", T.INTS: "ints", T.STRINGS: "strings", T.TENSORS: "tensors", T.TYPE_PROTOS: "type_protos"}
KIND_NAME = {0: "UNDEFINED", 1: "FLOAT", 2: "INT", 3: "STRING", 4: "TENSOR", 5: "GRAPH", 6: "FLOATS", 7: "INTS",
             8: "STRINGS", 9: "TENSORS", 10: "GRAPHS", 11: "SPARSE_TENSOR", 12: "SPARSE_TENSORS", 13: "TYPE_PROTO",
             14: "TYPE_PROTOS"}
ATTR_SER_ERRORS = ("Unsupported attribute type", "Sparse tensors are not supported")
MAX_DEPTH = 40


def _hex(b: onnx.AttributeProto) -> str:
    return b.SerializeToString(deterministic=True).hex()


# --------------------------------------------------------------------------- leaf codecs (opaque to the layer)


def _norm_tensor(dst: onnx.TensorProto, src: onnx.TensorProto) -> bool:
    from onnx_ir import serde

    try:
        serde.serialize_tensor_into(dst, serde.deserialize_tensor(src))
        return True
    except Exception:  # noqa: BLE001 - the leaf decoder / encoder rejects the payload
        dst.CopyFrom(src)
        return False


def _decodes_tensor(src: onnx.TensorProto) -> bool:
    from onnx_ir import serde

    try:
        serde.deserialize_tensor(src)
        return True
    except Exception:  # noqa: BLE001
        return False


def _write_type(dst: onnx.TypeProto, ts) -> None:
    from onnx_ir import serde

    if ts.type is not None:
        serde.serialize_type_into(dst, ts.type)
    if ts.shape is not None:
        serde.serialize_shape_into(dst, ts.shape)


def _norm_type(dst: onnx.TypeProto, src: onnx.TypeProto) -> bool:
    from onnx_ir import serde

    try:
        t = serde.deserialize_type_proto_for_type(src)
        s = serde.deserialize_type_proto_for_shape(src)
    except Exception:  # noqa: BLE001
        dst.CopyFrom(src)
        return False
    try:
        _write_type(dst, ir.TypeAndShape(t, s))
    except Exception:  # noqa: BLE001 - decodable but not encodable again: keep the raw payload
        dst.Clear()
        dst.CopyFrom(src)
    return True


# --------------------------------------------------------------------------- proto side


def _payload_proto(a: onnx.AttributeProto) -> tuple[str, bool]:
    """(token, leafOk) of the payload field that belongs to a.type, read as `_deserialize_attribute` reads it"""
    t = a.type
    b = onnx.AttributeProto()
    ok = True
    if t == T.INT:
        b.i = a.i
    elif t == T.FLOAT:
        b.f = a.f
    elif t == T.STRING:
        b.s = a.s
    elif t == T.INTS:
        b.ints.extend(a.ints)
    elif t == T.FLOATS:
        b.floats.extend(a.floats)
    elif t == T.STRINGS:
        b.strings.extend(a.strings)
        for s in a.strings:
            try:
                s.decode("utf-8")
            except UnicodeDecodeError:
                ok = False
    elif t == T.TENSOR:
        ok = _norm_tensor(b.t, a.t)
    elif t == T.TENSORS:
        oks = [_decodes_tensor(x) for x in a.tensors]
        ok = all(oks)
        for x in a.tensors:
            if ok:
                _norm_tensor(b.tensors.add(), x)
            else:
                b.tensors.add().CopyFrom(x)
    elif t == T.TYPE_PROTO:
        ok = _norm_type(b.tp, a.tp)
    elif t == T.TYPE_PROTOS:
        for x in a.type_protos:
            ok = _norm_type(b.type_protos.add(), x) and ok
    else:
        return "", True
    return _hex(b), ok


def _payload_present(a: onnx.AttributeProto) -> bool:
    t = a.type
    if t in _SCALAR:
        return a.HasField(_SCALAR[t])
    if t in _REPEATED:
        return len(getattr(a, _REPEATED[t])) > 0
    return False


def _get(p, field):
    return getattr(p, field) if p.HasField(field) else None


def _around(kinds: list, hist: dict) -> None:
    """where the non-graph attributes sit relative to the graph attributes of the node"""
    if "g" in kinds and "x" in kinds:
        i0, i1 = kinds.index("g"), len(kinds) - 1 - kinds[::-1].index("g")
        pos = ("before" if "x" in kinds[:i0] else "") + ("between" if "x" in kinds[i0:i1] else "") + (
            "after" if "x" in kinds[i1:] else "")
        hist[f"attr_around_graph={pos}"] = hist.get(f"attr_around_graph={pos}", 0) + 1


def attr_proto(a: onnx.AttributeProto, depth: int, hist: dict | None) -> dict:
    ref = _get(a, "ref_attr_name")
    if ref:
        tok, ok = (_payload_proto(a) if _payload_present(a) else ("", True))
    else:
        tok, ok = _payload_proto(a)
    if hist is not None:
        k = "ref" if ref else KIND_NAME.get(int(a.type), "?")
        hist[f"attr_kind={k}"] = hist.get(f"attr_kind={k}", 0) + 1
    return {
        "n": a.name, "d": _get(a, "doc_string"), "r": ref, "t": int(a.type), "k": tok, "ok": ok,
        "g": graph_proto(a.g, depth + 1, hist) if a.HasField("g") else None,
        "gs": [graph_proto(g, depth + 1, hist) for g in a.graphs],
    }


def node_proto(n: onnx.NodeProto, depth: int, hist: dict | None) -> list:
    if hist is not None:
        names = [a.name for a in n.attribute]
        if len(set(names)) != len(names):
            hist["attr_duplicate_names"] = hist.get("attr_duplicate_names", 0) + 1
        _around(["g" if a.type in (T.GRAPH, T.GRAPHS) and not a.ref_attr_name else "x" for a in n.attribute], hist)
    return [attr_proto(a, depth, hist) for a in n.attribute]


def graph_proto(g: onnx.GraphProto, depth: int = 0, hist: dict | None = None) -> list:
    if depth > MAX_DEPTH:
        raise OutsideModel("attr: nesting depth")
    return [node_proto(n, depth, hist) for n in g.node]


def model_proto(m: onnx.ModelProto, hist: dict | None = None) -> dict:
    """ModelAP JSON (request of `scope.adeser`)"""
    return {"graph": graph_proto(m.graph, 0, hist),
            "funcs": [[[f.domain, f.name, f.overload], [node_proto(n, 0, hist) for n in f.node]] for f in m.functions]}


def shape_proto(m: onnx.ModelProto):
    """the tree of graphs as the CORE abstraction sees it (`serde_common._subgraphs_of_node_proto`)"""
    def g_(g, depth):
        if depth > MAX_DEPTH:
            raise OutsideModel("attr: nesting depth")
        return [[g_(s, depth + 1) for s in sc._subgraphs_of_node_proto(n)] for n in g.node]

    return [g_(m.graph, 0), [[[g_(s, 1) for s in sc._subgraphs_of_node_proto(n)] for n in f.node] for f in m.functions]]


# --------------------------------------------------------------------------- IR side


def _payload_ir(a) -> str:
    from onnx_ir import serde

    AT = ir.AttributeType
    t, v = a.type, a.value
    b = onnx.AttributeProto()
    if t == AT.INT:
        b.i = v
    elif t == AT.FLOAT:
        b.f = v
    elif t == AT.STRING:
        b.s = v if isinstance(v, bytes) else v.encode("utf-8")
    elif t == AT.INTS:
        b.ints.extend(v)
    elif t == AT.FLOATS:
        b.floats.extend(v)
    elif t == AT.STRINGS:
        b.strings.extend([s.encode("utf-8") for s in v])
    elif t == AT.TENSOR:
        serde.serialize_tensor_into(b.t, v)
    elif t == AT.TENSORS:
        for x in v:
            serde.serialize_tensor_into(b.tensors.add(), x)
    elif t == AT.TYPE_PROTO:
        _write_type(b.tp, v)
    elif t == AT.TYPE_PROTOS:
        for x in v:
            _write_type(b.type_protos.add(), x)
    else:
        return ""
    return _hex(b)


def attr_ir(a, seen: set, depth: int, hist: dict | None) -> dict:
    AT = ir.AttributeType
    base = {"n": a.name, "d": a.doc_string}
    if a.is_ref():
        if hist is not None:
            hist["attr_kind=ref"] = hist.get("attr_kind=ref", 0) + 1
        return dict(base, c="ref", r=a.ref_attr_name, t=int(a.type.value))
    if hist is not None:
        k = KIND_NAME.get(int(a.type.value), "?") + ("" if a.value is not None else ":None")
        hist[f"attr_kind={k}"] = hist.get(f"attr_kind={k}", 0) + 1
    if a.value is not None and a.type == AT.GRAPH:
        return dict(base, c="graph", g=graph_ir(a.value, seen, depth + 1, hist))
    if a.value is not None and a.type == AT.GRAPHS:
        return dict(base, c="graphs", gs=[graph_ir(g, seen, depth + 1, hist) for g in a.value])
    if a.value is None:
        return dict(base, c="leaf", t=int(a.type.value), v=None)
    try:
        tok = _payload_ir(a)
    except RecursionError:
        raise
    except Exception as e:  # noqa: BLE001 - a value the leaf encoder rejects (int out of range, ...)
        raise OutsideModel(f"attr payload: {type(e).__name__}") from None
    return dict(base, c="leaf", t=int(a.type.value), v=tok)


def node_ir(n, seen: set, depth: int, hist: dict | None) -> list:
    if hist is not None and any(k != a.name for k, a in n.attributes.items()):
        hist["attr_key_is_not_name"] = hist.get("attr_key_is_not_name", 0) + 1
    if hist is not None:
        _around(["g" if (not a.is_ref() and a.value is not None and a.type in (ir.AttributeType.GRAPH, ir.AttributeType.GRAPHS))
                 else "x" for a in n.attributes.values()], hist)
    return [attr_ir(a, seen, depth, hist) for a in n.attributes.values()]


def graph_ir(g, seen: set, depth: int = 0, hist: dict | None = None) -> list:
    if id(g) in seen:
        raise OutsideModel("attr: shared graph")
    if depth > MAX_DEPTH:
        raise OutsideModel("attr: nesting depth")
    seen.add(id(g))
    return [node_ir(n, seen, depth, hist) for n in g]


def model_ir(model, hist: dict | None = None) -> dict:
    """ModelAS JSON (request of `scope.aser`; the world `scope.adeser` answers with)"""
    seen: set = set()
    return {"graph": graph_ir(model.graph, seen, 0, hist),
            "funcs": [[list(k), graph_ir(f.graph, seen, 0, hist)] for k, f in model.functions.items()]}


def shape_ir(model):
    """the tree of graphs as the CORE abstraction sees it (`serde_common._subgraphs_of_node`)"""
    def g_(g, depth):
        if depth > MAX_DEPTH:
            raise OutsideModel("attr: nesting depth")
        return [[g_(s, depth + 1) for s in sc._subgraphs_of_node(n)] for n in g]

    return [g_(model.graph, 0), [g_(f.graph, 0) for f in model.functions.values()]]


# --------------------------------------------------------------------------- helpers


def canon_py(w):
    """`canonModelA` recomputed here: a doc_string "" becomes None, nothing else changes (the property itself, on the
    abstraction of the real objects, without the Lean model)"""
    if isinstance(w, dict):
        return {k: (None if k == "d" and v == "" else canon_py(v)) for k, v in w.items()}
    if isinstance(w, list):
        return [canon_py(x) for x in w]
    return w


def first_difference(a, b, path="") -> str:
    if type(a) is not type(b):
        return f"{path}: {a!r:.60} vs {b!r:.60}"
    if isinstance(a, dict):
        for k in sorted(set(a) | set(b)):
            if a.get(k) != b.get(k):
                return first_difference(a.get(k), b.get(k), f"{path}.{k}")
    if isinstance(a, list):
        if len(a) != len(b):
            return f"{path}#len {len(a)} vs {len(b)}"
        for i, (x, y) in enumerate(zip(a, b)):
            if x != y:
                return first_difference(x, y, f"{path}[{i}]")
    return f"{path}: {a!r:.60} vs {b!r:.60}"


def _strip_q(q):
    """the proto JSON without what the driver adds for completeness: an absent `g` is null here, [] there"""
    if isinstance(q, dict):
        return {k: ((None if (k == "g" and v == []) else _strip_q(v))) for k, v in q.items()}
    if isinstance(q, list):
        return [_strip_q(x) for x in q]
    return q


def _proto_json_for_compare(p):
    """abstraction of a real proto, `g` of an attribute whose type is not GRAPH reduced as the driver prints it"""
    if isinstance(p, dict):
        d = {k: _proto_json_for_compare(v) for k, v in p.items()}
        if "g" in d and d["g"] == []:
            d["g"] = None
        return d
    if isinstance(p, list):
        return [_proto_json_for_compare(x) for x in p]
    return p


def _is_attr_error(e) -> bool:
    r = sc.root_cause(e)
    return any(k in str(r) for k in ATTR_SER_ERRORS)


def _driver_selfcheck(part, out: dict, case, what: str) -> None:
    """the statements of C03_attr_roundtrip / C17_attr_idempotent evaluated by the driver on this input"""
    if out.get("wf") is True and out.get("ser_ok"):
        bad = (out.get("reload_ok") is not True or out.get("reload") != out.get("canon") or out.get("ser2_ok") is not True
               or out.get("q2") != out.get("q") or out.get("shape_q") != out.get("shape_w"))
        if bad:
            part.count("model_attr_roundtrip_broken")
            part.disagree(f"model: {what} contradicted by the driver", case, out.get("reload"), out.get("canon"))


# --------------------------------------------------------------------------- C03


def decorate_attrs_ir(rng, model, part) -> str | None:
    """more attribute kinds on the nodes of a generated IR model (own generator seed: the stream of the C03 generator
    is unchanged): FLOATS / TENSORS / TYPE_PROTOS / bytes STRING / doc strings (also ""), reference attributes in
    function bodies, attributes inserted before / between / after the graph attributes; in a few per cent of the nodes an
    UNDEFINED attribute (to_proto raises) or an empty ref_attr_name — the returned string is then the reason why the
    model is not "serializable" for the isomorphism oracle of c03.py (None otherwise)"""
    if rng.random() > 0.4:
        return None
    part.count("attrs_decorated")
    reason = None
    fgraphs = {id(g) for f in model.functions.values() for g in sc.iter_graph_tree(f.graph)}
    graphs = [g for g0 in sc.model_graphs(model) for g in sc.iter_graph_tree(g0)]
    nodes = [(n, id(g) in fgraphs) for g in graphs for n in g]
    if not nodes:
        return None
    AT = ir.AttributeType
    for n, in_func in rng.sample(nodes, k=min(len(nodes), rng.randrange(1, 4))):
        extra = []
        for _ in range(rng.randrange(1, 4)):
            k = rng.randrange(10)
            doc = rng.choice([None, None, "adoc2", ""])
            if k == 0:
                extra.append(ir.AttrFloat32s("scales", [rng.choice([0.1, 1.5, -0.0, 3e38]) for _ in range(rng.randrange(0, 3))], doc_string=doc))
            elif k == 1:
                extra.append(ir.AttrTensors("consts", [ir.tensor([1, 2], name="c0"), ir.tensor([0.5])][: rng.randrange(0, 3)], doc_string=doc))
            elif k == 2:
                ts = [ir.TypeAndShape(ir.TensorType(ir.DataType.FLOAT), ir.Shape([1, "n"])),
                      ir.TypeAndShape(ir.SequenceType(ir.TensorType(ir.DataType.INT64)), None), ir.TypeAndShape(None, None)]
                extra.append(ir.AttrTypeProtos("tps", ts[: rng.randrange(0, 4)], doc_string=doc))
            elif k == 3:
                extra.append(ir.Attr("raw", AT.STRING, b"\xff\x00bytes", doc_string=doc))
            elif k == 4:
                extra.append(ir.AttrStrings("labels", [rng.choice(["", "é", "a b"]) for _ in range(rng.randrange(0, 3))], doc_string=doc))
            elif k == 5 and in_func:
                extra.append(ir.RefAttr(rng.choice(["rshape", "rbody"]), rng.choice(["fa", "fb"]),
                                        rng.choice([AT.INTS, AT.GRAPH, AT.TENSOR, AT.FLOAT]), doc_string=doc))
            elif k == 6:
                extra.append(ir.AttrInt64("big", rng.choice([2**63 - 1, -2**63, 0]), doc_string=doc))
            elif k == 7:
                extra.append(ir.AttrFloat32("beta", rng.choice([float("inf"), -0.0, 1e-45, 0.1]), doc_string=doc))
            elif k == 8 and rng.random() < 0.25:
                # (value None / SPARSE_* are exercised by `c03_odd_case`: the core diff of c03.py cannot explain their raises)
                odd = rng.randrange(2)
                part.count(f"attrs_odd={odd}")
                if odd == 0:
                    extra.append(ir.Attr("undef", AT.UNDEFINED, None))
                else:
                    extra.append(ir.RefAttr("emptyref", "", AT.INT))
        if not extra:
            continue
        items = list(n.attributes.values())
        for a in extra:
            if a.name in n.attributes:
                continue
            items.insert(rng.randrange(0, len(items) + 1), a)
        n.attributes.clear()
        for a in items:
            n.attributes[a.name] = a
            if a.name in ("undef", "noval", "sparse", "emptyref"):
                reason = "attribute that cannot be written / read back: " + a.name
    return reason


def c03_request(part, model, case):
    """pre-state abstraction of the IR model; returns it (or None when outside the layer)"""
    hist: dict = {}
    try:
        a0 = model_ir(model, hist)
        sh0 = shape_ir(model)
    except OutsideModel as e:
        part.count(f"attr_outside_model={e.args[0][:30]}")
        return None
    except RecursionError:
        part.count("attr_outside_model=recursion")
        return None
    for k, v in hist.items():
        part.count(k, v)
    return a0, sh0


def c03_diff(part, out: dict, case, a0, sh0, model, p1, err, m2) -> None:
    """`serModelA` / `deserModelA` of the Lean model against to_proto / from_proto on the node attributes"""
    if "err" in out and "wf" not in out:
        part.disagree("driver error (scope.aser): " + str(out["err"])[:200], case, out, None)
        return
    part.count("attr_cases")
    wf = out.get("wf")
    part.count(f"hyp_attr_keys_distinct={wf}")  # hypothesis wfModelAB of C03_attr_roundtrip / C03_roundtrip_attrs
    part.count(f"hyp_attr_docs_normal={out.get('norm')}")  # hypothesis of the "identical" clause
    _driver_selfcheck(part, out, case, "C03_attr_roundtrip")
    if wf is True and m2 is not None:
        # the property itself on the abstraction of the real objects (no Lean involved): names in order, types,
        # payload bytes, reference names, graphs — equal up to a doc_string ""
        try:
            real2o = model_ir(m2)
            if real2o != canon_py(a0):
                d = first_difference(real2o, canon_py(a0))
                part.fail("attrs:roundtrip-changed:" + re.sub(r"\[\d+\]", "", d.split(":")[0])[-50:],
                          f"attributes of from_proto(to_proto(m)) differ from m at {d}", case)
            else:
                part.count("attr_oracle_roundtrip_ok")
        except (OutsideModel, RecursionError):
            part.count("attr_oracle_outside_model")
    if out.get("shape_w") != sh0:
        part.disagree("attribute layer: subsOfS disagrees with the graphs the core abstraction takes from the node",
                      case, out.get("shape_w"), sh0)
    if p1 is None:
        if _is_attr_error(err) or (not out.get("ser_ok") and out.get("ser_err") == "noValue") or "attr_stream" in case:
            if out.get("ser_ok"):
                part.disagree("to_proto raises on an attribute, the model serializes the attributes", case, "ok",
                              str(sc.root_cause(err))[:100])
            else:
                part.count(f"attr_both_raise={out.get('ser_err')}")
        return
    if not out.get("ser_ok"):
        part.disagree("model: serializing the attributes raises, to_proto returns", case, out.get("ser_err"), "ok")
        return
    if wf is not True:
        # an empty ref_attr_name (the only way a real IR model fails the invariant): it is written, and read back as a
        # plain attribute whose payload is the decoder's default — a token the model cannot know; only raise / no
        # raise is compared
        part.count("attr_outside_hypothesis_only_raise_compared")
        return
    try:
        real_q = _proto_json_for_compare(model_proto(p1))
    except (OutsideModel, RecursionError) as e:
        part.count(f"attr_proto_outside_model={str(e)[:30]}")
        return
    if real_q != _strip_q(out["q"]):
        d = first_difference(real_q, _strip_q(out["q"]))
        part.disagree(f"attributes of the serialized proto differ at {d}", case, out["q"], real_q)
        return
    part.count("attr_proto_agrees")
    try:
        if shape_proto(p1) != out.get("shape_q"):
            part.disagree("attribute layer: subsOfP∘survivors on the written proto disagrees with the core abstraction",
                          case, out.get("shape_q"), shape_proto(p1))
    except OutsideModel:
        pass
    if m2 is None:
        if "attr_stream" in case and wf is True:
            part.fail("attrs:roundtrip:from_proto-raises", "from_proto(to_proto(m)) raised on a model whose attribute "
                      "dicts satisfy the invariant and whose attributes to_proto wrote", case)
        return
    try:
        real2 = model_ir(m2)
    except (OutsideModel, RecursionError):
        return
    if real2 != out.get("reload"):
        if wf is not True:
            # outside the hypothesis the model still predicts the real code, except for an empty ref_attr_name whose
            # reloaded payload is the decoder's default (a token the model cannot know)
            part.count("attr_reload_not_compared_outside_hypothesis")
            return
        d = first_difference(real2, out["reload"])
        part.disagree(f"attributes of from_proto(to_proto(m)) differ at {d}", case, out["reload"], real2)
        return
    part.count("attr_reload_agrees")


def c03_odd_case(part, case, lean_reqs: list, pending: list) -> None:
    """one small IR model whose nodes carry the attributes on which serialization raises in the model (value None,
    UNDEFINED, SPARSE_TENSOR(S)) next to ordinary ones, at every nesting level and in a function body — a stream of its
    own (`case = {"attr_stream": seed}`) because the core diff of c03.py has no explanation for these raises"""
    from onnx_ir import serde

    rng = random.Random(case["attr_stream"])
    AT = ir.AttributeType

    def attrs(in_func):
        res = []
        for _ in range(rng.randrange(0, 4)):
            k = rng.randrange(9)
            nm = f"a{len(res)}"
            if k == 0:
                res.append(ir.Attr(nm, AT.UNDEFINED, None))
            elif k == 1:
                res.append(ir.Attr(nm, rng.choice([AT.INT, AT.FLOAT, AT.STRING, AT.INTS, AT.FLOATS, AT.STRINGS, AT.TENSOR,
                                                   AT.TENSORS, AT.TYPE_PROTO, AT.TYPE_PROTOS]), None))
            elif k == 2:
                res.append(ir.Attr(nm, rng.choice([AT.SPARSE_TENSOR, AT.SPARSE_TENSORS]), None))
            elif k == 3:
                res.append(ir.RefAttr(nm, rng.choice(["fa", ""]) if not in_func else "fa",
                                      rng.choice([AT.INT, AT.GRAPH, AT.SPARSE_TENSOR, AT.UNDEFINED])))
            elif k == 4:
                res.append(ir.AttrInt64(nm, rng.randrange(-3, 4), doc_string=rng.choice([None, "", "d"])))
            elif k == 5:
                res.append(ir.AttrTensor(nm, ir.tensor([1.0, 2.0], name="t")))
            elif k == 6:
                res.append(ir.AttrStrings(nm, ["a", "é"]))
            else:
                res.append(ir.AttrFloat32(nm, rng.choice([0.5, -0.0])))
        return res

    def graph(depth, in_func, name):
        x = ir.Value(name=f"{name}_x")
        nodes = []
        for i in range(rng.randrange(1, 3)):
            at = attrs(in_func)
            if depth < 2 and rng.random() < 0.35:
                sub = ir.AttrGraph(f"body{i}", graph(depth + 1, in_func, f"{name}s{i}")) if rng.random() < 0.6 else ir.AttrGraphs(
                    f"branches{i}", [graph(depth + 1, in_func, f"{name}b{i}{j}") for j in range(rng.randrange(0, 3))])
                at.insert(rng.randrange(0, len(at) + 1), sub)
            nodes.append(ir.Node("", "Op", [x], at, outputs=[ir.Value(name=f"{name}_o{i}")], name=f"{name}_n{i}"))
        return ir.Graph([x], [nodes[-1].outputs[0]], nodes=nodes, name=name, opset_imports={"": 18})

    model = ir.Model(graph(0, False, "main"), ir_version=10)
    if rng.random() < 0.4:
        fg = graph(1, True, "fn")
        f = ir.Function("d", "f", "", graph=fg, attributes=[ir.Attr("fa", AT.INT, None)])
        model.functions[f.identifier()] = f
    part.case([case["attr_stream"]], nontrivial=True, sample=dict(case), stream="attr_odd")
    r = c03_request(part, model, case)
    if r is None:
        return
    p1, err, m2 = None, None, None
    try:
        p1 = serde.serialize_model(model)
    except Exception as e:  # noqa: BLE001
        err = e
    if p1 is not None:
        try:
            m2 = serde.deserialize_model(p1)
        except Exception:  # noqa: BLE001 - judged in c03_diff (only under the hypothesis wfModelAB)
            part.count("attr_odd_from_proto_raised")
    part.count("attr_odd_to_proto=" + ("ok" if err is None else "raised"))
    lean_reqs.append({"m": "scope.aser", "w": r[0]})
    pending.append(("A", case, r[0], r[1], model, p1, err, m2))


def c03_odd_stream(ctx, n: int) -> None:
    from harness.common import lean_batch

    reqs: list = []
    pend: list = []
    for _ in range(n):
        c03_odd_case(ctx, {"attr_stream": ctx.rng.randrange(2**62)}, reqs, pend)
    for out, p in zip(lean_batch(reqs), pend):
        c03_diff(ctx, out, *p[1:])


# --------------------------------------------------------------------------- C17


def mutate_attrs_c17(m: onnx.ModelProto, hist: dict) -> None:
    """attribute mutations of a generated ModelProto, in place (own RNG seeded from the bytes: the stream of the C17
    generator is unchanged): duplicate names (also a non-graph attribute shadowing a GRAPH attribute and the other way
    round), every attribute kind, reference attributes with and without payload (in function bodies and outside),
    doc strings (also ""), stray payloads, UNDEFINED, undecodable STRINGS, attributes before / between / after the
    graph attributes"""
    rng = random.Random(zlib.crc32(m.SerializeToString(deterministic=True)) ^ 0xA77)
    if rng.random() > 0.45:
        return
    nodes = []

    def walk(g, depth):
        if depth > 6:
            return
        for n in g.node:
            nodes.append(n)
            for a in n.attribute:
                if a.HasField("g"):
                    walk(a.g, depth + 1)
                for s in a.graphs:
                    walk(s, depth + 1)

    walk(m.graph, 0)
    fnodes = [n for f in m.functions for n in f.node]
    nodes += fnodes
    if not nodes:
        return
    hist["attrs_mutated"] = hist.get("attrs_mutated", 0) + 1
    for _ in range(rng.choice([1, 1, 2, 3])):
        n = rng.choice(nodes)
        kind = rng.choice(["dup_last_wins", "dup_shadow_graph", "dup_graph_shadows", "kinds", "kinds", "ref", "ref_payload",
                           "doc", "stray", "undefined", "bad_strings", "move", "ref_graph", "empty_ref"])
        hist[f"attr_mut={kind}"] = hist.get(f"attr_mut={kind}", 0) + 1
        if kind == "dup_last_wins":
            for v in (1, 2):
                a = n.attribute.add()
                a.name, a.type, a.i = "dupe", T.INT, v
            if rng.random() < 0.5:
                a = n.attribute.add()
                a.name, a.type, a.f = "dupe", T.FLOAT, 0.5
        elif kind == "dup_shadow_graph":
            gs = [a for a in n.attribute if a.type in (T.GRAPH, T.GRAPHS)]
            if gs:
                a = n.attribute.add()
                a.name, a.type = rng.choice(gs).name, T.INTS
                a.ints.extend([1, 2])
        elif kind == "dup_graph_shadows":
            gs = [a for a in n.attribute if a.type == T.GRAPH]
            if gs:
                src = rng.choice(gs)
                first = onnx.AttributeProto()
                first.name, first.type, first.s = src.name, T.STRING, b"shadowed"
                rest = list(n.attribute)
                del n.attribute[:]
                n.attribute.add().CopyFrom(first)
                for x in rest:
                    n.attribute.add().CopyFrom(x)
        elif kind == "kinds":
            for _ in range(rng.randrange(1, 4)):
                a = n.attribute.add()
                t = rng.choice([T.FLOAT, T.INT, T.STRING, T.TENSOR, T.FLOATS, T.INTS, T.STRINGS, T.TENSORS, T.TYPE_PROTO,
                                T.TYPE_PROTOS])
                a.name, a.type = f"k{t}", t
                if rng.random() < 0.8:
                    _fill_payload(rng, a, t)
        elif kind in ("ref", "ref_payload", "ref_graph", "empty_ref"):
            a = n.attribute.add()
            a.name = rng.choice(["rattr", "axis", "body"])
            a.ref_attr_name = "" if kind == "empty_ref" else rng.choice(["fa", "x"])
            a.type = T.GRAPH if kind == "ref_graph" else rng.choice([T.INT, T.FLOATS, T.TENSOR, T.UNDEFINED, T.SPARSE_TENSOR, T.GRAPHS])
            if kind == "ref_payload":
                a.type = T.INT
                a.i = 7
            if kind == "ref_graph":
                a.g.name = "refg"
                a.g.node.add().op_type = "Inner"
        elif kind == "doc" and len(n.attribute):
            rng.choice(list(n.attribute)).doc_string = rng.choice(["", "attrdoc"])
        elif kind == "stray" and len(n.attribute):
            a = rng.choice(list(n.attribute))
            a.f = 2.5
            a.ints.append(9)
        elif kind == "undefined":
            a = n.attribute.add()
            a.name = "undef"
            if rng.random() < 0.5:
                a.i = 3  # a payload without a type
        elif kind == "bad_strings":
            a = n.attribute.add()
            # (STRINGS that are not UTF-8 make the leaf decoder raise: exercised by `c17_odd_case`, the core diff of
            # c17.py has no explanation for that raise)
            a.name, a.type = "bads", T.STRING
            a.s = b"\xff\xfe"
        elif kind == "move" and len(n.attribute) >= 2:
            rest = list(n.attribute)
            rng.shuffle(rest)
            rest = [onnx.AttributeProto.FromString(x.SerializeToString()) for x in rest]
            del n.attribute[:]
            for x in rest:
                n.attribute.add().CopyFrom(x)


def _fill_payload(rng, a, t) -> None:
    if t == T.FLOAT:
        a.f = rng.choice([0.0, 1.5, -2.0])
    elif t == T.INT:
        a.i = rng.choice([0, -1, 2**40])
    elif t == T.STRING:
        a.s = rng.choice([b"", b"abc", "é".encode()])
    elif t == T.TENSOR:
        a.t.CopyFrom(onnx.helper.make_tensor("ct", onnx.TensorProto.FLOAT, [2], [1.0, 2.0]))
    elif t == T.FLOATS:
        a.floats.extend([1.0, 0.25])
    elif t == T.INTS:
        a.ints.extend([3, 1, 2])
    elif t == T.STRINGS:
        a.strings.extend([b"x", b""])
    elif t == T.TENSORS:
        a.tensors.add().CopyFrom(onnx.helper.make_tensor("c1", onnx.TensorProto.INT64, [1], [7]))
        a.tensors.add().CopyFrom(onnx.helper.make_tensor("c2", onnx.TensorProto.FLOAT, [], [0.5]))
    elif t == T.TYPE_PROTO:
        a.tp.CopyFrom(onnx.helper.make_tensor_type_proto(onnx.TensorProto.FLOAT, [1, "n"]))
    elif t == T.TYPE_PROTOS:
        a.type_protos.add().CopyFrom(onnx.helper.make_tensor_type_proto(onnx.TensorProto.INT64, None))
        a.type_protos.add().CopyFrom(onnx.helper.make_sequence_type_proto(onnx.helper.make_tensor_type_proto(1, [2])))


def c17_request(part, m: onnx.ModelProto, lean_reqs: list, pending: list, case, model, err, q, q2=None) -> None:
    hist: dict = {}
    try:
        ap = model_proto(m, hist)
    except OutsideModel as e:
        part.count(f"attr_outside_model={e.args[0][:30]}")
        return
    except RecursionError:
        part.count("attr_outside_model=recursion")
        return
    for k, v in hist.items():
        part.count(k, v)
    try:
        shp = shape_proto(m)
    except (OutsideModel, RecursionError):
        shp = None
    lean_reqs.append({"m": "scope.adeser", "p": ap})
    pending.append(("A", case, shp, model, err, q, q2))


_DESER_ATTR_ERRORS = ("Sparse tensors are not supported", "is not a valid AttributeType")


def _deser_error_in_attribute(err) -> bool:
    return sc.error_chain_mentions(err, "Error calling _deserialize_attribute")


def c17_diff(part, out: dict, case, shp, model, err, q, q2) -> None:
    """`deserModelA` / `serModelA` of the Lean model against from_proto / to_proto on the node attributes"""
    if "err" in out and "ok" not in out:
        part.disagree("driver error (scope.adeser): " + str(out["err"])[:200], case, out, None)
        return
    part.count("attr_cases")
    if q is not None and q2 is not None:
        # the property itself on the real objects, restricted to the attributes (no Lean involved)
        try:
            rq, rq2 = model_proto(q), model_proto(q2)
            if rq2 != rq:
                d = first_difference(rq2, rq)
                part.fail("attrs:fixpoint-changed:" + re.sub(r"\[\d+\]", "", d.split(":")[0])[-50:],
                          f"attributes of to_proto(from_proto(q)) differ from q at {d}", case)
            else:
                part.count("attr_oracle_fixpoint_ok")
        except (OutsideModel, RecursionError):
            part.count("attr_oracle_outside_model")
    if shp is not None and out.get("shape_p") != shp:
        part.disagree("attribute layer: subsOfP∘survivors disagrees with the graphs the core abstraction takes", case,
                      out.get("shape_p"), shp)
    if not out.get("ok"):
        part.count(f"attr_model_raises={out.get('err')}")
        if model is not None:
            part.disagree("model: deserializing the attributes raises, from_proto returns", case, out.get("err"), "ok")
        return
    # deserModelA succeeded
    part.count(f"hyp_attr_keys_distinct={out.get('wf')}")  # C17_attr_wf: always True (a False is a model defect)
    if out.get("wf") is not True:
        part.disagree("model: C17_attr_wf contradicted by the driver", case, out.get("wf"), True)
    _driver_selfcheck(part, out, case, "C17_attr_idempotent")
    if model is None:
        # the real code may raise for reasons outside the layer (name resolution, leaf decoders of other fields)
        if case.get("stream") == "attr" or (
                _deser_error_in_attribute(err) and any(k in str(sc.root_cause(err)) for k in _DESER_ATTR_ERRORS)):
            part.disagree("from_proto raises in an attribute the model deserializes", case, "ok",
                          str(sc.root_cause(err))[:100])
        else:
            part.count("attr_real_raises_elsewhere")
        return
    try:
        real_w = model_ir(model)
    except (OutsideModel, RecursionError) as e:
        part.count(f"attr_ir_outside_model={str(e)[:30]}")
        return
    if real_w != out["world"]:
        d = first_difference(real_w, out["world"])
        part.disagree(f"attributes of from_proto(p) differ at {d}", case, out["world"], real_w)
        return
    part.count("attr_world_agrees")
    try:
        if shape_ir(model) != out.get("shape_w"):
            part.disagree("attribute layer: subsOfS disagrees with the core abstraction of the IR", case,
                          out.get("shape_w"), shape_ir(model))
    except (OutsideModel, RecursionError):
        pass
    if q is None:
        # to_proto raised (or was not reached): when the model says the attributes cannot be written, fine
        if not out.get("ser_ok"):
            part.count(f"attr_both_raise={out.get('ser_err')}")
        elif case.get("stream") == "attr":
            part.disagree("to_proto(from_proto(p)) raises, the model serializes the attributes", case, "ok", "raised")
        return
    if not out.get("ser_ok"):
        part.disagree("model: serializing the attributes raises, to_proto returns", case, out.get("ser_err"), "ok")
        return
    try:
        real_q = _proto_json_for_compare(model_proto(q))
    except (OutsideModel, RecursionError) as e:
        part.count(f"attr_proto_outside_model={str(e)[:30]}")
        return
    if real_q != _strip_q(out["q"]):
        d = first_difference(real_q, _strip_q(out["q"]))
        part.disagree(f"attributes of to_proto(from_proto(p)) differ at {d}", case, out["q"], real_q)
        return
    part.count("attr_proto_agrees")


def c17_odd_proto(rng) -> onnx.ModelProto:
    """a small ModelProto whose attributes take the error paths of `_deserialize_attribute` (SPARSE_*, STRINGS that are not
    UTF-8) — surviving, shadowed, behind a reference, in subgraphs, in a function that is shadowed in the functions dict"""
    m = onnx.ModelProto()
    m.ir_version = 10
    m.opset_import.add().version = 18
    cnt = [0]

    def fill_node(n, depth):
        n.op_type = "Op"
        cnt[0] += 1
        n.output.append(f"o{cnt[0]}")
        for _ in range(rng.randrange(0, 4)):
            a = n.attribute.add()
            a.name = rng.choice(["a", "b", "c", "a"])
            k = rng.randrange(10)
            if k == 0:
                a.type = rng.choice([T.SPARSE_TENSOR, T.SPARSE_TENSORS])
            elif k == 1:
                a.type = T.STRINGS
                a.strings.extend([b"fine", b"\xff\xfe"][: rng.randrange(1, 3)])
            elif k == 2:
                a.type = rng.choice([T.SPARSE_TENSOR, T.STRINGS, T.INT, T.GRAPH])
                a.ref_attr_name = rng.choice(["r", ""])
                if a.type == T.STRINGS:
                    a.strings.append(b"\xff")
            elif k == 3 and depth < 2:
                a.type = T.GRAPH
                a.g.name = "sub"
                fill_node(a.g.node.add(), depth + 1)
            elif k == 4 and depth < 2:
                a.type = T.GRAPHS
                for _ in range(rng.randrange(0, 3)):
                    g = a.graphs.add()
                    g.name = "br"
                    fill_node(g.node.add(), depth + 1)
            elif k == 5:
                pass  # UNDEFINED
            else:
                t = rng.choice([T.FLOAT, T.INT, T.STRING, T.TENSOR, T.FLOATS, T.INTS, T.STRINGS, T.TENSORS, T.TYPE_PROTO,
                                T.TYPE_PROTOS])
                a.type = t
                _fill_payload(rng, a, t)
            if rng.random() < 0.2:
                a.doc_string = rng.choice(["", "d"])

    m.graph.name = "main"
    for _ in range(rng.randrange(1, 4)):
        fill_node(m.graph.node.add(), 0)
    if rng.random() < 0.4:
        for _ in range(rng.randrange(1, 3)):
            f = m.functions.add()
            f.domain, f.name = "d", "f"
            f.opset_import.add().version = 18
            fill_node(f.node.add(), 1)
    return m


def c17_odd_case(part, m: onnx.ModelProto, lean_reqs: list, pending: list) -> None:
    """from_proto / to_proto / from_proto / to_proto on one ModelProto of the attribute stream, then the diff against the
    attribute layer only (`case = {"stream": "attr", "proto_hex": ...}`)"""
    from onnx_ir import serde

    case = {"stream": "attr", "proto_hex": m.SerializeToString(deterministic=True).hex()}
    part.case(case["proto_hex"], nontrivial=True, sample={"stream": "attr", "bytes": len(case["proto_hex"]) // 2}, stream="attr")
    model = err = q = q2 = None
    try:
        model = serde.deserialize_model(m)
    except Exception as e:  # noqa: BLE001
        err = e
    if model is not None:
        try:
            q = serde.serialize_model(model)
        except Exception:  # noqa: BLE001 - the model says when (c17_diff)
            part.count("attr_odd_to_proto_raised")
    if q is not None:
        try:
            q2 = serde.serialize_model(serde.deserialize_model(q))
        except Exception as e:  # noqa: BLE001
            part.fail("attrs:fixpoint:reload-raises:" + type(sc.root_cause(e)).__name__,
                      f"to_proto(from_proto(p)) cannot be deserialized+serialized again: {sc.root_cause(e)!s:.200}", case)
    part.count("attr_odd_from_proto=" + ("ok" if err is None else "raised:" + type(sc.root_cause(err)).__name__))
    c17_request(part, m, lean_reqs, pending, case, model, err, q, q2)


def c17_odd_stream(ctx, n: int) -> None:
    from harness.common import lean_batch

    rng = random.Random(ctx.rng.randrange(2**62))
    reqs: list = []
    pend: list = []
    for _ in range(n):
        c17_odd_case(ctx, c17_odd_proto(rng), reqs, pend)
    for out, p in zip(lean_batch(reqs), pend):
        c17_diff(ctx, out, *p[1:])


# --------------------------------------------------------------------------- one-call wrappers (replays, ad-hoc use)


def check_attrs_c03(ctx, model_ir_obj, proto, reloaded_ir, case, err=None) -> None:
    from harness.common import lean_batch

    r = c03_request(ctx, model_ir_obj, case)
    if r is None:
        return
    a0, sh0 = r
    out = lean_batch([{"m": "scope.aser", "w": a0}])[0]
    c03_diff(ctx, out, case, a0, sh0, model_ir_obj, proto, err, reloaded_ir)


def check_attrs_c17(ctx, proto, ir_or_none, reproto, case, err=None, reproto2=None) -> None:
    from harness.common import lean_batch

    reqs: list = []
    pend: list = []
    c17_request(ctx, proto, reqs, pend, case, ir_or_none, err, reproto, reproto2)
    for out, p in zip(lean_batch(reqs), pend):
        c17_diff(ctx, out, *p[1:])

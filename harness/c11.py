"""C11 — graph iteration stays well defined while the graph is edited (DESIGN.md section 5, C11).

Three things run on the same histories (interleavings of next() on up to 3 live iterators with
append / extend / insert_before / insert_after / remove / move / sort):

* the real code: `_linked_list.DoublyLinkedSet` directly, `ir.Graph`, `ir.Function`
  (iter()/reversed(), Node.append/prepend for moves) and `traversal.RecursiveGraphIterator` over nested
  graphs (forward / reverse, with and without a `recursive` predicate, enter/exit callbacks recorded);
* the Lean model `IrVerif.LinkedSet` (driver commands `lset.run`, and `lset.rec` for the recursive iterator
  as a stack of cursors with its pre-order specification `specTop`): pointer-level boxes + cursors,
  and in the same run the abstract `Spec` machine with the refinement statement evaluated
  (`abs`) and the executable invariant (`inv`);
* the property oracle: an independent Python reference of the list-with-gaps spec (`Ref`) that
  predicts every yielded element and the sequence after every step, plus the English clauses of
  the property evaluated directly on what the real objects did (terminates once edits stop, only
  members are yielded, untouched nodes exactly once in order, inserted-after seen /
  inserted-before skipped, resume after a removed current node, len/index/membership).

Correspondence = real observations vs the Lean model's (`disagree`); oracle failures on the real
objects = `fail`.
"""
from __future__ import annotations

import itertools
import random

from harness.common import Ctx, Part, lean_batch_parallel, load_corpus, pmap

NS = "IrVerif.LinkedSet."
THEOREMS = [NS + t for t in (
    "C11_rep_empty",
    "C11_rep_step",
    "C11_rep_history",
    "C11_refine_step",
    "C11_rep_toList",
    "C11_refine_next",
    "C11_refine_start",
    "C11_refine_rest",
    "C11_terminates",
    "C11_only_members",
    "C11_getitem_len_contains",
    "C11_tombstone_frozen",
    "C11_tombstone_order",
    "C11_next_rest",
    "C11_untouched_step",
    "C11_resume_current",
    "C11_untouched_exactly_once_in_order",
    "C11_spec_rest_remove",
    "C11_spec_rest_insert",
    "C11_spec_resume",
    "C11_rec_start",
    "C11_rec_only_members",
    "C11_rec_terminates",
    "C11_rec_preorder",
    "C11_rec_history",
    "C11_rec_refine_step",
    "C11_getslice",
    "C11_rec_acyclic_ranked",
    "C11_rec_static_ranked",
    "C11_rec_terminates_acyclic",
    "C11_rec_terminates_acyclic_any",
    "C11_rec_preorder_acyclic",
    "C11_rec_history_acyclic",
    "C11_rec_selfnest_diverges",
    "C11_trav_start",
    "C11_trav_only_members",
    "C11_trav_history",
    "C11_trav_remaining",
    "C11_trav_preorder",
    "C11_trav_attached_later_visited",
    "C11_trav_attr_edit_agree",
    "C11_trav_finished_not_visited",
    "C11_trav_detached_runs_to_end",
    "C11_rec_acyclic_complete",
    "C11_rec_static_complete",
    "C11_trav_acyclic_complete",
    "C11_trav_refines_rec_next",
    "C11_trav_refines_rec_drain",
    "C11_trav_refines_rec",
    "C11_trav_rec_same_spec",
    "C11_trav_nodup",
    "C11_trav_meth_reduces",
    "C11_trav_meth_history",
    "C11_trav_untouched_once",
    "C11_trav_never_twice",
    "C11_treeShape_static_dynamic",
    "C11_noStale_current",
    "C11_trav_nodup_static",
    "C11_trav_static_admissible",
    "C11_trav_untouched_once_static",
    "C11_trav_never_twice_static",
)]
ASSUMPTIONS = [
    "CPython generators are modelled as explicit cursors (suspended at the yield; the loop reads box.next / box.prev "
    "when resumed); id() of live objects is injective; dict is modelled as an association list",
    "single-threaded use; only the public editing calls of DoublyLinkedSet / Graph / Function (no raw box access)",
    "RecursiveGraphIterator: nested generators are modelled as an explicit stack of frames.  Termination / pre-order no "
    "longer assume a rank function: the hypothesis is the decidable predicate 'no graph is nested in itself' "
    "(RWorld.acyclic / acyclicStatic + homedOk; TWorld.acyclic), evaluated by the driver on every generated case "
    "(histogram keys rec-shape:*, acyclic=, tree_shape=); on a self-nested graph the model diverges and the real "
    "iterator ends in RecursionError (observed, not modelled: CPython's recursion limit)",
    "attribute edits (Model/Traversal.lean): node.attributes is modelled as a CPython dict at the level of its entries "
    "table (insertion order, dead slots, usable-slot count, compaction on insertion_resize) and its key iterator "
    "(di_used / len / di_pos); the public methods of Attributes (__setitem__ / add, and UserDict / MutableMapping "
    "__delitem__ / update / pop / popitem / clear / setdefault) are transcribed in the model as the primitive dict writes "
    "they perform (AMeth.prims) and compared per call (result + key order); `|=` (UserDict.__ior__, writes .data "
    "directly) is not transcribed; Attr objects are immutable (value is a read-only property, GRAPHS values are tuples)",
    "C11_trav_nodup / C11_trav_never_twice: tree shape = TWorld.treeShape (no graph nested in itself, no node in two graphs, "
    "no graph under two attribute positions of present members, root under none), evaluated by the driver and compared "
    "with the harness' own computation; C11_trav_untouched_once: admissibility (tAdm: only next() / node-sequence edits, "
    "touched nodes in X, X closed under 'nested below', acyclic in every world) is evaluated by the driver per iterator",
    "callbacks (enter_graph / exit_graph / recursive) observe only: they do not edit graphs or attributes",
]

STOP = "stop"
RAISED = "raised"


class _Hang(Exception):
    """next() used up its CPU budget"""


class _HangAbort(Exception):
    """first occurrence of a _Hang in a history: the history is executed once more before anything is reported"""


class _HangConfirmed(Exception):
    """the _Hang happened again in the re-execution: reported as no-termination, the history stops here"""


def _alarm(_sig, _frm):
    raise _Hang()


CPU_BUDGET = 3.0  # seconds of CPU time (not wall-clock) a single next() may use; a healthy one takes microseconds
_GIVE_UP = {"on": False}  # a non-termination has been confirmed in this worker process: stop generating


def guarded_next(it, seconds=CPU_BUDGET):
    """next(it) with a guard on the CPU time of this process (ITIMER_VIRTUAL: the timer only runs while the
    process executes, so machine load cannot trip it): a generator that loops forever (possible when a change
    breaks the tombstone links) burns CPU and is interrupted instead of hanging the check."""
    import signal

    old = signal.signal(signal.SIGVTALRM, _alarm)
    signal.setitimer(signal.ITIMER_VIRTUAL, seconds)
    try:
        return next(it)
    finally:
        signal.setitimer(signal.ITIMER_VIRTUAL, 0)
        signal.signal(signal.SIGVTALRM, old)


def run_confirmed(run):
    """`run(confirm)` executes one history from scratch.  If a next() exceeds its CPU budget the history is
    executed a second time (`confirm=True`); only a hang that happens again is reported as non-termination (by
    the history itself).  A hang that does not reproduce is an infrastructure problem (exit 2), never a verdict."""
    from harness.common import Infra

    if _GIVE_UP["on"]:
        # non-termination is already established (and reported with its history) by this worker; every further
        # history that parks a generator would burn the CPU budget again, so the rest of the worker's share is skipped
        return _Skipped()
    try:
        return run(False)
    except _HangAbort:
        pass
    res = run(True)
    if not (res.get("aborted") if isinstance(res, dict) else getattr(res, "aborted", False)):
        raise Infra("a next() exceeded its CPU budget once, but the same history ran normally when re-executed")
    _GIVE_UP["on"] = True
    return res


class _Skipped(dict):
    """stands for a history that was not executed (see run_confirmed); behaves as an aborted Hist / pack"""

    aborted = True
    failed = False
    ops: list = []
    curs: list = []
    init: list = []

    def __init__(self):
        super().__init__(aborted=True)

    class ref:  # noqa: N801
        L: list = []

# ----------------------------------------------------------------------------- reference spec


class RefCur:
    """Abstract cursor of the list-with-gaps spec. Forward: still yields L[k:]; reverse: L[:k] reversed.
    kind 'att' = parked on an element (or not started), 'gap' = parked where a removed element was."""

    __slots__ = ("d", "kind", "k")

    def __init__(self, d, kind, k):
        self.d, self.kind, self.k = d, kind, k


class Ref:
    """Independent reference of the list-with-gaps spec (the property oracle's model of the sequence)."""

    def __init__(self):
        self.L: list[int] = []
        self.curs: list[RefCur] = []

    # cursors
    def new_cursor(self, d):
        c = RefCur(d, "att", 0 if d == "f" else len(self.L))
        self.curs.append(c)
        return c

    def rest(self, c):
        if c.kind == "done":
            return []
        return self.L[c.k:] if c.d == "f" else self.L[: c.k][::-1]

    def next(self, c):
        if c.kind == "done":
            return STOP
        if c.d == "f":
            if c.k < len(self.L):
                v = self.L[c.k]
                c.kind, c.k = "att", c.k + 1
                return v
        else:
            if c.k > 0:
                v = self.L[c.k - 1]
                c.kind, c.k = "att", c.k - 1
                return v
        c.kind = "done"
        return STOP

    # primitive events
    def _remove_idx(self, i):
        del self.L[i]
        for c in self.curs:
            if c.kind == "done":
                continue
            if c.kind == "att":
                on = i + 1 == c.k if c.d == "f" else i == c.k
                if on:
                    c.kind = "gap"
                    c.k = i
                    continue
            if i < c.k:
                c.k -= 1

    def _insert_idx(self, p, x):
        self.L.insert(p, x)
        for c in self.curs:
            if c.kind == "done":
                continue
            if c.d == "f":
                shift = p < c.k if c.kind == "att" else p <= c.k
            else:
                shift = p <= c.k if c.kind == "att" else p < c.k
            if shift:
                c.k += 1

    # public operations (anchor None = front of the list)
    def remove(self, x):
        if x not in self.L:
            return False
        self._remove_idx(self.L.index(x))
        return True

    def insert_one_after(self, anchor, x):
        if anchor is not None and anchor == x:
            return anchor
        if x in self.L:
            self._remove_idx(self.L.index(x))
        p = 0 if anchor is None else self.L.index(anchor) + 1
        self._insert_idx(p, x)
        return x

    def insert_many_after(self, anchor, xs):
        for x in xs:
            anchor = self.insert_one_after(anchor, x)

    def append(self, x):
        self.insert_one_after(self.L[-1] if self.L else None, x)

    def extend(self, xs):
        for x in xs:
            self.append(x)

    def insert_after(self, a, xs):
        if a not in self.L:
            return False
        self.insert_many_after(a, xs)
        return True

    def insert_before(self, a, xs):
        if a not in self.L:
            return False
        i = self.L.index(a)
        self.insert_many_after(self.L[i - 1] if i > 0 else None, xs)
        return True


# ----------------------------------------------------------------------------- real containers


class _Obj:
    __slots__ = ("i",)

    def __init__(self, i):
        self.i = i


class DlsBox:
    """`DoublyLinkedSet` driven directly with plain objects."""

    kind = "dls"

    def __init__(self, universe, rng):
        from onnx_ir import _linked_list

        self.objs = [_Obj(i) for i in range(universe)]
        self.ident = {id(o): o.i for o in self.objs}
        self.c = _linked_list.DoublyLinkedSet()

    def oid(self, o):
        return self.ident[id(o)]

    def append(self, i, alt=False):
        self.c.append(self.objs[i])

    def extend(self, xs, alt=False):
        self.c.extend((self.objs[i] for i in xs) if alt else [self.objs[i] for i in xs])

    def ia(self, a, xs, alt=False):
        self.c.insert_after(self.objs[a], (self.objs[i] for i in xs) if alt else [self.objs[i] for i in xs])

    def ib(self, a, xs, alt=False):
        self.c.insert_before(self.objs[a], (self.objs[i] for i in xs) if alt else [self.objs[i] for i in xs])

    def rm(self, i, alt=False):
        self.c.remove(self.objs[i])

    def partial_none(self, o, a, xs):
        """insert_after / insert_before(a, [*xs, None, <more>]): TypeError in the middle of _insert_many_after"""
        arg = [self.objs[i] for i in xs] + [None, self.objs[a]]
        (self.c.insert_after if o == "ia" else self.c.insert_before)(self.objs[a], arg)

    def sort_perm(self, rng, perm=None):
        cur = self.lst()
        if perm is None:
            rng.shuffle(cur)
        else:
            cur = list(perm)
        self.c.extend([self.objs[i] for i in cur])
        return cur

    def iter(self, d):
        return iter(self.c) if d == "f" else reversed(self.c)

    def lst(self):
        return [self.oid(o) for o in self.c]

    def rlst(self):
        return [self.oid(o) for o in reversed(self.c)]

    def length(self):
        return len(self.c)

    def get(self, i):
        return self.oid(self.c[i])

    def has(self, i):
        return self.objs[i] in self.c


class GraphBox(DlsBox):
    """`ir.Graph` with real `ir.Node`s (wired so that `sort()` has something to do)."""

    kind = "graph"

    def __init__(self, universe, rng):
        import onnx_ir as ir

        self.objs = []
        for i in range(universe):
            ins = []
            if i and rng.random() < 0.5:
                ins = [self.objs[rng.randrange(i)].outputs[0]]
            self.objs.append(ir.Node("", "Op", inputs=ins, num_outputs=1, name=f"n{i}"))
        self.ident = {id(o): i for i, o in enumerate(self.objs)}
        self.g = ir.Graph(inputs=[], outputs=[], nodes=[], name="g")
        self.c = self.g

        # a node that belongs to another graph, for the calls the wrapper must reject
        self.other = ir.Graph(inputs=[], outputs=[], nodes=[ir.Node("", "Op", inputs=[], num_outputs=1, name="foreign")],
                              name="other")
        self.foreign = self.other[0]

    def extend(self, xs, alt=False):
        self.c.extend((self.objs[i] for i in xs) if alt else [self.objs[i] for i in xs])

    def ia(self, a, xs, alt=False):
        nodes = [self.objs[i] for i in xs]
        if alt == 2:  # a generator argument
            self.c.insert_after(self.objs[a], (n for n in nodes))
        elif alt:  # the "move" spelling: Node.append
            self.objs[a].append(nodes[0] if len(nodes) == 1 else nodes)
        else:
            self.c.insert_after(self.objs[a], nodes[0] if len(nodes) == 1 and xs[0] % 2 else nodes)

    def ib(self, a, xs, alt=False):
        nodes = [self.objs[i] for i in xs]
        if alt == 2:
            self.c.insert_before(self.objs[a], (n for n in nodes))
        elif alt:
            self.objs[a].prepend(nodes[0] if len(nodes) == 1 else nodes)
        else:
            self.c.insert_before(self.objs[a], nodes[0] if len(nodes) == 1 and xs[0] % 2 else nodes)

    def rm(self, i, alt=False):
        self.c.remove([self.objs[i]] if alt else self.objs[i])

    def rmmany(self, xs, alt=False):
        """Graph.remove(<several nodes>) — iterated in frozenset order by the wrapper"""
        nodes = [self.objs[i] for i in xs]
        self.c.remove((n for n in nodes) if alt else nodes)

    def users_outside(self, i):
        """does any other node consume an output of node i?  (then remove(safe=True) must refuse)"""
        return any(u.node is not self.objs[i] for v in self.objs[i].outputs for u in v.uses())

    def rm_safe(self, i):
        self.c.remove(self.objs[i], safe=True)

    def rejected_call(self, which, a, xs):
        """calls the Graph / Function wrapper must reject without touching the container"""
        nodes = [self.objs[i] for i in xs]
        if which == "append-foreign":
            self.c.append(self.foreign)
        elif which == "extend-foreign":
            self.c.extend(nodes + [self.foreign])
        elif which == "ia-foreign":
            self.c.insert_after(self.objs[a], nodes + [self.foreign])
        elif which == "ib-foreign":
            self.c.insert_before(self.objs[a], [self.foreign] + nodes)
        elif which == "rm-foreign":
            self.c.remove([self.objs[a], self.foreign])
        elif which == "rm-safe-used":
            self.c.remove(self.objs[a], safe=True)
        else:
            raise AssertionError(which)

    def sort_perm(self, rng, perm=None):
        before = self.lst()
        self.c.sort()
        after = self.lst()
        if sorted(before) != sorted(after):
            raise AssertionError("sort changed the node set")
        return after


class FuncBox(GraphBox):
    kind = "function"

    def __init__(self, universe, rng):
        import onnx_ir as ir

        super().__init__(universe, rng)
        self.c = ir.Function("dom", "f", graph=self.g, attributes=[])


BOXES = {"dls": DlsBox, "graph": GraphBox, "function": FuncBox}

# ----------------------------------------------------------------------------- one history


_SEEN_SIGS: set[str] = set()


def documented_effect(op, before):
    """What the docstrings of the editing calls say about the resulting sequence ("append a node", "insert new nodes
    after / before the given node", "remove a node", ValueError when the node is not in the list; a node already
    present is moved), for argument shapes where that is unambiguous: -> (returns normally, sequence) or None."""
    o = op["o"]
    if o == "rejected":
        return False, list(before)
    if o == "rmmany":
        vs = op["vs"]
        return (True, [x for x in before if x not in vs]) if all(v in before for v in vs) else (False, list(before))
    if o == "rm":
        v = op["v"]
        return (True, [x for x in before if x != v]) if v in before else (False, list(before))
    if o == "append":
        return True, [x for x in before if x != op["v"]] + [op["v"]]
    vs = op["vs"]
    if len(set(vs)) != len(vs):
        return None
    base = [x for x in before if x not in vs]
    if o == "extend":
        return True, base + list(vs)
    a = op["a"]
    if a not in before:
        return False, list(before)
    if a in vs:
        return None
    i = base.index(a) + (1 if o == "ia" else 0)
    return True, base[:i] + list(vs) + base[i:]


class CurState:
    """Per real iterator: what the English clauses need."""

    __slots__ = ("d", "it", "start", "touched", "yields", "last", "last_touched", "last_touched_before", "expect",
                 "must_see", "must_skip", "done", "ref")

    def __init__(self, d, it, start, ref):
        self.d, self.it, self.start, self.ref = d, it, list(start), ref
        self.touched = set()
        self.yields = []
        self.last = None
        self.last_touched = False
        self.last_touched_before = False
        self.expect = None  # ("next", follower-or-STOP) valid until the next edit
        self.must_see = set()
        self.must_skip = set()
        self.done = False


class Hist:
    """Executes one history on a real container + the reference; collects model ops and records."""

    def __init__(self, kind, universe, rng, part, light=False, confirm=False):
        self.confirm = confirm  # this is the re-execution of a history in which a next() ran out of CPU budget
        self.aborted = False
        self.kind = kind
        self.box = BOXES[kind](universe, rng)
        self.universe = universe
        self.ref = Ref()
        self.part = part
        self.curs: list[CurState] = []
        self.ops: list[dict] = []
        self.recs: list[dict] = []
        self.ref_rests: list[list[list[int]]] = []
        self.light = light
        self.lastop = "init"
        self.failed = False

    # -- bookkeeping
    def case_obj(self):
        return {"kind": self.kind, "universe": self.universe, "init": self.init, "ops": self.ops}

    def fail(self, clause, what, **extra):
        self.failed = True
        sig = f"{self.kind}:{clause}:after-{self.lastop}"
        if sig in _SEEN_SIGS:  # one replay per signature and worker is enough
            return
        _SEEN_SIGS.add(sig)
        self.part.fail(sig, what, {**self.case_obj(), "step": len(self.ops), **extra})

    def mismatch(self, clause, what):
        """The real container differs from the list-with-gaps *reference* (which encodes the exact tombstone
        behaviour): a correspondence disagreement, not by itself a violated clause of the property."""
        self.failed = True
        self.part.disagree(f"{self.kind}:{clause}:after-{self.lastop}: {what}", {**self.case_obj(), "step": len(self.ops)},
                           "reference (harness.Ref)", "implementation")

    def snapshot(self, r):
        b = self.box
        try:
            L = b.lst()
        except Exception as e:  # noqa: BLE001
            self.fail("list-raised", f"list(c) raised {type(e).__name__}: {e}")
            L = []
        rec = {"r": r, "L": L}
        try:
            rec["n"] = b.length()
        except Exception:  # noqa: BLE001
            rec["n"] = None
        for key, i in (("f", 0), ("l", -1)):
            try:
                rec[key] = b.get(i)
            except Exception:  # noqa: BLE001
                rec[key] = None
        try:
            rec["R"] = b.rlst()
        except Exception as e:  # noqa: BLE001
            self.fail("reversed-raised", f"list(reversed(c)) raised {type(e).__name__}: {e}")
            rec["R"] = None
        self.recs.append(rec)
        self.ref_rests.append([self.ref.rest(c.ref) for c in self.curs])
        # oracle: the sequence is the reference sequence; len / index / membership describe it
        if L != self.ref.L:
            self.mismatch("sequence!=spec", f"list(c)={L} but the reference sequence is {self.ref.L}")
        if rec["R"] != L[::-1]:
            self.fail("reversed!=list", f"list(reversed(c))={rec['R']} list(c)={L}")
        n = len(L)
        if rec["n"] != n:
            self.fail("len", f"len(c)={rec['n']} but list(c) has {n} elements")
        if not self.light or len(self.ops) % 2 == 0:
            for i in range(-n - 1, n + 1):
                try:
                    got = b.get(i)
                except IndexError:
                    got = "IndexError"
                except Exception as e:  # noqa: BLE001
                    got = "raised " + type(e).__name__
                want = L[i] if -n <= i < n else "IndexError"
                if got != want:
                    self.fail("getitem", f"c[{i}]={got} expected {want} (list(c)={L})")
            for x in range(self.universe):
                if b.has(x) != (x in L):
                    self.fail("contains", f"({x} in c)={b.has(x)} but list(c)={L}")
            for sl in (slice(1, None), slice(None, None, -1), slice(-2, None), slice(0, n, 2)):
                try:
                    got = [b.oid(o) for o in b.c[sl]]
                except Exception as e:  # noqa: BLE001
                    got = "raised " + type(e).__name__
                if got != L[sl]:
                    self.fail("getitem-slice", f"c[{sl}]={got} expected {L[sl]}")
        return L

    def init_with(self, init):
        self.init = list(init)
        self.box.extend(init)
        self.ref.extend(init)
        self.snapshot(True)

    # -- edits
    def edit(self, op, call, refcall, touched, simple_removed=None, inserted=None):
        """Run one edit on the real container and on the reference."""
        before = self.box.lst()
        try:
            call()
            ok = True
        except (ValueError, TypeError) as e:
            ok = False
            self.part.count(f"raised={type(e).__name__}")
        except Exception as e:  # noqa: BLE001  (AssertionError of __len__, RuntimeError of __iter__, ...)
            ok = False
            self.ops.append(op)
            self.lastop = op["o"]
            self.fail("edit-unexpected-exception", f"{op} raised {type(e).__name__}: {e}")
            self.ops.pop()
        want_ok = refcall()
        self.ops.append(op)
        self.lastop = op["o"]
        if want_ok is not None and ok != want_ok:
            self.mismatch("raise-mismatch", f"{op} returned normally={ok}, the reference says {want_ok}")
        after = self.snapshot(ok)
        eff = documented_effect(op, before)
        if eff is not None and (ok, after) != eff:
            self.fail("edit-effect", f"{op} on {before}: returned normally={ok}, sequence {after}; the documented "
                                     f"meaning of the call gives returned normally={eff[0]}, sequence {eff[1]}")
        # English clauses bookkeeping
        for c in self.curs:
            if c.done:
                continue
            c.expect = None
            c.touched |= touched
            c.must_see -= touched
            c.must_skip -= touched
            if c.last in touched:
                c.last_touched = True
        if ok and simple_removed is not None and simple_removed in before:
            # "when the current node is removed or moved, iteration resumes with the node that
            # followed it at its original place"
            i = before.index(simple_removed)
            for c in self.curs:
                if c.done or c.last != simple_removed or c.last_touched_before:
                    continue
                if c.d == "f":
                    c.expect = before[i + 1] if i + 1 < len(before) else STOP
                else:
                    c.expect = before[i - 1] if i > 0 else STOP
        if ok and inserted is not None and inserted not in before and inserted in after:
            # "yields nodes inserted after the current position and skips nodes inserted before it"
            p = after.index(inserted)
            for c in self.curs:
                if c.done or inserted in c.yields:
                    continue
                if c.last is None:
                    c.must_see.add(inserted)
                elif not c.last_touched and c.last in after:
                    q = after.index(c.last)
                    if (p > q) == (c.d == "f"):
                        c.must_see.add(inserted)
                    else:
                        c.must_skip.add(inserted)

    def _pre(self):
        for c in self.curs:
            c.last_touched_before = c.last_touched

    def do(self, op, alt=False):
        """op: model-op dict. Executes it on real + reference."""
        o = op["o"]
        b, ref = self.box, self.ref
        self._pre()
        if o == "append":
            v = op["v"]
            present = v in ref.L
            self.edit(op, lambda: b.append(v), lambda: (ref.append(v), True)[1], {v},
                      simple_removed=v if present else None, inserted=None if present else v)
        elif o == "extend":
            vs = op["vs"]
            self.edit(op, lambda: b.extend(vs, alt), lambda: (ref.extend(vs), True)[1], set(vs))
        elif o in ("ia", "ib"):
            a, vs = op["a"], op["vs"]
            single = vs[0] if len(vs) == 1 and vs[0] != a else None
            present = single is not None and single in ref.L
            real = (lambda: b.ia(a, vs, alt)) if o == "ia" else (lambda: b.ib(a, vs, alt))
            refc = (lambda: ref.insert_after(a, vs)) if o == "ia" else (lambda: ref.insert_before(a, vs))
            if a not in ref.L:
                touched = set()  # raises before anything is written
            elif o == "ib" or any(vs[j] == a and any(x != a for x in vs[:j]) for j in range(len(vs))):
                touched = set(vs)  # the anchor itself is moved
            else:
                touched = set(vs) - {a}  # insert_after(a, [a, ..]): the leading a is a no-op
            self.edit(op, real, refc, touched,
                      simple_removed=single if present and a in ref.L else None,
                      inserted=single if (single is not None and not present and a in ref.L) else None)
        elif o == "rm":
            v = op["v"]
            real = (lambda: b.rm_safe(v)) if alt == "safe" else (lambda: b.rm(v, alt))
            self.edit(op, real, lambda: ref.remove(v), {v} if v in ref.L else set(),
                      simple_removed=v)
        elif o == "rmmany":
            vs = op["vs"]
            allp = all(v in ref.L for v in vs)

            def refc():
                if allp:
                    for v in vs:
                        ref.remove(v)
                return allp

            self.edit(op, lambda: b.rmmany(vs, alt), refc, set(vs) if allp else set())
        elif o == "rejected":
            self.edit(op, lambda: b.rejected_call(op["what"], op.get("a"), op.get("xs", [])), lambda: False, set())
        else:
            raise AssertionError(o)

    def do_partial_none(self, o, a, xs):
        """insert_after / insert_before(a, [*xs, None, ..]) on the bare container: the elements before the None are
        inserted, then TypeError.  The model is given the prefix."""
        b, ref = self.box, self.ref
        self._pre()

        def call():
            try:
                b.partial_none(o, a, xs)
            except TypeError:
                return
            raise AssertionError("None was accepted as a value")

        op = {"o": o, "a": a, "vs": list(xs)}
        refc = (lambda: ref.insert_after(a, xs)) if o == "ia" else (lambda: ref.insert_before(a, xs))
        self.edit(op, call, refc, set(xs) if a in ref.L else set())

    def query(self, op):
        """`c[i]` / `x in c` / `len(c)` as explicit steps (compared with the model's getItem / contains / len)."""
        b = self.box
        try:
            if op["o"] == "get":
                r = b.get(op["i"])
            elif op["o"] == "slice":
                try:
                    r = [b.oid(o) for o in b.c[slice(op.get("a"), op.get("b"), op.get("k"))]]
                except ValueError:
                    r = None
            elif op["o"] == "has":
                r = b.has(op["v"])
            else:
                r = b.length()
        except IndexError:
            r = None
        except Exception as e:  # noqa: BLE001
            r = None
            self.fail("query-raised", f"{op} raised {type(e).__name__}: {e}")
        self.ops.append(op)
        self.lastop = op["o"]
        L = self.ref.L
        if op["o"] == "get":
            i = op["i"]
            want = L[i] if -len(L) <= i < len(L) else None
        elif op["o"] == "slice":
            want = L[slice(op.get("a"), op.get("b"), op.get("k"))] if op.get("k") != 0 else None
        elif op["o"] == "has":
            want = op["v"] in L
        else:
            want = len(L)
        if r != want:
            self.fail("query", f"{op} = {r}, the reference sequence {L} gives {want}")
        self.snapshot(r)

    def do_sort(self, rng, perm=None):
        """Graph.sort() / Function.sort() (for the bare DoublyLinkedSet: what sort does to the container, i.e.
        extend(<an arrangement of the present nodes>)).  Which arrangement sort() chooses is C12's subject
        (C12_relink_refines: extend(xs) leaves exactly xs); here the model is given the observed arrangement and the
        fate of every parked iterator under that re-append is compared."""
        self._pre()
        holder = {}

        def call():
            holder["perm"] = self.box.sort_perm(rng, perm)

        before = list(self.ref.L)
        try:
            call()
        except Exception as e:  # noqa: BLE001
            self.lastop = "sort"
            self.fail("sort-raised", f"sort() raised {type(e).__name__}: {e}")
            holder["perm"] = self.box.lst()
        perm = holder["perm"]
        op = {"o": "sort", "vs": perm}
        self.ref.extend(perm)
        self.ops.append(op)
        self.lastop = "sort"
        after = self.snapshot(True)
        if sorted(after) != sorted(before) or len(set(after)) != len(after):
            self.fail("sort-membership", f"sort() turned {before} into {after}")
        for c in self.curs:
            if not c.done:
                c.expect = None
                c.touched |= set(before)
                c.must_see -= set(before)
                c.must_skip -= set(before)
                c.last_touched = True

    # -- iterators
    def new_iter(self, d):
        rc = self.ref.new_cursor(d)
        self.curs.append(CurState(d, self.box.iter(d), self.box.lst(), rc))
        self.ops.append({"o": "iter", "d": d})
        self.lastop = "iter"
        self.snapshot(len(self.curs) - 1)

    def step(self, k, record=True):
        c = self.curs[k]
        now = self.box.lst()
        try:
            v = self.box.oid(guarded_next(c.it))
        except StopIteration:
            v = STOP
        except _Hang:
            if not self.confirm:
                raise _HangAbort() from None
            self.aborted = True
            self.fail("no-termination", f"next() on iterator {k} ({c.d}) used more than {CPU_BUDGET} s of CPU time, "
                                        "also when the history was executed a second time")
            raise _HangConfirmed(self) from None
        except Exception as e:  # noqa: BLE001
            v = RAISED
            self.fail("next-raised", f"next() on iterator {k} ({c.d}) raised {type(e).__name__}: {e}")
        want = self.ref.next(c.ref)
        was_done = c.done
        if record:
            self.ops.append({"o": "next", "k": k})
        if v != want and v != RAISED:  # (an exception is reported as such, not as a wrong element)
            self.mismatch("yield!=spec", f"iterator {k} ({c.d}) yielded {v}, the reference says {want}")
        if v not in (STOP, RAISED):
            if v not in now:
                self.fail("yield-nonmember", f"iterator {k} ({c.d}) yielded {v} which is not in list(c)={now}")
            c.yields.append(v)
            c.last, c.last_touched = v, False
        elif v == STOP:
            c.done = True
        if c.expect is not None and v != c.expect:
            self.fail("resume", f"iterator {k} ({c.d}): current node was removed/moved, expected to resume with "
                                f"{c.expect}, got {v}")
        c.expect = None
        if was_done and v != STOP:
            self.fail("restart", f"finished iterator {k} yielded {v}")
        if record:
            self.lastop = "next"
            self.snapshot(v)
        return v

    def finish(self):
        """Edits have stopped: every iterator terminates without error within len+1 further steps; then
        the whole-run clauses are evaluated."""
        n = len(self.box.lst())
        self.lastop = "drain"
        self.y0 = list(self.curs[0].yields) if self.curs else None
        tail = []
        final = self.box.lst()
        for k, c in enumerate(self.curs):
            got = []
            for _ in range(n + 2):
                v = self.step(k, record=False)
                got.append(v)
                if v in (STOP, RAISED):
                    break
            else:
                self.fail("no-termination", f"iterator {k} ({c.d}) still yields after {n + 2} steps without edits")
            tail.append(got)
            rem = [x for x in got if x not in (STOP, RAISED)]
            want_rem = final[len(final) - len(rem):] if c.d == "f" else final[: len(rem)][::-1]
            if rem != want_rem:
                self.fail("remaining-in-graph-order",
                          f"with no further edits iterator {k} ({c.d}) yielded {rem}, which is not a "
                          f"{'suffix' if c.d == 'f' else 'reversed prefix'} of the final sequence {final}")
            untouched = [x for x in c.start if x not in c.touched]
            seen = [x for x in c.yields if x not in c.touched]
            want = untouched if c.d == "f" else untouched[::-1]
            if seen != want:
                self.fail("untouched-once-in-order",
                          f"iterator {k} ({c.d}) yielded untouched nodes {seen}, expected {want}")
            missing = c.must_see - set(c.yields)
            if missing:
                self.fail("inserted-after-not-seen", f"iterator {k} ({c.d}) never yielded {sorted(missing)}")
            extra = c.must_skip & set(c.yields)
            if extra:
                self.fail("inserted-before-seen", f"iterator {k} ({c.d}) yielded {sorted(extra)}")
        return tail


def pick_node(rng, h: Hist, where):
    """Choose a node id relative to the cursors: current / earlier / later / present / absent."""
    L = h.ref.L
    absent = [x for x in range(h.universe) if x not in L]
    live = [c for c in h.curs if c.last is not None]
    if where in ("current", "earlier", "later") and live:
        c = rng.choice(live)
        if where == "current":
            return c.last
        if c.last in L:
            i = L.index(c.last)
            pool = L[:i] if where == "earlier" else L[i + 1:]
            if pool:
                # neighbours are the interesting ones
                return pool[-1] if (where == "earlier" and rng.random() < 0.6) else (
                    pool[0] if rng.random() < 0.6 else rng.choice(pool))
    if where == "absent":
        return rng.choice(absent) if absent else rng.randrange(h.universe)
    if L and where != "absent":
        return rng.choice(L)
    return rng.choice(absent) if absent else rng.randrange(h.universe)


WHERE = ["current", "earlier", "later", "present", "absent"]


def random_history(kind, rng, part, n0, nops, universe):
    state = rng.getstate()

    def run(confirm):
        rng.setstate(state)
        return _random_history(kind, rng, part, n0, nops, universe, confirm)

    h = run_confirmed(run)
    return h, None


def _random_history(kind, rng, part, n0, nops, universe, confirm):
    try:
        return _random_history1(kind, rng, part, n0, nops, universe, confirm)
    except _HangConfirmed as e:
        return e.args[0]


def _random_history1(kind, rng, part, n0, nops, universe, confirm):
    h = Hist(kind, universe, rng, part, confirm=confirm)
    h.init_with(list(range(n0)))
    for _ in range(nops):
        r = rng.random()
        ncur = len(h.curs)
        if ncur == 0 or (ncur < 3 and r < 0.07):
            h.new_iter(rng.choice("fr"))
        elif r < 0.12:
            n = len(h.ref.L)
            q = rng.choice(["get", "get", "has", "len", "slice", "slice"])
            if q == "slice":
                op = {"o": "slice"}
                for key_, lo, hi in (("a", -n - 3, n + 3), ("b", -n - 3, n + 3), ("k", -3, 4)):
                    if rng.random() < 0.7:
                        op[key_] = rng.randrange(lo, hi)
                h.query(op)
                part.count("slice-step=" + ("none" if "k" not in op else "0" if op["k"] == 0 else "neg" if op["k"] < 0 else "pos"))
            elif q == "get":
                h.query({"o": "get", "i": rng.randrange(-n - 2, n + 2)})
            elif q == "has":
                h.query({"o": "has", "v": rng.randrange(h.universe)})
            else:
                h.query({"o": "len"})
        elif r < 0.42:
            h.step(rng.randrange(ncur))
        elif r < 0.45 and kind != "dls":
            q = rng.random()
            if q < 0.45:  # Graph.remove(<several nodes>)
                vs = sorted({pick_node(rng, h, rng.choices(WHERE, [3, 2, 2, 2, 1])[0]) for _ in range(rng.choice([0, 2, 2, 3]))})
                h.do({"o": "rmmany", "vs": vs}, alt=rng.random() < 0.3)
            elif q < 0.7:  # remove(node, safe=True)
                v = pick_node(rng, h, rng.choices(WHERE, [3, 2, 2, 2, 1])[0])
                if v in h.ref.L and not h.box.users_outside(v):
                    h.do({"o": "rm", "v": v}, alt="safe")
                else:
                    h.do({"o": "rejected", "what": "rm-safe-used", "a": v})
            else:  # a node of another graph: rejected before anything is written
                what = rng.choice(["append-foreign", "extend-foreign", "ia-foreign", "ib-foreign", "rm-foreign"])
                a = pick_node(rng, h, "present")
                xs = [pick_node(rng, h, rng.choice(WHERE)) for _ in range(rng.choice([0, 1, 2]))]
                h.do({"o": "rejected", "what": what, "a": a, "xs": xs})
        elif r < 0.44 and kind == "dls":
            a = pick_node(rng, h, rng.choices(WHERE, [4, 2, 2, 2, 1])[0])
            xs = []
            for _ in range(rng.choice([0, 1, 2])):
                x = pick_node(rng, h, rng.choices(WHERE, [3, 2, 2, 1, 6])[0])
                if x != a and x not in xs:
                    xs.append(x)
            h.do_partial_none(rng.choice(["ia", "ib"]), a, xs)
        elif r < 0.55:
            v = pick_node(rng, h, rng.choices(WHERE, [3, 2, 2, 1, 1])[0])
            h.do({"o": "rm", "v": v}, alt=rng.random() < 0.3)
        elif r < 0.63:
            v = pick_node(rng, h, rng.choices(WHERE, [2, 2, 1, 1, 5])[0])
            h.do({"o": "append", "v": v})
        elif r < 0.68:
            vs = [pick_node(rng, h, rng.choices(WHERE, [2, 2, 2, 1, 5])[0]) for _ in range(rng.choice([0, 1, 2, 2, 3]))]
            h.do({"o": "extend", "vs": vs}, alt=rng.random() < 0.3)
        elif r < 0.96:
            a = pick_node(rng, h, rng.choices(WHERE, [4, 2, 2, 2, 1])[0])
            k = rng.choices([0, 1, 2, 3], [1, 14, 4, 2])[0]
            vs = [pick_node(rng, h, rng.choices(WHERE, [3, 2, 2, 1, 6])[0]) for _ in range(k)]
            h.do({"o": rng.choice(["ia", "ib"]), "a": a, "vs": vs}, alt=rng.choice([False, False, True, True, 2]))
        else:
            h.do_sort(rng)
    h.finish()
    return h


# ----------------------------------------------------------------------------- exhaustive small scope


def small_alphabet(L, universe, ncur, kind="dls"):
    """All valid single-element edits on the current sequence + next on each cursor + sort (for the bare
    container: the re-append of every arrangement of the present nodes; for Graph / Function: sort() itself)."""
    ops = [{"o": "next", "k": k} for k in range(ncur)]
    if kind == "dls":
        ops += [{"o": "sort", "vs": list(p)} for p in itertools.permutations(L)] if L else []
    else:
        ops.append({"o": "sort"})
    ops += [{"o": "rm", "v": x} for x in L]
    ops += [{"o": "append", "v": x} for x in range(universe)]
    for a in L:
        for x in range(universe):
            ops.append({"o": "ia", "a": a, "vs": [x]})
            ops.append({"o": "ib", "a": a, "vs": [x]})
    return ops


def run_explicit(kind, n0, universe, dirs, pre, ops, part, light=True):
    """Execute an explicit history (see run_confirmed for the treatment of a next() that runs out of CPU budget)."""

    def run(confirm):
        h = Hist(kind, universe, random.Random(0), part, light=light, confirm=confirm)
        try:
            h.init_with(list(range(n0)) if isinstance(n0, int) else n0)
            for d in dirs:
                h.new_iter(d)
            for k, a in enumerate(pre):
                for _ in range(a):
                    h.step(k)
            for op in ops:
                o = op["o"]
                if o == "iter":
                    h.new_iter(op["d"])
                elif o == "next":
                    h.step(op["k"])
                elif o in ("get", "has", "len", "slice"):
                    h.query(dict(op))
                elif o == "sort":
                    h.do_sort(random.Random(0), perm=op.get("vs"))
                else:
                    h.do(dict(op))
            h.finish()
        except _HangConfirmed:
            pass
        return h

    return run_confirmed(run)


def enumerate_small(kind, n0, universe, dirs, pre, depth, part, sink):
    """Depth-first over all op sequences of length <= depth (each history is re-executed from scratch:
    generators cannot be copied). `sink(h)` receives every executed history."""

    def rec(prefix):
        if _GIVE_UP["on"]:
            return
        h = run_explicit(kind, n0, universe, dirs, pre, prefix, part)
        if h.aborted:
            return
        sink(h)
        if len(prefix) >= depth:
            return
        for op in small_alphabet(h.ref.L, universe, len(dirs), kind):
            rec(prefix + [op])

    rec([])


# ----------------------------------------------------------------------------- recursive iteration


def _lean(reqs):
    """lean_batch with patience: the driver binary may be being relinked by a concurrent build."""
    import time

    from harness.common import Infra, lean_batch

    for attempt in range(8):
        try:
            return lean_batch(reqs)
        except (Infra, OSError):
            if attempt == 7:
                raise
            time.sleep(10)


PER = 5  # nodes per graph in the recursive histories; node (g, i) has the global id g * 10 + i


def nid(g, i):
    return g * 10 + i


class RecRef:
    """Independent reference for RecursiveGraphIterator: a stack of list-with-gaps cursors; subgraphs are entered
    lazily; emits the callback events (enter/exit/predicate) in call order."""

    def __init__(self, refs, subs, root, reverse, pred_false):
        self.refs, self.subs, self.reverse, self.pred_false = refs, subs, reverse, pred_false
        self.stack = None
        self.root = root
        self.done = False

    def _push(self, g):
        # [graph, cursor, pending subgraphs, started, node whose attributes are still to be read]
        self.stack.append([g, self.refs[g].new_cursor("r" if self.reverse else "f"), [], False, None])

    def next(self):
        """-> (events and the yield of this call, result)"""
        out = []
        if self.done:
            return out, STOP
        if self.stack is None:
            self.stack = []
            self._push(self.root)
        while self.stack:
            fr = self.stack[-1]
            if fr[4] is not None:
                v, fr[4] = fr[4], None
                if self.pred_false is not None:
                    out.append(["p", nid(fr[0], v)])
                    if v in self.pred_false.get(fr[0], ()):
                        continue
                fr[2] = list(self.subs.get((fr[0], v), []))
                continue
            if fr[2]:
                h = fr[2].pop(0)
                out.append(["en", h])
                self._push(h)
                continue
            if not fr[3]:
                fr[3] = True
                out.append(["en", fr[0]])
            v = self.refs[fr[0]].next(fr[1])
            if v == STOP:
                self.stack.pop()
                out.append(["ex", fr[0]])
                if self.stack:
                    out.append(["ex", fr[0]])
                continue
            fr[4] = v
            out.append(["y", fr[0], nid(fr[0], v)])
            return out, (fr[0], v)
        self.done = True
        return out, STOP


def recursive_history(rng, part, nops, tag=None):
    """One recursive history (see _recursive_history); a next() that runs out of CPU budget is confirmed by one
    re-execution (run_confirmed)."""
    state = rng.getstate()

    def run(confirm):
        rng.setstate(state)
        try:
            return _recursive_history(rng, part, nops, tag, confirm)
        except _HangConfirmed:
            return {"aborted": True}

    return run_confirmed(run)


def _recursive_history(rng, part, nops, tag, confirm):
    """Nested graphs (GRAPH and GRAPHS attributes, depth <= 3); edits of the node sequences of any of the graphs
    interleaved with next() on RecursiveGraphIterator (forward / reverse, with and without a `recursive`
    predicate, enter/exit callbacks recorded).  Returns the Lean request and what the real iterators did."""
    import onnx_ir as ir
    from onnx_ir import traversal

    ngraphs = rng.randrange(2, 6)
    nodes, graphs, refs = {}, [], []
    for g in range(ngraphs):
        graphs.append(ir.Graph(inputs=[], outputs=[], nodes=[], name=f"g{g}"))
        refs.append(Ref())
    gid = {id(g): i for i, g in enumerate(graphs)}
    # nesting tree: graph j>0 hangs under a node of an earlier graph
    attach = {}
    for g in range(1, ngraphs):
        parent = rng.randrange(g)
        attach.setdefault((parent, rng.randrange(PER)), []).append(g)
    shared = False
    if ngraphs >= 3 and rng.random() < 0.25:  # the same subgraph under a second node (the nesting is a DAG)
        h = rng.randrange(2, ngraphs)
        key = (rng.randrange(h), rng.randrange(PER))
        if h not in attach.get(key, []):
            attach.setdefault(key, []).append(h)
            shared = True
    attr_spec = {}  # (g, i) -> [("g", h) | ("gs", [h..])] in attribute (dict) order
    for key, kids in attach.items():
        if len(kids) == 1:
            attr_spec[key] = [("g", kids[0])] if rng.random() < 0.6 else [("gs", kids)]
        elif rng.random() < 0.5:
            attr_spec[key] = [("gs", kids)]
        else:
            attr_spec[key] = [("g", kids[0]), ("gs", kids[1:])] if rng.random() < 0.5 else [("gs", kids[:-1]), ("g", kids[-1])]
    for g in range(ngraphs):
        for i in range(PER):
            attrs = [ir.AttrFloat32("alpha", 1.0)] if rng.random() < 0.3 else []
            if rng.random() < 0.2:  # a reference attribute of graph type has no value: nothing to visit
                attrs.append(ir.RefAttr("ref_g", "outer", ir.AttributeType.GRAPH))
            for j, (kind, val) in enumerate(attr_spec.get((g, i), [])):
                if kind == "g":
                    attrs.append(ir.AttrGraph(f"a{j}", graphs[val]))
                else:
                    attrs.append(ir.AttrGraphs(f"a{j}", [graphs[k] for k in val]))
            nodes[(g, i)] = ir.Node("", "Op", inputs=[], attributes=attrs, num_outputs=1, name=f"g{g}n{i}")
    ident = {id(n): key for key, n in nodes.items()}
    subs_f = {k: [h for kind, val in sp for h in ([val] if kind == "g" else val)] for k, sp in attr_spec.items()}
    subs_r = {k: [h for kind, val in sp for h in ([val] if kind == "g" else val[::-1])] for k, sp in attr_spec.items()}
    pred_false = None
    if rng.random() < 0.4:
        pred_false = {g: {i for i in range(PER) if rng.random() < 0.4} for g in range(ngraphs)}
    log = []
    inits = []
    for g in range(ngraphs):
        init = list(range(rng.randrange(0, 4)))
        graphs[g].extend([nodes[(g, i)] for i in init])
        refs[g].extend(init)
        inits.append([nid(g, i) for i in init])
        log.append(("init", g, init))
    req = {
        "m": "lset.rec",
        "sets": inits,
        "attrs": [[nid(*k), [({"g": v} if kind == "g" else {"gs": v}) for kind, v in sp]] for k, sp in attr_spec.items()],
        "recf": None if pred_false is None else sorted(nid(g, i) for g, s_ in pred_false.items() for i in s_),
        "homediv": 10,
        "ops": [],
    }
    real = []  # per op what the real objects did (same shape as the model's answers)
    its = []
    failed = []

    def fail(clause, what):
        failed.append(clause)
        if f"recursive:{clause}" in _SEEN_SIGS:
            return
        _SEEN_SIGS.add(f"recursive:{clause}")
        part.fail(f"recursive:{clause}", what, {"log": log, "rec_seed": tag, "nops": nops})

    def mismatch(clause, what):
        """real iterator != Python reference stack machine: a correspondence disagreement (see Hist.mismatch)"""
        failed.append(clause)
        part.disagree(f"recursive:{clause}: {what}", {"log": log, "rec_seed": tag, "nops": nops},
                      "reference (harness.RecRef)", "implementation")

    def lists():
        return [[ident[id(n)][1] for n in g] for g in graphs]

    root_obj = graphs[0]
    if rng.random() < 0.3:
        root_obj = ir.Function("dom", "f", graph=graphs[0], attributes=[])

    def make_iter(root, rev, flavour="plain"):
        if flavour == "all_nodes":  # Graph.all_nodes() / Function.all_nodes(): forward, no callbacks
            return root_obj.all_nodes(), None
        ev = []
        kw = {}
        if pred_false is not None:
            def pred(n, ev=ev):
                g, i = ident[id(n)]
                ev.append(["p", nid(g, i)])
                return i not in pred_false[g]
            kw["recursive"] = pred
        def gi(g):
            return 0 if g is root_obj else gid[id(g)]

        it = traversal.RecursiveGraphIterator(
            root_obj if root == 0 else graphs[root], reverse=(not rev) if flavour == "reversed" else rev,
            enter_graph=lambda g, ev=ev: ev.append(["en", gi(g)]),
            exit_graph=lambda g, ev=ev: ev.append(["ex", gi(g)]), **kw)
        if flavour == "reversed":  # RecursiveGraphIterator.__reversed__
            it = reversed(it)
        return it, ev

    def real_next(it, ev):
        """-> (out, result) of one next() on the real iterator (ev None: no callbacks installed, yields only)"""
        yonly = ev is None
        ev = [] if yonly else ev
        del ev[:]
        try:
            n = guarded_next(it)
            g, i = ident[id(n)]
            if n.graph is not graphs[g] or n not in graphs[g]:
                fail("yield-nonmember", f"recursive iterator yielded {(g, i)} which is not in its graph")
            return list(ev) + [["y", g, nid(g, i)]], (g, i)
        except StopIteration:
            return list(ev), STOP
        except _Hang:
            if not confirm:
                raise _HangAbort() from None
            fail("no-termination", f"next() on a recursive iterator used more than {CPU_BUDGET} s of CPU time, also "
                                   "when the history was executed a second time")
            raise _HangConfirmed() from None
        except Exception as e:  # noqa: BLE001
            fail("next-raised", f"{type(e).__name__}: {e}")
            return list(ev), RAISED

    def res_json(r):
        return r if r in (STOP, RAISED) else nid(*r)

    for _ in range(nops):
        r = rng.random()
        if not its or (len(its) < 3 and r < 0.08):
            rev = rng.random() < 0.4
            flavour = rng.choice(["plain", "plain", "reversed"])
            if not rev and pred_false is None and rng.random() < 0.3:
                flavour = "all_nodes"
            it, ev = make_iter(0, rev, flavour)
            if rng.random() < 0.3:
                it = iter(it)
            its.append((it, ev, RecRef(refs, subs_r if rev else subs_f, 0, rev, pred_false), rev))
            log.append(("iter", rev, flavour))
            part.count("rec-iter=" + flavour)
            req["ops"].append({"o": "iter", "rev": rev})
            real.append({"r": len(its) - 1})
        elif r < 0.5:
            k = rng.randrange(len(its))
            it, ev, rr, rev = its[k]
            out, got = real_next(it, ev)
            wout, want = rr.next()
            if ev is None:
                wout = [o for o in wout if o[0] == "y"]
            log.append(("next", k, got))
            req["ops"].append({"o": "next", "k": k})
            real.append({"out": out, "r": res_json(got), "yonly": ev is None})
            if got == RAISED:
                pass
            elif got != want:
                mismatch("yield!=spec", f"recursive iterator {k} (reverse={rev}) yielded {got}, reference {want}")
            elif out != wout:
                mismatch("events!=spec", f"recursive iterator {k} (reverse={rev}) produced {out}, reference {wout}")
        else:
            g = rng.randrange(ngraphs)
            L = refs[g].L
            absent = [i for i in range(PER) if i not in L]
            kind = rng.choice(["rm", "append", "ia", "ib"] + ([] if shared else ["sort"]))
            if kind == "sort":
                # Graph.sort() re-appends every node of the graph and of every graph nested in it
                reach, todo = [], [g]
                while todo:
                    h = todo.pop()
                    if h in reach:
                        continue
                    reach.append(h)
                    for v in refs[h].L:
                        todo += subs_f.get((h, v), [])
                try:
                    graphs[g].sort()
                except Exception as ex:  # noqa: BLE001
                    fail("sort-raised", f"sort() raised {type(ex).__name__}: {ex}")
                log.append(("sort", g))
                now = lists()
                for h in reach:
                    if not now[h]:
                        continue
                    if sorted(now[h]) != sorted(refs[h].L):
                        fail("sort-membership", f"sort() turned graph {h} {refs[h].L} into {now[h]}")
                    refs[h].extend(now[h])
                    req["ops"].append({"o": "edit", "g": h, "e": {"o": "sort", "vs": [nid(h, i) for i in now[h]]}})
                    real.append({"r": True})
                if now != [r_.L for r_ in refs]:
                    mismatch("sequence!=spec", f"after sort: graphs {now} reference {[r_.L for r_ in refs]}")
                part.count("rec-op=sort")
                continue
            e = None
            ok = True
            try:
                if kind == "rm" and L:
                    x = rng.choice(L)
                    log.append((kind, g, x))
                    e = {"o": "rm", "v": nid(g, x)}
                    graphs[g].remove(nodes[(g, x)])
                    refs[g].remove(x)
                elif kind == "append":
                    x = rng.randrange(PER)
                    log.append((kind, g, x))
                    e = {"o": "append", "v": nid(g, x)}
                    graphs[g].append(nodes[(g, x)])
                    refs[g].append(x)
                elif kind in ("ia", "ib") and L:
                    a = rng.choice(L)
                    xs = [rng.choice(absent) if absent and rng.random() < 0.6 else rng.randrange(PER)
                          for _ in range(rng.choice([1, 1, 2]))]
                    log.append((kind, g, a, xs))
                    e = {"o": kind, "a": nid(g, a), "vs": [nid(g, x) for x in xs]}
                    ns = [nodes[(g, x)] for x in xs]
                    if kind == "ia":
                        graphs[g].insert_after(nodes[(g, a)], ns)
                        refs[g].insert_after(a, xs)
                    else:
                        graphs[g].insert_before(nodes[(g, a)], ns)
                        refs[g].insert_before(a, xs)
            except Exception as ex:  # noqa: BLE001
                ok = False
                fail("edit-raised", f"{kind} raised {type(ex).__name__}: {ex}")
            if e is not None:
                req["ops"].append({"o": "edit", "g": g, "e": e})
                real.append({"r": ok, "L": [[nid(g2, i) for i in l] for g2, l in enumerate(lists())]})
            if lists() != [r_.L for r_ in refs]:
                mismatch("sequence!=spec", f"graphs {lists()} reference {[r_.L for r_ in refs]}")
    # edits have stopped: every iterator runs to StopIteration
    total = sum(len(r_.L) for r_ in refs)
    bound = (ngraphs + 1) * (total + 2) + 3  # a moved node's subgraph may legitimately be entered again
    for k, (it, ev, rr, rev) in enumerate(its):
        stream = []
        res = None
        for _ in range(bound):
            out, got = real_next(it, ev)
            wout, want = rr.next()
            if ev is None:
                wout = [o for o in wout if o[0] == "y"]
            stream += out
            if got != RAISED and (got != want or out != wout):
                mismatch("yield!=spec", f"recursive iterator {k} produced {out}/{got} while draining, reference {wout}/{want}")
                res = "diverged"
                break
            if got in (STOP, RAISED):
                res = got
                break
        else:
            res = "no-termination"
            fail("no-termination", f"recursive iterator {k} still yields after {bound} steps without edits")
        req["ops"].append({"o": "drain", "k": k})
        real.append({"out": stream, "r": res, "yonly": ev is None})
    # no edits at all: the full run is the pre-order flattening (both directions)
    for rev in (False, True):
        it, ev = make_iter(0, rev)
        stream = []
        res = None
        for _ in range(bound):
            out, got = real_next(it, ev)
            stream += out
            if got in (STOP, RAISED):
                res = got
                break
        req["ops"].append({"o": "spec", "rev": rev, "g": 0})
        real.append({"out": stream, "r": res, "spec": stream})
        # the clause itself, independently: a plain recursive walk over the current sequences
        def walk(g, top=False):
            seq = refs[g].L[::-1] if rev else refs[g].L
            o = [["en", g]]
            for v in seq:
                o.append(["y", g, nid(g, v)])
                if pred_false is not None:
                    o.append(["p", nid(g, v)])
                    if v in pred_false[g]:
                        continue
                for h in (subs_r if rev else subs_f).get((g, v), []):
                    o += [["en", h]] + walk(h) + [["ex", h]]
            return o + [["ex", g]]
        if stream != walk(0):
            fail("preorder", f"fresh recursive iterator (reverse={rev}) produced {stream}, pre-order walk gives {walk(0)}")
    depth = 1
    frontier = [0]
    while True:
        frontier = [h for (p, _i), kids in attach.items() if p in frontier for h in kids]
        if not frontier:
            break
        depth += 1
    part.case(["rec", log], nontrivial=len(its) > 0, kind="recursive", ngraphs=ngraphs, nested_depth=depth,
              predicate=pred_false is not None)
    return {"req": req, "real": real, "case": {"log": log, "rec_seed": tag, "nops": nops},
            "shape": {"acyclic_f": True, "acyclic_r": True, "static_f": True, "static_r": True, "homed": True,
                      "unshared": not shared, "tree": not shared}}


def compare_rec(ctx, packs):
    """Recursive-iterator model (`lset.rec`) vs the real iterators."""
    packs = [p for p in packs if not p.get("aborted")]
    outs = _lean([p["req"] for p in packs])
    for p, out in zip(packs, outs):
        if "err" in out:
            ctx.disagree("recursive: model driver error", p["case"], out, None)
            continue
        for i, (m, r) in enumerate(zip(out["steps"], p["real"])):
            if r.get("yonly"):  # an iterator without callbacks: only the yields are observable
                m = dict(m, out=[o for o in m.get("out", []) if o[0] == "y"])
            bad = [k for k in r if k != "yonly" and m.get(k) != r[k]]
            if bad or m.get("inv") is False:
                ctx.disagree(f"recursive model != implementation on {bad} at step {i} ({p['req']['ops'][i]})", p["case"],
                             {k: m.get(k) for k in bad}, {k: r[k] for k in bad})
                break
        if p.get("shape") is not None:
            # the decidable hypotheses of the C11_rec_*_acyclic theorems, evaluated by the driver on this case, against
            # what the generator built (a tree, or a DAG with one shared subgraph; never a cycle)
            sh = out.get("shape") or {}
            for k_, v_ in sh.items():
                ctx.count(f"rec-shape:{k_}={v_}")
            if sh != p["shape"]:
                ctx.disagree("recursive: the model's nesting predicates differ from how the nesting was generated", p["case"],
                             sh, p["shape"])


# ----------------------------------------------------------------------------- recursive iteration + attribute edits

TKEYS = ["a0", "a1", "a2", "a3", "alpha", "ref_g"]  # attribute names; the model's key id is the index


def _mk_attr(ir, graphs, key, aval):
    """aval: ("g", h) | ("gs", [h..]) | ("x",) (a FLOAT attribute) | ("ref",) (a reference attribute of GRAPH type)"""
    name = TKEYS[key]
    if aval[0] == "g":
        return ir.AttrGraph(name, graphs[aval[1]])
    if aval[0] == "gs":
        return ir.AttrGraphs(name, [graphs[h] for h in aval[1]])
    if aval[0] == "ref":
        return ir.RefAttr(name, "outer", ir.AttributeType.GRAPH)
    return ir.AttrFloat32(name, 1.0)


def _aval_json(aval):
    return {"g": aval[1]} if aval[0] == "g" else ({"gs": list(aval[1])} if aval[0] == "gs" else {"x": 0})


def _aval_graphs(aval):
    return [aval[1]] if aval[0] == "g" else (list(aval[1]) if aval[0] == "gs" else [])


class TravWorld:
    """Real nested graphs whose node attributes are edited, the request for the model (`lset.trav`), and the harness'
    own bookkeeping (current sequences, current attributes, and - from each iterator's own enter/exit/yield events -
    the stack of graphs it is in and the node it is expanding at every level)."""

    def __init__(self, part, confirm, ngraphs, per, inits, attr0, pred_false, case, sigprefix="recursive-attr"):
        import onnx_ir as ir

        self.ir, self.part, self.confirm, self.case, self.sigprefix = ir, part, confirm, case, sigprefix
        self.ngraphs, self.per, self.pred_false = ngraphs, per, pred_false
        self.graphs = [ir.Graph(inputs=[], outputs=[], nodes=[], name=f"g{g}") for g in range(ngraphs)]
        self.gid = {id(g): i for i, g in enumerate(self.graphs)}
        self.nodes, self.cur = {}, {}
        for g in range(ngraphs):
            for i in range(per):
                spec = attr0.get((g, i), [])
                self.nodes[(g, i)] = ir.Node("", "Op", inputs=[], num_outputs=1, name=f"g{g}n{i}",
                                             attributes=[_mk_attr(ir, self.graphs, k, a) for k, a in spec])
                self.cur[(g, i)] = {k: a for k, a in spec}
        self.ident = {id(n): key for key, n in self.nodes.items()}
        self.L = [list(x) for x in inits]
        for g in range(ngraphs):
            self.graphs[g].extend([self.nodes[(g, i)] for i in inits[g]])
        self.req = {
            "m": "lset.trav",
            "sets": [[nid(g, i) for i in inits[g]] for g in range(ngraphs)],
            "attrs": [[nid(*key), [[k, _aval_json(a)] for k, a in spec]] for key, spec in attr0.items()],
            "recf": None if pred_false is None else sorted(nid(g, i) for g, s_ in pred_false.items() for i in s_),
            "ops": [],
        }
        self.real = []
        self.its = []  # dicts: it, ev, rev, evstack, lastat, yields, stale, done
        self.failed = []

    # -- reporting
    def fail(self, clause, what):
        self.failed.append(clause)
        sig = f"{self.sigprefix}:{clause}"
        if sig in _SEEN_SIGS:
            return
        _SEEN_SIGS.add(sig)
        self.part.fail(sig, what, self.case)

    # -- the nesting as the harness sees it
    def kids(self, g):
        out = []
        for i in self.L[g]:
            if self.pred_false is not None and i in self.pred_false.get(g, ()):
                continue
            for a in self.cur[(g, i)].values():
                out += _aval_graphs(a)
        return out

    def cyclic(self):
        color = {}

        def dfs(g):
            color[g] = 1
            for h in self.kids(g):
                if color.get(h) == 1 or (h not in color and dfs(h)):
                    return True
            color[g] = 2
            return False

        return any(g not in color and dfs(g) for g in range(self.ngraphs))

    def attached(self):
        return {h for spec in self.cur.values() for a in spec.values() for h in _aval_graphs(a)}

    def refs(self):
        """every subgraph reference a traversal can follow: present members on which the predicate holds"""
        out = []
        for g in range(self.ngraphs):
            out += self.kids(g)
        return out

    def tree_shape(self):
        """no graph nested in itself, no graph under two attribute positions, the root under none (a node is only ever
        inserted into its own graph, so no node is a member of two graphs)"""
        r = self.refs()
        return (not self.cyclic()) and len(set(r)) == len(r) and 0 not in r

    def walk(self, rev, g=0, depth=0):
        """the clause itself: pre-order walk over the current sequences and attributes -> yielded node ids"""
        if depth > self.ngraphs + 1:
            return []
        out = []
        for i in (self.L[g][::-1] if rev else self.L[g]):
            out.append(nid(g, i))
            if self.pred_false is not None and i in self.pred_false.get(g, ()):
                continue
            for a in self.cur[(g, i)].values():
                hs = _aval_graphs(a)
                for h in (hs[::-1] if rev and a[0] == "gs" else hs):
                    out += self.walk(rev, h, depth + 1)
        return out

    def static_below(self, v):
        """all nodes (members or not) of the graphs nested - through the attributes of any node - below node v"""
        seen, todo = set(), [h for a in self.cur[divmod(v, 10)].values() for h in _aval_graphs(a)]
        while todo:
            h = todo.pop()
            if h in seen:
                continue
            seen.add(h)
            for i in range(self.per):
                for a in self.cur[(h, i)].values():
                    todo += _aval_graphs(a)
        return {nid(h, i) for h in seen for i in range(self.per)}

    # -- iterators
    def new_iter(self, rev, flavour="plain"):
        from onnx_ir import traversal

        ev = []
        kw = {}
        if self.pred_false is not None:
            def pred(n, ev=ev):
                g, i = self.ident[id(n)]
                ev.append(["p", nid(g, i)])
                return i not in self.pred_false.get(g, ())
            kw["recursive"] = pred
        it = traversal.RecursiveGraphIterator(
            self.graphs[0], reverse=(not rev) if flavour == "reversed" else rev,
            enter_graph=lambda g, ev=ev: ev.append(["en", self.gid[id(g)]]),
            exit_graph=lambda g, ev=ev: ev.append(["ex", self.gid[id(g)]]), **kw)
        if flavour == "reversed":
            it = reversed(it)
        self.its.append({"it": it, "ev": ev, "rev": rev, "evstack": [], "lastat": {}, "yields": [], "stale": False,
                         "done": False, "attr_calls": 0, "touched": set(), "tree0": self.tree_shape(),
                         "walk0": self.walk(rev), "cyc": self.cyclic()})
        self.req["ops"].append({"o": "iter", "rev": rev})
        self.real.append({"r": len(self.its) - 1})
        return len(self.its) - 1

    def position(self, k):
        """-> (graph stack, node being expanded at every level but the innermost, innermost last yielded node)"""
        c = self.its[k]
        es = c["evstack"]
        levels = (len(es) + 1) // 2
        stack = [es[2 * j] for j in range(levels)] if es else []
        expanding = [c["lastat"].get(j) for j in range(levels - 1)]
        current = c["lastat"].get(levels - 1) if levels else None
        return stack, expanding, current

    def next(self, k, record=True):
        c = self.its[k]
        ev = c["ev"]
        del ev[:]
        try:
            n = guarded_next(c["it"])
            g, i = self.ident[id(n)]
            if n.graph is not self.graphs[g] or n not in self.graphs[g]:
                self.fail("yield-nonmember", f"recursive iterator yielded {(g, i)} which is not in its graph")
            out, got = list(ev) + [["y", g, nid(g, i)]], nid(g, i)
        except StopIteration:
            out, got = list(ev), STOP
            c["done"] = True
        except _Hang:
            if not self.confirm:
                raise _HangAbort() from None
            self.fail("no-termination", f"next() on a recursive iterator used more than {CPU_BUDGET} s of CPU time, also "
                                        "when the history was executed a second time")
            raise _HangConfirmed() from None
        except RuntimeError as e:
            out, got = list(ev), RAISED
            c["done"] = True
            if not c["stale"] or "dictionary" not in str(e):
                self.fail("next-raised", f"RuntimeError: {e} although no attribute was added to / deleted from a node "
                                         "whose subgraphs this iterator was visiting")
            else:
                self.part.count("attr-edit-at-cursor=RuntimeError")
        except Exception as e:  # noqa: BLE001
            out, got = list(ev), RAISED
            c["done"] = True
            self.fail("next-raised", f"{type(e).__name__}: {e}")
        # the iterator's own events give the stack of graphs it is in (root: one enter; every subgraph: two)
        for o in out:
            if o[0] == "en":
                c["evstack"].append(o[1])
            elif o[0] == "ex":
                c["evstack"].pop()
            elif o[0] == "y":
                c["lastat"][(len(c["evstack"]) + 1) // 2 - 1] = o[2]
                c["yields"].append(o[2])
        levels = (len(c["evstack"]) + 1) // 2
        for j in [j for j in c["lastat"] if j >= levels]:
            del c["lastat"][j]
        if record:
            self.req["ops"].append({"o": "next", "k": k})
            self.real.append({"out": out, "r": got})
        return out, got

    # -- edits
    def node_edit(self, g, e, call, refcall):
        ok = True
        try:
            call()
        except (ValueError, TypeError):
            ok = False
        except Exception as ex:  # noqa: BLE001
            ok = False
            self.fail("edit-raised", f"{e} raised {type(ex).__name__}: {ex}")
        if ok:
            refcall()
        now = [[self.ident[id(n)][1] for n in gr] for gr in self.graphs]
        for c in self.its:
            c["touched"].update([e["v"]] if "v" in e else e["vs"])
        self.req["ops"].append({"o": "edit", "g": g, "e": e})
        self.real.append({"r": ok, "L": [[nid(g2, i) for i in l] for g2, l in enumerate(now)]})
        self.L = now

    def set_attr(self, key, k, aval, how="setitem"):
        """node.attributes[name] = attr / .add(attr) / .update({name: attr})"""
        node = self.nodes[key]
        attr = _mk_attr(self.ir, self.graphs, k, aval)
        size_changes = k not in self.cur[key]
        if how == "add":
            node.attributes.add(attr)
        elif how == "update":
            node.attributes.update({TKEYS[k]: attr})
        else:
            node.attributes[TKEYS[k]] = attr
        self._after_attr(key, size_changes)
        self.cur[key][k] = aval
        self.req["ops"].append({"o": "seta", "v": nid(*key), "k": k, "a": _aval_json(aval)})
        self.real.append({"r": True, "keys": self.real_keys(key)})

    def del_attr(self, key, k, how="del"):
        node = self.nodes[key]
        ok = True
        try:
            if how == "pop":
                node.attributes.pop(TKEYS[k])
            else:
                del node.attributes[TKEYS[k]]
        except KeyError:
            ok = False
        if ok != (k in self.cur[key]):
            self.fail("attr-del", f"del attributes[{TKEYS[k]}] returned normally={ok} with keys {sorted(self.cur[key])}")
        if ok:
            self._after_attr(key, True)
            self.cur[key].pop(k, None)
        else:
            self._after_attr(key, False)
        self.req["ops"].append({"o": "dela", "v": nid(*key), "k": k})
        self.real.append({"r": ok, "keys": self.real_keys(key)})

    def real_keys(self, key):
        """node.attributes as it is: [[key, value]..] in dict order, values in the model's vocabulary"""
        ir = self.ir
        out = []
        for n, a in self.nodes[key].attributes.items():
            if not isinstance(a, ir.Attr) or a.is_ref():
                v = {"x": 0}
            elif a.type == ir.AttributeType.GRAPH:
                v = {"g": self.gid[id(a.value)]}
            elif a.type == ir.AttributeType.GRAPHS:
                v = {"gs": [self.gid[id(g)] for g in a.value]}
            else:
                v = {"x": 0}
            out.append([TKEYS.index(n), v])
        return out

    def meth(self, key, m, k=None, aval=None, kvs=None, dflt=None, form="mapping"):
        """One call of a public method of node.attributes on the real object, the `meth` request for the model (AMeth), and the
        documented effect on the harness' own copy (a plain dict; popitem of a MutableMapping removes the FIRST item).
        aval None = a value that is not an Attr (TypeError)."""
        node = self.nodes[key]
        A = node.attributes
        exp = dict(self.cur[key])
        exp_ok = True

        def mk(kk, av):
            return "not-an-attr" if av is None else _mk_attr(self.ir, self.graphs, kk, av)

        def aj(av):
            return None if av is None else _aval_json(av)

        op = {"o": "meth", "v": nid(*key), "m": m}
        ok = True
        try:
            if m == "setitem":
                op.update(k=k, a=aj(aval))
                if aval is None:
                    exp_ok = False
                else:
                    exp[k] = aval
                A[TKEYS[k]] = mk(k, aval)
            elif m == "add":
                op.update(k=k, a=aj(aval))
                exp[k] = aval
                A.add(mk(k, aval))
            elif m == "update":
                op["kvs"] = [[kk, aj(av)] for kk, av in kvs]
                for kk, av in kvs:
                    if av is None:
                        exp_ok = False
                        break
                    exp[kk] = av
                items = [(TKEYS[kk], mk(kk, av)) for kk, av in kvs]
                A.update(dict(items) if form == "mapping" else items)
            elif m == "delitem":
                op.update(k=k)
                if k in exp:
                    del exp[k]
                else:
                    exp_ok = False
                del A[TKEYS[k]]
            elif m == "pop":
                op.update(k=k, dflt=bool(dflt))
                if k in exp:
                    del exp[k]
                else:
                    exp_ok = bool(dflt)
                if dflt:
                    A.pop(TKEYS[k], None)
                else:
                    A.pop(TKEYS[k])
            elif m == "popitem":
                if exp:
                    del exp[next(iter(exp))]
                else:
                    exp_ok = False
                A.popitem()
            elif m == "clear":
                exp = {}
                A.clear()
            elif m == "setdefault":
                op.update(k=k, a=aj(aval))
                if k not in exp:
                    if aval is None:
                        exp_ok = False
                    else:
                        exp[k] = aval
                A.setdefault(TKEYS[k], mk(k, aval))
            else:
                raise AssertionError(m)
        except (KeyError, TypeError):
            ok = False
        keys = self.real_keys(key)
        want = [[kk, _aval_json(av)] for kk, av in exp.items()]
        if ok != exp_ok or keys != want:
            self.fail("attr-method", f"attributes.{m}(k={k}, value={aval}, items={kvs}) on {self.cur[key]}: returned "
                                     f"normally={ok} (documented: {exp_ok}), attributes now {keys} (documented: {want})")
            # keep the harness' copy in line with the real object so that the remaining clauses are evaluated on what is there
            exp = {kk: (("g", v["g"]) if "g" in v else ("gs", list(v["gs"])) if "gs" in v else ("x",)) for kk, v in keys}
        self._after_attr(key, set(exp) != set(self.cur[key]))
        self.cur[key] = exp
        self.part.count("attr-meth=" + m)
        self.req["ops"].append(op)
        self.real.append({"r": ok, "keys": keys, "eff": True})

    def clear_attrs(self, key):
        """node.attributes.clear() is MutableMapping.clear: popitem() until empty = delete the keys in order"""
        node = self.nodes[key]
        keys = list(self.cur[key])
        node.attributes.clear()
        for k in keys:
            self._after_attr(key, True)
            del self.cur[key][k]
            self.req["ops"].append({"o": "dela", "v": nid(*key), "k": k})
            self.real.append({"r": True})

    def _after_attr(self, key, size_changes):
        v = nid(*key)
        for k, c in enumerate(self.its):
            c["attr_calls"] += 1
            if c["done"]:
                continue
            _stack, expanding, _cur = self.position(k)
            if size_changes and v in expanding:
                c["stale"] = True

    def check_attrs(self):
        for key, node in self.nodes.items():
            got = list(node.attributes.keys())
            want = [TKEYS[k] for k in self.cur[key]]
            if got != want:
                self.fail("attr-keys", f"attribute keys of node {key} are {got}, expected {want}")

    def drain(self, k, bound):
        c = self.its[k]
        stream, res = [], None
        for _ in range(bound):
            out, got = self.next(k, record=False)
            stream += out
            if got in (STOP, RAISED):
                res = got
                break
        else:
            res = "no-termination"
            self.fail("no-termination", f"recursive iterator {k} still yields after {bound} steps without edits")
        self.req["ops"].append({"o": "drain", "k": k})
        self.real.append({"out": stream, "r": res})
        return stream, res

    def spec(self, rev):
        """No edits: a fresh iterator run to its end.  Under tree shape every node of the nest is yielded exactly once
        (C11_trav_nodup); the clause is evaluated on the real stream."""
        from onnx_ir import traversal

        ev, kw = [], {}
        if self.pred_false is not None:
            def pred(n):
                g, i = self.ident[id(n)]
                ev.append(["p", nid(g, i)])
                return i not in self.pred_false.get(g, ())
            kw["recursive"] = pred
        it = traversal.RecursiveGraphIterator(
            self.graphs[0], reverse=rev, enter_graph=lambda g: ev.append(["en", self.gid[id(g)]]),
            exit_graph=lambda g: ev.append(["ex", self.gid[id(g)]]), **kw)
        stream, res = [], None
        total = sum(len(l) for l in self.L)
        for _ in range((self.ngraphs + 1) * (total + 2) * 3 + 3):
            del ev[:]
            try:
                n = guarded_next(it)
                g, i = self.ident[id(n)]
                stream += list(ev) + [["y", g, nid(g, i)]]
            except StopIteration:
                stream += list(ev)
                res = STOP
                break
            except Exception as e:  # noqa: BLE001
                stream += list(ev)
                res = RAISED
                self.fail("spec-raised", f"fresh iterator: {type(e).__name__}: {e}")
                break
        tree = self.tree_shape()
        ys = [o[2] for o in stream if o[0] == "y"]
        nest = sorted(set(self.walk(rev)))
        if tree and (len(set(ys)) != len(ys) or sorted(ys) != nest):
            self.fail("tree-exactly-once", f"tree-shaped nest, no edits: fresh iterator (reverse={rev}) yielded {ys}; the nodes of the "
                                           f"nest are {nest}")
        if ys != self.walk(rev):
            self.fail("preorder", f"fresh iterator (reverse={rev}) yielded {ys}, pre-order walk {self.walk(rev)}")
        self.part.count(f"trav-spec-tree={tree}")
        real = {"out": stream, "r": res, "tree": tree, "same": True, "nest": nest}
        if tree:
            real.update(nodup=True, isnest=True)
        self.req["ops"].append({"o": "spec", "rev": rev, "g": 0})
        self.real.append(real)

    def untouched(self, k):
        """C11_trav_untouched_once / C11_trav_never_twice for iterator k: X = every node named by an edit of a node sequence since
        the iterator was created, plus everything nested below such a node.  Hypotheses and conclusion are evaluated by the
        driver; the clause ('never yields a node twice unless it - or a node it is nested below - was removed and inserted
        again') is evaluated here on what the real iterator yielded."""
        c = self.its[k]
        X = set(c["touched"])
        for v in list(X):
            X |= self.static_below(v)
        real = {"Y": list(c["yields"])}
        plain = c["attr_calls"] == 0 and not c["cyc"]
        if plain:
            real.update(adm=True, concl=True, tree0=c["tree0"], closed0=True)
            outside = [y for y in c["yields"] if y not in X]
            if c["tree0"]:
                real["nodupX"] = True
                if len(set(outside)) != len(outside):
                    self.fail("untouched-twice", f"iterator {k} yielded {c['yields']}: a node outside X={sorted(X)} (touched nodes and "
                                                 "what is nested below them) was yielded twice")
                want = [y for y in c["walk0"] if y not in X]
                if c["done"] and outside != want:
                    self.fail("untouched-once-in-order", f"iterator {k} ran to its end and yielded {c['yields']}; outside X={sorted(X)} "
                                                         f"that is {outside}, the initial pre-order gives {want}")
        self.part.count(f"untouched-plain={plain}")
        if plain:
            self.part.count(f"untouched-tree0={c['tree0']}")
        self.req["ops"].append({"o": "untouched", "k": k, "X": sorted(X)})
        self.real.append(real)

    def pack(self):
        return {"req": self.req, "real": self.real, "case": self.case}


def trav_history(rng, part, nops, tag=None, attr_edits=True):
    state = rng.getstate()

    def run(confirm):
        rng.setstate(state)
        try:
            return _trav_history(rng, part, nops, tag, confirm, attr_edits)
        except _HangConfirmed:
            return {"aborted": True}

    return run_confirmed(run)


def _trav_history(rng, part, nops, tag, confirm, attr_edits=True):
    """Nested graphs; next() on RecursiveGraphIterator interleaved with edits of node sequences AND of node attributes
    (add / replace / delete GRAPH, GRAPHS and other attributes through __setitem__, add, update, del, pop, clear) on
    nodes before, at and after the position of the iterators, including the nodes whose subgraphs are being visited."""
    ngraphs = rng.randrange(3, 7)
    attr0 = {}
    nattached = rng.randrange(1, ngraphs)
    for g in range(1, nattached + 1):
        key = (rng.randrange(g), rng.randrange(PER))
        spec = attr0.setdefault(key, [])
        free = [k for k in range(4) if k not in [x[0] for x in spec]]
        if not free:
            continue
        spec.append((rng.choice(free), ("g", g) if rng.random() < 0.6 else ("gs", [g])))
    for g in range(ngraphs):
        for i in range(PER):
            r = rng.random()
            if r < 0.2:
                attr0.setdefault((g, i), []).insert(0, (4, ("x",)))
            elif r < 0.3:
                attr0.setdefault((g, i), []).append((5, ("ref",)))
    pred_false = None
    if rng.random() < 0.3:
        pred_false = {g: {i for i in range(PER) if rng.random() < 0.3} for g in range(ngraphs)}
    inits = [list(range(rng.randrange(1, 4))) for _ in range(ngraphs)]
    case = {"trav_seed": tag, "nops": nops}
    if not attr_edits:
        case["plain"] = True
    tw = TravWorld(part, confirm, ngraphs, PER, inits, attr0, pred_false, case,
                   sigprefix="recursive-attr" if attr_edits else "recursive-untouched")
    cyc_steps = None
    for _ in range(nops):
        if cyc_steps is not None:
            # a graph is nested in itself: a few more next() calls (they all yield), then the history ends
            if cyc_steps == 0 or not tw.its:
                break
            cyc_steps -= 1
            k = rng.randrange(len(tw.its))
            if not tw.its[k]["done"]:
                tw.next(k)
            continue
        r = rng.random()
        if not tw.its or (len(tw.its) < 3 and r < 0.07):
            tw.new_iter(rng.random() < 0.4, rng.choice(["plain", "plain", "reversed"]))
        elif r < 0.45:
            k = rng.randrange(len(tw.its))
            tw.next(k)
        elif r < 0.6 or not attr_edits:
            g = rng.randrange(ngraphs)
            if not attr_edits and tw.its and rng.random() < 0.6:
                # where an iterator is: the graphs of its stack (moves of the current node / of a node being expanded)
                stack_, _e, _c = tw.position(rng.randrange(len(tw.its)))
                if stack_:
                    g = rng.choice(stack_)
            L = tw.L[g]
            kind = rng.choice(["rm", "append", "ia", "ib"])
            if kind == "rm" and L:
                x = rng.choice(L)
                tw.node_edit(g, {"o": "rm", "v": nid(g, x)}, lambda: tw.graphs[g].remove(tw.nodes[(g, x)]), lambda: None)
            elif kind == "append":
                x = rng.randrange(PER)
                tw.node_edit(g, {"o": "append", "v": nid(g, x)}, lambda: tw.graphs[g].append(tw.nodes[(g, x)]), lambda: None)
            elif L:
                a, x = rng.choice(L), rng.randrange(PER)
                fn = tw.graphs[g].insert_after if kind == "ia" else tw.graphs[g].insert_before
                tw.node_edit(g, {"o": kind, "a": nid(g, a), "vs": [nid(g, x)]}, lambda: fn(tw.nodes[(g, a)], [tw.nodes[(g, x)]]),
                             lambda: None)
        else:
            # attribute edit; the node is chosen relative to an iterator
            where = rng.choice(["current", "expanding", "expanding", "later", "earlier", "any"])
            key = None
            live = [k for k, c in enumerate(tw.its) if not c["done"]]
            if live and where != "any":
                k = rng.choice(live)
                stack, expanding, current = tw.position(k)
                if where == "current" and current is not None:
                    key = divmod(current, 10)
                elif where == "expanding" and expanding:
                    v = rng.choice([e for e in expanding if e is not None] or [None])
                    key = divmod(v, 10) if v is not None else None
                elif stack:
                    g = rng.choice(stack)
                    seen = {v for v in tw.its[k]["yields"] if v // 10 == g}
                    pool = [i for i in tw.L[g] if (nid(g, i) in seen) == (where == "earlier")]
                    if pool:
                        key = (g, rng.choice(pool))
            if key is None:
                key = (rng.randrange(ngraphs), rng.randrange(PER))
            have = list(tw.cur[key])
            att = tw.attached()
            free = [h for h in range(1, ngraphs) if h not in att]
            part.count("attr-edit-where=" + where)

            def below(h, seen=None):
                seen = set() if seen is None else seen
                if h not in seen:
                    seen.add(h)
                    for i in range(PER):  # members or not: a node may be (re)inserted later
                        for a in tw.cur[(h, i)].values():
                            for h2 in _aval_graphs(a):
                                below(h2, seen)
                return seen

            safe = [h for h in range(1, ngraphs) if key[0] not in below(h)]  # attaching h here creates no cycle

            def some_aval():
                q = rng.random()
                # mostly a free graph (the nesting stays a tree); sometimes a shared subgraph; rarely a cycle
                pool = [h for h in free if h in safe] if q < 0.9 else (safe if q < 0.985 else list(range(ngraphs)))
                if not pool:
                    return rng.choice([("x",), ("gs", [])])
                if rng.random() < 0.08:
                    return ("x",) if rng.random() < 0.5 else ("ref",)
                if rng.random() < 0.55:
                    return ("g", rng.choice(pool))
                return ("gs", [rng.choice(pool) for _ in range(rng.choice([0, 1, 2, 2]))])

            def maybe_bad(av):
                return None if rng.random() < 0.06 else av

            q = rng.random()
            if q < 0.4 or not have:
                newk = [k for k in range(4) if k not in have]
                if newk:
                    how = rng.choice(["setitem", "add", "update", "update", "setdefault"])
                    if how == "update":
                        ks = rng.sample(range(4), rng.choice([1, 1, 2, 3]))  # new and existing keys, several at once
                        form = rng.choice(["mapping", "pairs"])
                        if form == "pairs" and rng.random() < 0.3:
                            ks.append(rng.choice(ks))  # the same key twice
                        tw.meth(key, "update", kvs=[(k_, maybe_bad(some_aval())) for k_ in ks], form=form)
                    elif how == "add":
                        tw.meth(key, "add", k=rng.choice(newk), aval=some_aval())
                    else:
                        tw.meth(key, how, k=rng.choice(newk), aval=maybe_bad(some_aval()))
                    part.count("attr-edit=add")
            elif q < 0.7:
                how = rng.choice(["setitem", "add", "update", "setdefault"])
                if how == "update":
                    tw.meth(key, "update", kvs=[(rng.choice(have), maybe_bad(some_aval()))], form=rng.choice(["mapping", "pairs"]))
                elif how == "add":
                    tw.meth(key, "add", k=rng.choice(have), aval=some_aval())
                else:
                    tw.meth(key, how, k=rng.choice(have), aval=maybe_bad(some_aval()))  # setdefault on a present key: nothing
                part.count("attr-edit=replace")
            elif q < 0.95:
                k_ = rng.choice(have) if rng.random() < 0.9 else rng.randrange(4)
                how = rng.choice(["delitem", "pop", "pop-default", "popitem"])
                if how == "popitem":
                    tw.meth(key, "popitem")
                elif how == "delitem":
                    tw.meth(key, "delitem", k=k_)
                else:
                    tw.meth(key, "pop", k=k_, dflt=(how == "pop-default"))
                part.count("attr-edit=delete")
            else:
                tw.meth(key, "clear")
                part.count("attr-edit=clear")
            if tw.cyclic():
                cyc_steps = 12
                part.count("nesting=cyclic")
    tw.check_attrs()
    cyc = tw.cyclic()
    shared = len(tw.attached()) != sum(len(_aval_graphs(a)) for spec in tw.cur.values() for a in spec.values())
    if not cyc:
        total = sum(len(l) for l in tw.L)
        bound = (ngraphs + 1) * (total + 2) * 3 + 3
        for k, c in enumerate(tw.its):
            if not c["done"]:
                tw.drain(k, bound)
        for k in range(len(tw.its)):
            tw.untouched(k)
        for rev in (False, True):
            tw.spec(rev)
    part.case(["trav", tag, nops, attr_edits], nontrivial=len(tw.its) > 0,
              kind="recursive-attr" if attr_edits else "recursive-untouched", ngraphs=ngraphs,
              acyclic=not cyc, tree_shape=(not cyc and not shared), predicate=pred_false is not None)
    p = tw.pack()
    p["cyclic"] = cyc
    return p


def _scenario_edits():
    """every single attribute edit of the exhaustive scenario family: [node, what] with what =
    ["set", key, aval] | ["del", key]"""
    out = []
    for key in [[0, 0], [0, 1], [0, 2], [1, 0], [1, 1]]:
        for aval in (["g", 2], ["gs", [2, 3]], ["gs", []], ["x"]):
            out.append([key, ["set", 1, aval]])      # a new key
        for aval in (["g", 2], ["gs", [3, 2]], ["x"]):
            out.append([key, ["set", 0, aval]])      # key a0: replaces the attribute of node (0, 1), new elsewhere
        out.append([key, ["del", 0]])
    return out


def trav_scenario(part, rev, kind0, steps, edit, confirm=False):
    """Exhaustive family: graph 0 = [n0, n1, n2], graph 1 = [n10, n11] under n1 (attribute a0, GRAPH or GRAPHS), graphs 2 =
    [n20, n21] and 3 = [n30] not attached.  The iterator is advanced `steps` times, then ONE attribute edit is made, then
    the iterator is run to its end.  The English clauses are evaluated from the iterator's own events."""
    attr0 = {(0, 1): [(0, ("g", 1) if kind0 == "g" else ("gs", [1]))]}
    inits = [[0, 1, 2], [0, 1], [0, 1], [0]]
    case = {"trav_scenario": {"rev": rev, "kind0": kind0, "steps": steps, "edit": edit}}
    tw = TravWorld(part, confirm, 4, PER, inits, attr0, None, case, sigprefix="recursive-attr-scenario")
    k = tw.new_iter(rev)
    for _ in range(steps):
        _o, got = tw.next(k)
        if got in (STOP, RAISED):
            break
    c = tw.its[k]
    stack, expanding, current = tw.position(k)
    before = list(c["yields"])
    key, what = tuple(edit[0]), edit[1]
    v = nid(*key)
    had = what[1] in tw.cur[key]
    old = tw.cur[key].get(what[1])
    if what[0] == "set":
        aval = tuple(what[2])
        tw.set_attr(key, what[1], aval)
        newg = _aval_graphs(aval)
    else:
        tw.del_attr(key, what[1])
        newg = []
    status = ("done-iterator" if c["done"] else "expanding" if v in expanding else "current" if v == current
              else "finished" if v in before else "future")
    stream, res = tw.drain(k, 60) if not c["done"] else ([], STOP)
    after = [o[2] for o in stream if o[0] == "y"]
    size_changed = (what[0] == "set" and not had) or (what[0] == "del" and had)
    # termination without error, unless the attribute dict of a node being expanded changed size
    if res == RAISED and not (status == "expanding" and size_changed):
        tw.fail("terminates", f"edit {edit} on a {status} node: the iterator ended with an exception")
    if res not in (STOP, RAISED):
        tw.fail("terminates", f"edit {edit} on a {status} node: {res}")
    members = {h: [nid(h, i) for i in inits[h]] for h in range(4)}
    for h in set(newg):
        nodes_h = members[h]
        cnt = [after.count(x) for x in nodes_h]
        if status in ("future", "current"):
            # "a subgraph attached to a node not yet yielded [or whose attributes have not been read] is visited"
            want = newg.count(h)
            if res == STOP and any(n_ != want for n_ in cnt):
                tw.fail("attached-later-visited", f"{edit}: graph {h} attached to the {status} node {v}: its nodes were yielded "
                                                  f"{cnt} times, expected {want}")
        elif status in ("finished", "done-iterator"):
            # "one attached to an already finished node is not"
            if any(cnt):
                tw.fail("attached-finished-skipped", f"{edit}: graph {h} attached to the finished node {v} was visited: {after}")
    if status == "expanding" and old is not None and v == 1 and len(stack) >= 2 and stack[1] == 1:
        # "a detached subgraph that is being iterated keeps being iterated to its end"
        seq = members[1][::-1] if rev else members[1]
        done1 = [x for x in before if x // 10 == 1]
        remaining = seq[len(done1):]
        if after[: len(remaining)] != remaining:
            tw.fail("detached-runs-to-end", f"{edit} while inside graph 1 (yielded {done1}): then {after}, expected first {remaining}")
    # "nothing is yielded twice unless shared" (the nesting stays a tree: graphs 2 and 3 were free)
    allv = before + after
    shared = len(newg) != len(set(newg))
    if not shared and len(set(allv)) != len(allv):
        tw.fail("yielded-twice", f"{edit} on a {status} node: yields {allv}")
    part.case(["trav-scenario", rev, kind0, steps, edit], nontrivial=True, kind="recursive-attr-scenario",
              status=status, result=str(res))
    part.count("scenario-edit=" + what[0] + ("-new" if what[0] == "set" and not had else "-replace" if what[0] == "set" else ""))
    p = tw.pack()
    p["cyclic"] = False
    return p


def compare_trav(ctx, packs):
    """`lset.trav` (Model/Traversal.lean) vs the real iterators; the decidable hypotheses of the theorems and the
    statement of C11_trav_frame_complete (`spec` = what remains, computed before draining) are evaluated by the driver."""
    packs = [p for p in packs if not p.get("aborted")]
    outs = _lean([p["req"] for p in packs])
    for p, out in zip(packs, outs):
        if "err" in out:
            ctx.disagree("recursive-attr: model driver error", p["case"], out, None)
            continue
        steps = out["steps"]
        for i, (m, r) in enumerate(zip(steps, p["real"])):
            bad = [k for k in r if m.get(k) != r[k]]
            if bad or m.get("inv") is False or m.get("ok") is False:
                ctx.disagree(f"recursive-attr model != implementation on {bad} at step {i} ({p['req']['ops'][i]})", p["case"],
                             {k: m.get(k) for k in bad + ["inv", "ok"]}, {k: r[k] for k in bad})
                break
            if m.get("ref") is not None or "ref" in m:
                # the statement of C11_trav_refines_rec_next / _drain (null: a dict iterator is out of step)
                ctx.count("trav-refines-evaluated=" + str(m.get("ref") is not None))
                if m.get("ref") is False:
                    ctx.disagree(f"model: the coarse recursive model (recNext / recDrain on toR) differs from the fine one at step {i}",
                                 p["case"], m, None)
                    break
            if "adm" in m:
                ctx.count("untouched-admissible=" + str(m.get("adm")))
                if not m.get("concl"):
                    ctx.disagree(f"model: conclusion of C11_trav_untouched_once false on an admissible history (step {i})",
                                 p["case"], m, None)
                    break
                if m.get("adm") and m.get("tree0") and not m.get("nodupX"):
                    ctx.disagree(f"model: a node outside X yielded twice on an admissible history from a tree-shaped nest (step {i})",
                                 p["case"], m, None)
                    break
            if "tree" in m and m.get("tree") and not (m.get("nodup") and m.get("isnest")):
                ctx.disagree(f"model: conclusion of C11_trav_nodup false at step {i}", p["case"], m, None)
                break
            if "fin" in m:
                # hypotheses / conclusion of C11_trav_finished_not_visited at this attribute edit, per iterator
                for f_ in m["fin"]:
                    ctx.count("attr-edit-node-finished=" + str(f_))
                if not m.get("finok"):
                    ctx.disagree(f"model: the remaining stream changed at step {i} although the edited node is finished",
                                 p["case"], m, None)
                    break
            if "spec" in m:
                ctx.count("trav-drain-synced=" + str(m.get("sync")))
                if m.get("sync") and m.get("acyc") and (m.get("r") != "stop" or m.get("spec") != m.get("out")):
                    ctx.disagree(f"model: tStackSpec != drain at step {i} although every dict iterator is in step", p["case"],
                                 {"spec": m.get("spec"), "out": m.get("out"), "r": m.get("r")}, None)
                    break
                if m.get("r") == "raised" and m.get("sync"):
                    ctx.disagree(f"model: raised at step {i} with every dict iterator in step", p["case"], m, None)
                    break
        if steps and steps[-1].get("acyc") == p.get("cyclic"):
            ctx.disagree("recursive-attr: the model's acyclic predicate differs from the harness' cycle search", p["case"],
                         steps[-1].get("acyc"), not p.get("cyclic"))


def _work_trav(job):
    seed, count = job[0], job[1]
    attr_edits = job[2] if len(job) > 2 else True
    part = Part()
    packs = []
    for i in range(count):
        tag = f"{seed}:{i}"
        rng = random.Random(tag)
        packs.append(trav_history(rng, part, rng.choice([10, 20, 40, 60]), tag, attr_edits))
    compare_trav(part, packs)
    return part, []


def _work_trav_scen(job):
    rev, kind0 = job
    part = Part()
    packs = []
    for steps in range(0, 7):
        for edit in _scenario_edits():
            def run(confirm, steps=steps, edit=edit):
                try:
                    return trav_scenario(part, rev, kind0, steps, edit, confirm)
                except _HangConfirmed:
                    return {"aborted": True}
            packs.append(run_confirmed(run))
    compare_trav(part, packs)
    return part, []


# ----------------------------------------------------------------------------- two containers, cross moves


def cross_history(kind, rng, part, nops, tag=None):
    """Two containers in one history (kind 'dls2': two DoublyLinkedSets over one pool of objects; 'graph2': two
    ir.Graphs over one pool of nodes) with plain iter()/reversed() generators on both, edits of either, and
    *cross moves*: `A.remove(n); B.append / insert_after / insert_before(.., n)` for nodes at / next to the
    positions of the generators parked in A and in B.  The model side is `lset.rec` with two node containers."""
    state = rng.getstate()

    def run(confirm):
        rng.setstate(state)
        try:
            return _cross_history(kind, rng, part, nops, tag, confirm)
        except _HangConfirmed:
            return {"aborted": True}

    return run_confirmed(run)


def _cross_history(kind, rng, part, nops, tag, confirm):
    import onnx_ir as ir
    from onnx_ir import _linked_list

    U = rng.choice([5, 6, 8])
    if kind == "dls2":
        objs = [_Obj(i) for i in range(U)]
        cs = [_linked_list.DoublyLinkedSet(), _linked_list.DoublyLinkedSet()]
    else:
        objs = [ir.Node("", "Op", inputs=[], num_outputs=1, name=f"n{i}") for i in range(U)]
        cs = [ir.Graph(inputs=[], outputs=[], nodes=[], name="A"), ir.Graph(inputs=[], outputs=[], nodes=[], name="B")]
    ident = {id(o): i for i, o in enumerate(objs)}
    refs = [Ref(), Ref()]
    ids = list(range(U))
    rng.shuffle(ids)
    cut = rng.randrange(0, U)
    inits = [ids[: cut // 2 + 1], ids[cut // 2 + 1: cut + 1]]
    log = [("init", inits)]
    for g in (0, 1):
        cs[g].extend([objs[i] for i in inits[g]])
        refs[g].extend(inits[g])
    req = {"m": "lset.rec", "sets": inits, "attrs": [], "recf": None, "ops": []}
    real = []
    curs = []  # dicts: g, d, it, ref, start, touched, yields, last, last_touched, expect, done
    case = {"log": log, "cross_seed": tag, "cross_kind": kind, "nops": nops}

    def fail(clause, what):
        sig = f"{kind}:{clause}"
        if sig in _SEEN_SIGS:
            return
        _SEEN_SIGS.add(sig)
        part.fail(sig, what, case)

    def mismatch(clause, what):
        part.disagree(f"{kind}:{clause}: {what}", case, "reference (harness.Ref)", "implementation")

    def lists():
        return [[ident[id(o)] for o in c] for c in cs]

    def after_edit(g, touched, removed=None, before=None):
        L = lists()
        if L != [refs[0].L, refs[1].L]:
            mismatch("sequence!=spec", f"containers {L}, reference {[refs[0].L, refs[1].L]}")
        for c in curs:
            if c["g"] != g or c["done"]:
                continue
            c["expect"] = None
            c["touched"] |= touched
            if c["last"] in touched:
                if c["last"] == removed and not c["last_touched"] and before is not None and removed in before:
                    i = before.index(removed)
                    if c["d"] == "f":
                        c["expect"] = before[i + 1] if i + 1 < len(before) else STOP
                    else:
                        c["expect"] = before[i - 1] if i > 0 else STOP
                c["last_touched"] = True
        return L

    def edit(g, e, call, refcall, touched, removed=None):
        before = lists()[g]
        try:
            call()
            ok = True
        except (ValueError, TypeError):
            ok = False
        want = refcall()
        log.append(("edit", g, e))
        req["ops"].append({"o": "edit", "g": g, "e": e})
        if ok != want:
            mismatch("raise-mismatch", f"{e} on container {g}: returned normally={ok}, reference {want}")
        L = after_edit(g, touched if ok else set(), removed if ok else None, before)
        eff = documented_effect(e, before)
        if eff is not None and (ok, L[g]) != eff:
            fail("edit-effect", f"{e} on {before}: returned normally={ok}, sequence {L[g]}; documented: {eff}")
        real.append({"r": ok, "L": L})
        return ok

    def near(g):
        """a node of container g at / next to a generator parked in g (else any node of g)"""
        L = refs[g].L
        cand = []
        for c in curs:
            if c["g"] == g and c["last"] in L:
                i = L.index(c["last"])
                cand += [L[j] for j in (i - 1, i, i, i + 1) if 0 <= j < len(L)]
        if cand and rng.random() < 0.8:
            return rng.choice(cand)
        return rng.choice(L) if L else None

    def step(k):
        c = curs[k]
        now = lists()[c["g"]]
        try:
            v = ident[id(guarded_next(c["it"]))]
        except StopIteration:
            v = STOP
        except _Hang:
            if not confirm:
                raise _HangAbort() from None
            fail("no-termination", f"next() used more than {CPU_BUDGET} s of CPU time, also in the re-execution")
            raise _HangConfirmed() from None
        except Exception as ex:  # noqa: BLE001
            v = RAISED
            fail("next-raised", f"{type(ex).__name__}: {ex}")
        want = refs[c["g"]].next(c["ref"])
        if v != RAISED and v != want:
            mismatch("yield!=spec", f"generator {k} on container {c['g']} yielded {v}, reference {want}")
        if v not in (STOP, RAISED):
            if v not in now:
                fail("yield-nonmember", f"generator {k} yielded {v}, not in its container {now}")
            c["yields"].append(v)
            c["last"], c["last_touched"] = v, False
        elif v == STOP:
            c["done"] = True
        if c["expect"] is not None and v != c["expect"]:
            fail("resume", f"generator {k} ({c['d']}) on container {c['g']}: its current node was moved to the other "
                           f"container / removed; expected to resume with {c['expect']}, got {v}")
        c["expect"] = None
        return v

    for _ in range(nops):
        r = rng.random()
        if not curs or (len(curs) < 4 and r < 0.1):
            g, d = rng.randrange(2), rng.choice("fr")
            it = iter(cs[g]) if d == "f" else reversed(cs[g])
            curs.append({"g": g, "d": d, "it": it, "ref": refs[g].new_cursor(d), "start": list(refs[g].L),
                         "touched": set(), "yields": [], "last": None, "last_touched": False, "expect": None,
                         "done": False})
            req["ops"].append({"o": "fiter", "g": g, "rev": d == "r"})
            real.append({"r": len(curs) - 1})
            log.append(("iter", g, d))
        elif r < 0.45:
            k = rng.randrange(len(curs))
            v = step(k)
            req["ops"].append({"o": "fnext", "k": k})
            real.append({"r": v})
            log.append(("next", k, v))
        elif r < 0.75:
            # cross move: out of container g, into the other one
            g = rng.randrange(2)
            x = near(g)
            if x is None:
                continue
            h = 1 - g
            before_g = list(refs[g].L)
            okr = edit(g, {"o": "rm", "v": x}, lambda: cs[g].remove(objs[x]), lambda: refs[g].remove(x), {x}, removed=x)
            if not okr:
                continue
            a = near(h)
            how = rng.choice(["append", "ia", "ib"]) if a is not None and a != x else "append"
            if how == "append":
                edit(h, {"o": "append", "v": x}, lambda: cs[h].append(objs[x]), lambda: (refs[h].append(x), True)[1], {x})
            elif how == "ia":
                edit(h, {"o": "ia", "a": a, "vs": [x]}, lambda: cs[h].insert_after(objs[a], [objs[x]]),
                     lambda: refs[h].insert_after(a, [x]), {x})
            else:
                edit(h, {"o": "ib", "a": a, "vs": [x]}, lambda: cs[h].insert_before(objs[a], [objs[x]]),
                     lambda: refs[h].insert_before(a, [x]), {x})
            part.count("cross-move=" + how)
            del before_g
        else:
            g = rng.randrange(2)
            free = [i for i in range(U) if i not in refs[0].L and i not in refs[1].L]
            here = refs[g].L
            what = rng.choice(["rm", "append", "ia", "ib"])
            x = near(g) if (what == "rm" or not free or rng.random() < 0.4) else rng.choice(free)
            if x is None:
                continue
            if what == "rm":
                edit(g, {"o": "rm", "v": x}, lambda: cs[g].remove(objs[x]), lambda: refs[g].remove(x),
                     {x}, removed=x)
            elif what == "append":
                edit(g, {"o": "append", "v": x}, lambda: cs[g].append(objs[x]), lambda: (refs[g].append(x), True)[1], {x})
            else:
                a = near(g)
                if a is None:
                    continue
                fn = cs[g].insert_after if what == "ia" else cs[g].insert_before
                rf = refs[g].insert_after if what == "ia" else refs[g].insert_before
                edit(g, {"o": what, "a": a, "vs": [x]}, lambda: fn(objs[a], [objs[x]]), lambda: rf(a, [x]),
                     {x} if (what == "ib" or x != a) else set())
    # edits have stopped
    final = lists()
    for k, c in enumerate(curs):
        rem = []
        for _ in range(len(final[c["g"]]) + 2):
            v = step(k)
            req["ops"].append({"o": "fnext", "k": k})
            real.append({"r": v})
            if v in (STOP, RAISED):
                break
            rem.append(v)
        else:
            fail("no-termination", f"generator {k} still yields after {len(final[c['g']]) + 2} steps without edits")
        F = final[c["g"]]
        want = F[len(F) - len(rem):] if c["d"] == "f" else F[: len(rem)][::-1]
        if rem != want:
            fail("remaining-in-graph-order", f"generator {k} ({c['d']}) yielded {rem} of the final sequence {F}")
        untouched = [x for x in c["start"] if x not in c["touched"]]
        seen = [x for x in c["yields"] if x not in c["touched"]]
        if seen != (untouched if c["d"] == "f" else untouched[::-1]):
            fail("untouched-once-in-order", f"generator {k} ({c['d']}) yielded untouched nodes {seen}, expected "
                                            f"{untouched if c['d'] == 'f' else untouched[::-1]}")
    part.case(["cross", kind, log], nontrivial=len(curs) > 0, kind=kind, cursors=min(len(curs), 4))
    return {"req": req, "real": real, "case": case}


# ----------------------------------------------------------------------------- workers


def _pack(h: Hist, tail=None):
    if h.aborted:  # stopped at a confirmed non-termination: nothing comparable step by step
        return None
    return {
        "req": {"m": "lset.run", "init": h.init, "ops": h.ops},
        "recs": h.recs,
        "ref_rests": h.ref_rests,
        "y0": getattr(h, "y0", None),
        "case": h.case_obj(),
        "failed": h.failed,
    }


def _work_random(job):
    kind, seed, count, quick = job
    part = Part()
    rng = random.Random(seed)
    out = []
    for _ in range(count):
        n0 = rng.choice([0, 1, 2, 3, 3, 4, 4, 5, 6])
        nops = rng.choice([6, 12, 20, 30, 45])
        universe = n0 + rng.choice([2, 3, 5])
        h, _tail = random_history(kind, rng, part, n0, nops, universe)
        if h.aborted:
            continue
        nedit = sum(1 for o in h.ops if o["o"] not in ("next", "iter", "get", "has", "len", "slice"))
        part.case([kind, h.init, h.ops], nontrivial=nedit > 0 and len(h.curs) > 0,
                  sample={"kind": kind, "init": h.init, "ops": h.ops[:12]},
                  kind=kind, cursors=len(h.curs), edits=min(nedit, 20) // 5 * 5, n0=n0)
        for o in h.ops:
            part.count("op=" + o["o"])
        out.append(_pack(h))
    compare(part, out)
    return part, []


def _work_recursive(job):
    seed, count = job
    part = Part()
    packs = []
    for i in range(count):
        tag = f"{seed}:{i}"
        rng = random.Random(tag)  # one PRNG per history so that a failing one can be replayed alone
        packs.append(recursive_history(rng, part, rng.choice([10, 20, 40]), tag))
    compare_rec(part, packs)
    return part, []


def _work_cross(job):
    kind, seed, count = job
    part = Part()
    packs = []
    for i in range(count):
        tag = f"{seed}:{i}"
        rng = random.Random(tag)
        packs.append(cross_history(kind, rng, part, rng.choice([10, 20, 40]), tag))
    compare_rec(part, packs)
    return part, []


def _work_small(job):
    kind, n0, universe, dirs, pre, depth = job
    part = Part()
    buf = []

    def sink(h):
        part.case([kind, h.init, dirs, pre, h.ops], nontrivial=True, kind=kind + "-small", n0=n0)
        buf.append(_pack(h))
        if len(buf) >= 4000:
            compare(part, buf)
            buf.clear()

    enumerate_small(kind, n0, universe, dirs, pre, depth, part, sink)
    compare(part, buf)
    return part, []


# ----------------------------------------------------------------------------- comparison


def compare(ctx, packs: list[dict]) -> None:
    """Model vs implementation on every step of every history (ctx: a Ctx or a worker's Part)."""
    packs = [p for p in packs if p is not None]
    outs = _lean([p["req"] for p in packs])
    for p, out in zip(packs, outs):
        if "err" in out:
            ctx.disagree("model driver error", p["case"], out, None)
            continue
        steps = out["steps"]
        h0 = out.get("hist0")
        if p.get("y0") is not None and (h0 is None or h0.get("y") != p["y0"] or not h0.get("ok")):
            ctx.disagree("runHist (model) != yields of iterator 0 (implementation)", p["case"], h0, p["y0"])
            continue
        if len(steps) != len(p["recs"]):
            ctx.disagree("step count", p["case"], len(steps), len(p["recs"]))
            continue
        for i, (m, r, rr) in enumerate(zip(steps, p["recs"], p["ref_rests"])):
            bad = [k for k in ("r", "L", "n", "f", "l", "R") if m.get(k) != r.get(k)]
            if bad:
                ctx.disagree(f"model != implementation on {bad} at step {i}", p["case"],
                             {k: m.get(k) for k in bad}, {k: r.get(k) for k in bad})
                break
            if m.get("rests") != rr:
                ctx.disagree(f"model rest != reference rest at step {i}", p["case"], m.get("rests"), rr)
                break
            if not m.get("abs") or not m.get("inv") or any(e != "stop" for e in m.get("ends", [])):
                ctx.disagree(f"model: refinement/invariant evaluates to false at step {i}", p["case"],
                             {"abs": m.get("abs"), "inv": m.get("inv"), "ends": m.get("ends")}, None)
                break


def selfnest_probe(ctx):
    """A graph nested in itself (the tree-shape predicate fails): the model never finishes (C11_rec_selfnest_diverges); the
    real iterator must not hang either way - every next() runs under the CPU guard.  Observed: the same nodes are yielded
    again and again until CPython's recursion limit ends the iteration with RecursionError."""
    import onnx_ir as ir
    from onnx_ir import traversal

    for shape in ("self", "two-cycle"):
        a = ir.Graph(inputs=[], outputs=[], name="a", nodes=[ir.Node("", "Op", inputs=[], num_outputs=1, name="a0")])
        b = ir.Graph(inputs=[], outputs=[], name="b", nodes=[ir.Node("", "Op", inputs=[], num_outputs=1, name="b0")])
        if shape == "self":
            a[0].attributes.add(ir.AttrGraph("a0", a))
            req = {"m": "lset.trav", "sets": [[0]], "attrs": [[0, [[0, {"g": 0}]]]], "recf": None, "ops": [{"o": "iter", "rev": False}]}
        else:
            a[0].attributes.add(ir.AttrGraph("a0", b))
            b[0].attributes.add(ir.AttrGraphs("a0", [a]))
            req = {"m": "lset.trav", "sets": [[0], [10]], "attrs": [[0, [[0, {"g": 1}]]], [10, [[0, {"gs": [0]}]]]], "recf": None,
                   "ops": [{"o": "iter", "rev": False}]}
        it = traversal.RecursiveGraphIterator(a)
        n, end = 0, None
        try:
            while n < 100000:
                guarded_next(it, 10.0)
                n += 1
        except StopIteration:
            end = "StopIteration"
        except _Hang:
            end = "hang"
        except RecursionError:
            end = "RecursionError"
        except Exception as e:  # noqa: BLE001
            end = type(e).__name__
        case = {"selfnest": shape}
        ctx.case(["selfnest", shape], nontrivial=True, kind="recursive-selfnest", selfnest_end=str(end))
        ctx.count(f"selfnest:{shape}:yields-before-end={n}")
        if end in ("hang", None):
            ctx.fail(f"recursive-selfnest:{shape}:no-termination",
                     f"RecursiveGraphIterator over a graph nested in itself ({shape}) neither ended nor raised: {end} after {n} yields", case)
        req["ops"] += [{"o": "next", "k": 0}] * 25
        out = _lean([req])[0]
        steps = out.get("steps", [])
        if "err" in out or any(s_.get("acyc") for s_ in steps) or any(not isinstance(s_.get("r"), int) for s_ in steps[1:]):
            ctx.disagree(f"selfnest ({shape}): the model's predicate is true or the model stops", case, out, None)


def run(ctx: Ctx) -> None:
    ctx.rule = (
        "a case = one history (initial sequence + interleaving of iterator steps and edits) on one container kind; "
        "non-trivial when it has >= 1 live iterator and >= 1 edit; distinct by (kind, init, ops). Exhaustive scopes "
        "enumerate every op sequence over the stated alphabet."
    )
    # corpus first
    for obj in load_corpus("C11"):
        replay(ctx, obj)
    for part, _ in pmap(_work_recursive, [(f"C11:{ctx.seed}:rec:{sh}", ctx.pick(60, 600)) for sh in range(16)]):
        ctx.merge(part)
    selfnest_probe(ctx)
    for part, _ in pmap(_work_trav, [(f"C11:{ctx.seed}:trav:{sh}", ctx.pick(60, 600)) for sh in range(16)]
                        + [(f"C11:{ctx.seed}:travu:{sh}", ctx.pick(40, 400), False) for sh in range(8)]):
        ctx.merge(part)
    for part, _ in pmap(_work_trav_scen, [(rev, kind0) for rev in (False, True) for kind0 in ("g", "gs")]):
        ctx.merge(part)
    ctx.exhaustive_scopes.append(
        "RecursiveGraphIterator with attribute edits: graph 0 = 3 nodes, graph 1 = 2 nodes under the middle node (GRAPH and "
        "GRAPHS attribute), two free graphs; forward and reverse; the iterator advanced 0..6 times; then every single "
        "attribute edit from {add a new key, replace / add key a0} x {GRAPH, GRAPHS of two, empty GRAPHS, non-graph} + "
        "{delete a0} on each of the 5 nodes; then run to the end")
    cjobs = [(kind, f"C11:{ctx.seed}:{kind}:{sh}", ctx.pick(40, 400)) for kind in ("dls2", "graph2") for sh in range(8)]
    for part, _ in pmap(_work_cross, cjobs):
        ctx.merge(part)
    jobs = []
    per = ctx.pick(40, 400)
    nshards = ctx.pick(16, 48)
    for kind in ("dls", "graph", "function"):
        for sh in range(nshards if kind != "function" else nshards // 2):
            jobs.append((kind, f"C11:{ctx.seed}:{kind}:{sh}", per, ctx.quick))
    for part, _ in pmap(_work_random, jobs):
        ctx.merge(part)
    # exhaustive small scope
    sjobs = []
    for kind in ("dls", "graph", "function"):
        for n0 in range(0, 4):
            for dirs in ("ff", "fr", "rr"):
                for pre in itertools.product(range(0, n0 + 1), repeat=2):
                    if kind != "dls" and (n0 < 3 or dirs != "fr"):
                        continue
                    if kind == "function" and sum(pre) > 3:
                        continue
                    deep = n0 < 3 or dirs == "fr"
                    if kind != "dls" and sum(pre) > 4:
                        deep = False
                    if kind == "function":
                        deep = False
                    depth = 2 if ctx.quick or not deep else 3
                    if ctx.quick and kind == "dls" and (n0 <= 1 or (n0 == 2 and dirs == "fr" and pre[0] == pre[1])):
                        depth = 3  # the quick tier reaches 3 operations on the smallest scopes
                    sjobs.append((kind, n0, n0 + 1, dirs, list(pre), depth))
    sjobs.sort(key=lambda j: -j[5] * 10 - j[1])  # long jobs first
    for part, _ in pmap(_work_small, sjobs):
        ctx.merge(part)
    ctx.exhaustive_scopes.append(
        "DoublyLinkedSet: every sequence of <= 2 operations (quick: <= 3 for initial sequences of <= 1 node and, for 2 "
        "nodes, for the direction pair fr with both cursors pre-advanced equally; thorough: <= 3 for initial sequences of <= 2 nodes and, "
        "for 3 nodes, for the direction pair fr) from {next(c0), next(c1), remove x, append x, insert_after(a,[x]), "
        "insert_before(a,[x]), sort (bare container: the re-append of every arrangement of the present nodes)} (x over the initial nodes + 1 fresh node, a over the present nodes) on every initial "
        "sequence of <= 3 nodes with 2 cursors in every direction pair (ff, fr, rr), each pre-advanced by every count "
        "0..n; ir.Graph: the same for n = 3, direction pair fr (thorough: <= 3 operations when the pre-advance counts "
        "sum to <= 4); ir.Function: n = 3, direction pair fr, pre-advance counts summing to <= 3, <= 2 operations"
    )


def replay(ctx: Ctx, obj: dict) -> None:
    case = obj.get("case", obj)
    if case.get("rec_seed"):
        part = Part()
        rng = random.Random(case["rec_seed"])
        rng.choice([10, 20, 40])  # same draw as the worker made before the history
        pack = recursive_history(rng, part, case["nops"], case["rec_seed"])
        ctx.merge(part)
        compare_rec(ctx, [pack])
        return
    if case.get("trav_seed"):
        part = Part()
        rng = random.Random(case["trav_seed"])
        rng.choice([10, 20, 40, 60])
        pack = trav_history(rng, part, case["nops"], case["trav_seed"], not case.get("plain"))
        ctx.merge(part)
        compare_trav(ctx, [pack])
        return
    if case.get("trav_scenario"):
        part = Part()
        sc = case["trav_scenario"]
        pack = trav_scenario(part, sc["rev"], sc["kind0"], sc["steps"], sc["edit"])
        ctx.merge(part)
        compare_trav(ctx, [pack])
        return
    if case.get("cross_seed"):
        part = Part()
        rng = random.Random(case["cross_seed"])
        rng.choice([10, 20, 40])
        pack = cross_history(case["cross_kind"], rng, part, case["nops"], case["cross_seed"])
        ctx.merge(part)
        compare_rec(ctx, [pack])
        return
    if "ops" not in case:
        return
    part = Part()
    h = run_explicit(case.get("kind", "dls"), case["init"], case.get("universe", 12), "", [], case["ops"], part,
                     light=False)
    part.case(["replay", case], nontrivial=True, kind="replay")
    ctx.merge(part)
    compare(ctx, [_pack(h)])

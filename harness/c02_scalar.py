"""C02, typed scalar level: dimensions / shapes and INT / FLOAT / STRING attributes with every field typed
(model `lean/IrVerif/Model/SerdeScalar.lean`, driver ops `serdescalar.*`, lemmas `Lemmas/SerdeScalar.lean`).

What `harness/c02.py` does "by construction of the rendering" (unbounded JSON ints for int64 fields, float32 <->
double conversion and UTF-8 decoding inside the renderer) is here part of the model and compared with the real
code on every run:

* des direction (the direction of C02): a real proto is built from typed fields (`dim_value` any int64, `dim_param`
  any string incl. the empty one, `denotation` with presence; `i` any int64; `f` any float32 BIT PATTERN, set through
  the wire format; `s` any bytes), `onnx_ir.serde.from_proto` / `deserialize_*` gives the IR object, `to_proto` /
  `serialize_*_into` the proto again.  IR object and result proto are rendered to typed fields and compared with the
  model; the oracle (independent of the model) requires the same typed fields / the same bits / the same bytes,
  up to the documented normalisations (present-but-empty `denotation` / `doc_string` becomes absent, an absent
  payload field becomes present with its default, a signalling NaN gets the quiet bit).
* ser direction: IR objects that did not come from a proto (`ir.Shape([2**63])`, `ir.AttrInt64("a", 2**64)`,
  `ir.AttrFloat32("a", 1e39)`, `ir.AttrString("a", "\\udc80")`): ok / raised (root cause type) and the stored fields
  are compared with the checked serializers of the model; the oracle checks "raises iff outside int64 / lone
  surrogate" and IR -> proto -> IR.
* bulk: `f32ToF64` on an exhaustive scope of float32 patterns and `f64ToF32` on the doubles around every one of them
  (exact, +-1 ulp, the halfway points and their neighbours) against protobuf's own conversion; UTF-8 decoding of
  byte strings against CPython and against the renderer `r_bstr` of harness/c02.py.

JSON conventions: see `lean/IrVerif/Drive/SerdeScalar.lean` (big ints and double bit patterns as decimal strings,
float32 bit patterns as numbers, bytes as hex, str as code point arrays, floats never as JSON floats).
"""
from __future__ import annotations

import logging
import struct

import onnx
from onnx import AttributeProto, TensorShapeProto, TypeProto, ValueInfoProto

from harness.common import Ctx, lean_batch_parallel

logging.getLogger("onnx_ir").setLevel(logging.CRITICAL)

NS = "IrVerif.Serde."
THEOREMS_SCALAR = [
    NS + n
    for n in (
        "C02_dim_fields",
        "C02_shape_fields",
        "C02_attr_scalar_fields",
        "C02_float32_widen_narrow",
        "C02_float32_representable",
        "C02_float32_rounding_partial",
        "C02_utf8_roundtrip",
    )
]

INT64_MIN, INT64_MAX = -(2**63), 2**63 - 1
Dimension = TensorShapeProto.Dimension


# --------------------------------------------------------------------------- bit patterns


def f64_of_bits(bits: int) -> float:
    return struct.unpack("<d", struct.pack("<Q", bits))[0]


def bits_of_f64(x: float) -> int:
    return struct.unpack("<Q", struct.pack("<d", x))[0]


def attr_with_f_bits(bits: int) -> AttributeProto:
    """AttributeProto whose `f` holds exactly this float32 bit pattern (through the wire format: field 2, fixed32)."""
    p = AttributeProto()
    p.ParseFromString(b"\x15" + struct.pack("<I", bits))
    return p


def f_bits_of_attr(p: AttributeProto) -> int | None:
    """The float32 bit pattern stored in `p.f` (None when absent), read from the wire format."""
    if not p.HasField("f"):
        return None
    q = AttributeProto()
    q.f = 0.0
    q.MergeFrom(p)
    for fd, _ in q.ListFields():
        if fd.name != "f":
            q.ClearField(fd.name)
    s = q.SerializeToString()
    assert len(s) == 5 and s[0] == 0x15, s
    return struct.unpack("<I", s[1:5])[0]


def pb_narrow(bits64: int) -> int:
    """protobuf's own double -> float32 (`msg.f = x`), as bit patterns"""
    p = AttributeProto()
    p.f = f64_of_bits(bits64)
    return struct.unpack("<I", p.SerializeToString()[1:5])[0]


def pb_widen(bits32: int) -> int:
    """protobuf's own float32 -> Python float (`msg.f`), as bit patterns"""
    return bits_of_f64(attr_with_f_bits(bits32).f)


def cls32(b: int) -> str:
    e, m = (b >> 23) & 255, b & 0x7FFFFF
    if e == 255:
        return "inf" if m == 0 else ("qnan" if m >= 2**22 else "snan")
    if e == 0:
        return "zero" if m == 0 else "subnormal"
    return "normal"


def cls64(x: int) -> str:
    """class of a double with respect to the float32 grid (histogram only)"""
    e, m = (x >> 52) & 2047, x & (2**52 - 1)
    if e == 2047:
        return "inf" if m == 0 else "nan"
    if e == 0:
        return "zero" if m == 0 else "sub64"
    if e >= 897:
        low = m & (2**29 - 1)
        if e > 1150 or (e == 1150 and m >= 0xFFFFFF0000000):
            return "overflow"
        return "exact" if low == 0 else ("tie" if low == 2**28 else "inexact")
    if e < 873:
        return "underflow0"
    sh = 926 - e
    low = (2**52 + m) & (2**sh - 1)
    return "sub_exact" if low == 0 else ("sub_tie" if low == 2 ** (sh - 1) else "sub_inexact")


# --------------------------------------------------------------------------- rendering (typed fields)


def r_dimval_typed(d, a="dim_value", b="dim_param"):
    w = d.WhichOneof("value")
    if w is None:
        return None
    if w == a:
        return {"v": str(getattr(d, a))}
    return {"p": getattr(d, b)}


def r_dim_typed(d) -> dict:
    return {"d": r_dimval_typed(d), "den": d.denotation if d.HasField("denotation") else None}


def mk_dim(x: dict, d=None):
    d = Dimension() if d is None else d
    if x["d"] is not None:
        if "v" in x["d"]:
            d.dim_value = int(x["d"]["v"])
        else:
            d.dim_param = x["d"]["p"]
    if x["den"] is not None:
        d.denotation = x["den"]
    return d


def r_irdim(dim, den) -> dict:
    import onnx_ir as ir

    if isinstance(dim, int) and not isinstance(dim, bool):
        d = {"v": str(dim)}
    elif isinstance(dim, ir.SymbolicDim):
        d = None if dim.value is None else {"p": dim.value}
    else:
        raise TypeError(f"unexpected IR dimension {dim!r}")
    if den is not None and not isinstance(den, str):
        raise TypeError(f"unexpected denotation {den!r}")
    return {"d": d, "den": den}


def r_irshape(sh) -> list:
    return [r_irdim(sh[i], sh.get_denotation(i)) for i in range(len(sh))]


def mk_irdim(x: dict):
    import onnx_ir as ir

    if x["d"] is None:
        return ir.SymbolicDim(None)
    if "v" in x["d"]:
        return int(x["d"]["v"])
    return ir.SymbolicDim(x["d"]["p"])


_KIND_TYPE = {"int": AttributeProto.INT, "float": AttributeProto.FLOAT, "string": AttributeProto.STRING}
_KIND_FIELD = {"int": "i", "float": "f", "string": "s"}


def mk_attr(x: dict) -> AttributeProto:
    k = x["k"]
    if k == "float" and x["v"] is not None:
        p = attr_with_f_bits(x["v"])
    else:
        p = AttributeProto()
        if x["v"] is not None:
            if k == "int":
                p.i = int(x["v"])
            else:
                p.s = bytes.fromhex(x["v"])
    p.name = x["name"]
    if x["doc"] is not None:
        p.doc_string = x["doc"]
    p.type = _KIND_TYPE[k]
    return p


def r_attr_typed(p: AttributeProto, k: str) -> dict:
    """name, doc_string (presence), and the payload field of kind `k` (presence); any other populated field is an error"""
    allowed = {"name", "doc_string", "type", _KIND_FIELD[k]}
    extra = [fd.name for fd, _ in p.ListFields() if fd.name not in allowed]
    if extra or p.type != _KIND_TYPE[k]:
        raise AssertionError(f"unexpected fields {extra} / type {p.type} in a {k} attribute")
    if k == "int":
        v = str(p.i) if p.HasField("i") else None
    elif k == "float":
        v = f_bits_of_attr(p)
    else:
        v = p.s.hex() if p.HasField("s") else None
    return {"name": p.name, "doc": p.doc_string if p.HasField("doc_string") else None, "k": k, "v": v}


def r_irattr(a, k: str) -> dict:
    import onnx_ir as ir

    want = {"int": ir.AttributeType.INT, "float": ir.AttributeType.FLOAT, "string": ir.AttributeType.STRING}[k]
    if a.type != want:
        raise AssertionError(f"attribute type {a.type}")
    v = a.value
    if k == "int":
        if type(v) is not int:
            raise AssertionError(f"INT value of type {type(v).__name__}")
        rv = str(v)
    elif k == "float":
        if type(v) is not float:
            raise AssertionError(f"FLOAT value of type {type(v).__name__}")
        rv = str(bits_of_f64(v))
    else:
        if type(v) is str:
            rv = {"str": [ord(c) for c in v]}
        elif type(v) is bytes:
            rv = {"bytes": v.hex()}
        else:
            raise AssertionError(f"STRING value of type {type(v).__name__}")
    return {"name": a.name, "doc": a.doc_string, "k": k, "v": rv}


def mk_irattr(x: dict):
    import onnx_ir as ir

    k, v = x["k"], x["v"]
    if k == "int":
        return ir.AttrInt64(x["name"], int(v), doc_string=x["doc"])
    if k == "float":
        return ir.AttrFloat32(x["name"], f64_of_bits(int(v)), doc_string=x["doc"])
    if "str" in v:
        return ir.AttrString(x["name"], "".join(chr(c) for c in v["str"]), doc_string=x["doc"])
    return ir.AttrString(x["name"], bytes.fromhex(v["bytes"]), doc_string=x["doc"])


def root_cause(e: BaseException) -> str:
    while e.__cause__ is not None:
        e = e.__cause__
    return type(e).__name__


def attempt(f):
    """(True, result) | (False, root cause type name)"""
    try:
        return True, f()
    except Exception as e:  # noqa: BLE001 - every exception of the real code is an outcome here
        return False, root_cause(e)


# --------------------------------------------------------------------------- the real code


def real_dim_des(x: dict) -> dict:
    from onnx_ir import serde

    d = mk_dim(x)
    dim, den = serde.deserialize_dimension(d)
    ir_r = r_irdim(dim, den)
    q = Dimension()
    ok, err = attempt(lambda: serde.serialize_dimension_into(q, dim, den))
    return {"ir": ir_r, "ok": ok, "err": "" if ok else err, "r": r_dim_typed(q) if ok else None,
            "bytes_equal": ok and q.SerializeToString() == d.SerializeToString(), "proto": d}


def _shape_via(entry: str, shape):
    """serialize an IR shape through one of the public entry points; returns the list of Dimension protos"""
    import onnx_ir as ir
    from onnx_ir import serde

    if entry == "value":
        p = serde.to_proto(ir.Value(name="v", type=ir.TensorType(ir.DataType.FLOAT), shape=shape))
        return list(p.type.tensor_type.shape.dim)
    if entry == "tp_attr":
        p = serde.to_proto(ir.AttrTypeProto("tp", ir.TypeAndShape(ir.SequenceType(ir.TensorType(ir.DataType.INT64)), shape)))
        return list(p.tp.sequence_type.elem_type.tensor_type.shape.dim)
    tp = TypeProto()
    tp.sparse_tensor_type.elem_type = 1
    serde.serialize_shape_into(tp, shape)
    return list(tp.sparse_tensor_type.shape.dim)


def real_shape_des(xs: list, entry: str) -> dict:
    from onnx_ir import serde

    sp = TensorShapeProto()
    for x in xs:
        mk_dim(x, sp.dim.add())
    if entry == "value":
        vi = ValueInfoProto(name="v")
        vi.type.tensor_type.elem_type = 1
        vi.type.tensor_type.shape.CopyFrom(sp)
        shape = serde.from_proto(vi).shape
    elif entry == "tp_attr":
        a = AttributeProto(name="tp", type=AttributeProto.TYPE_PROTO)
        a.tp.sequence_type.elem_type.tensor_type.elem_type = 7
        a.tp.sequence_type.elem_type.tensor_type.shape.CopyFrom(sp)
        shape = serde.from_proto(a).value.shape
    else:
        shape = serde.from_proto(sp)
    ir_r = r_irshape(shape)
    ok, res = attempt(lambda: _shape_via(entry, shape))
    return {"ir": ir_r, "ok": ok, "err": "" if ok else res, "r": [r_dim_typed(d) for d in res] if ok else None,
            "proto": sp}


def real_shape_ser(xs: list, entry: str) -> dict:
    import onnx_ir as ir
    from onnx_ir import serde

    shape = ir.Shape([mk_irdim(x) for x in xs], denotations=[x["den"] for x in xs])
    given = r_irshape(shape)
    ok, res = attempt(lambda: _shape_via(entry, shape))
    back = None
    if ok:
        sp = TensorShapeProto()
        for d in res:
            sp.dim.add().CopyFrom(d)
        back = r_irshape(serde.from_proto(sp))
    return {"given": given, "ok": ok, "err": "" if ok else res, "r": [r_dim_typed(d) for d in res] if ok else None,
            "back": back}


def real_attr_des(x: dict) -> dict:
    from onnx_ir import serde

    p = mk_attr(x)
    a = serde.from_proto(p)
    ir_r = r_irattr(a, x["k"])
    ok, res = attempt(lambda: serde.to_proto(a))
    return {"ir": ir_r, "ok": ok, "err": "" if ok else res, "r": r_attr_typed(res, x["k"]) if ok else None, "proto": p}


def real_attr_ser(x: dict) -> dict:
    from onnx_ir import serde

    a = mk_irattr(x)
    given = r_irattr(a, x["k"])
    ok, res = attempt(lambda: serde.to_proto(a))
    back = r_irattr(serde.from_proto(res), x["k"]) if ok else None
    return {"given": given, "ok": ok, "err": "" if ok else res, "r": r_attr_typed(res, x["k"]) if ok else None,
            "back": back}


# --------------------------------------------------------------------------- generators

_INT_EDGES = [0, 1, -1, 2, 2**31 - 1, 2**31, -(2**31), 2**32, 2**53, 2**53 + 1, INT64_MAX - 1, INT64_MAX, INT64_MIN,
              INT64_MIN + 1]
_INT_OUT = [2**63, -(2**63) - 1, 2**64, 2**64 - 1, -(2**64), 2**63 + 1, 2**70, -(2**70), 10**30]
_STRS = ["", "N", "batch", "seq_len + 1", "DATA_BATCH", "DATA_CHANNEL", "héè", "批次", "\U0001F600",
         "a b", "0", "None", "\x00", "x" * 40]


def gen_int64(rng) -> int:
    k = rng.randrange(4)
    if k == 0:
        return rng.choice(_INT_EDGES)
    if k == 1:
        return rng.randrange(-8, 4096)
    return rng.getrandbits(64) - 2**63


def gen_pyint(rng) -> int:
    k = rng.randrange(6)
    if k == 0:
        return rng.choice(_INT_OUT)
    if k == 1:
        return rng.getrandbits(70) - 2**69
    if k == 2:
        return rng.choice([2**63, -(2**63) - 1]) + rng.choice([0, 1, -1, 2, -2])
    return gen_int64(rng)


def gen_str(rng) -> str:
    if rng.randrange(3):
        return rng.choice(_STRS)
    return "".join(chr(rng.choice([rng.randrange(32, 127), rng.randrange(0xA0, 0x800), rng.randrange(0x800, 0xD800),
                                   rng.randrange(0xE000, 0x10000), rng.randrange(0x10000, 0x110000)]))
                   for _ in range(rng.randrange(0, 6)))


def gen_den(rng):
    k = rng.randrange(5)
    if k == 0:
        return None
    if k == 1:
        return ""
    return gen_str(rng)


def gen_dim_typed(rng, pyint=False) -> dict:
    k = rng.randrange(4)
    if k == 0:
        d = None
    elif k == 1:
        d = {"p": "" if rng.randrange(4) == 0 else gen_str(rng)}
    else:
        d = {"v": str(gen_pyint(rng) if pyint else gen_int64(rng))}
    return {"d": d, "den": gen_den(rng)}


def dim_cls(x: dict) -> str:
    if x["d"] is None:
        return "unset"
    if "p" in x["d"]:
        return "param_empty" if x["d"]["p"] == "" else "param"
    v = int(x["d"]["v"])
    if v > INT64_MAX:
        return "above_int64"
    if v < INT64_MIN:
        return "below_int64"
    return "int64_edge" if v in (INT64_MAX, INT64_MIN) else "int64"


def den_cls(x) -> str:
    return "none" if x is None else ("empty" if x == "" else "set")


_F32_EDGES = [0x00000000, 0x80000000, 0x00000001, 0x80000001, 0x007FFFFF, 0x00400000, 0x00800000, 0x00800001,
              0x3F800000, 0x3DCCCCCD, 0x7F7FFFFF, 0xFF7FFFFF, 0x7F800000, 0xFF800000, 0x7FC00000, 0xFFC00000,
              0x7FC00001, 0x7FFFFFFF, 0xFFFFFFFF, 0x7F800001, 0x7FA00000, 0x7FBFFFFF, 0xFF800001, 0xFFBFFFFF]


def gen_f32(rng) -> int:
    k = rng.randrange(5)
    if k == 0:
        return rng.choice(_F32_EDGES)
    if k == 1:
        return rng.getrandbits(32)
    s = rng.getrandbits(1) << 31
    e = rng.choice([0, 0, 1, 2, 126, 127, 128, 253, 254, 255, 255, rng.randrange(256)])
    m = rng.choice([0, 1, 2, 0x3FFFFF, 0x400000, 0x400001, 0x7FFFFE, 0x7FFFFF, rng.getrandbits(23), 1 << rng.randrange(23)])
    return s | (e << 23) | m


def ref_widen(b: int) -> int:
    """reference widening (used only to BUILD interesting doubles; never as an expected value)"""
    return bits_of_f64(struct.unpack("<f", struct.pack("<I", b))[0])


_F64_EDGES = [0x47EFFFFFF0000000, 0x47EFFFFFEFFFFFFF, 0x47EFFFFFF0000001, 0x47EFFFFFE0000000, 0x47EFFFFFE0000001,
              0x47F0000000000000, 0x7FEFFFFFFFFFFFFF, 0x7FF0000000000000, 0xFFF0000000000000, 0x7FF8000000000000,
              0x7FF0000000000001, 0x7FF4000000000000, 0xFFF8000000000001, 0x7FF8000020000000, 0x7FF800001FFFFFFF,
              0x7FF0000020000000, 0x7FF000001FFFFFFF, 0x7FFFFFFFFFFFFFFF, 0x0000000000000000, 0x8000000000000000,
              0x0000000000000001, 0x000FFFFFFFFFFFFF, 0x0010000000000000, 0x3690000000000000, 0x3690000000000001,
              0x368FFFFFFFFFFFFF, 0x36A0000000000000, 0x36A8000000000000, 0x36B8000000000000, 0x380FFFFFFFFFFFFF,
              0x380FFFFFF0000000, 0x380FFFFFE0000000, 0x3810000000000000, 0x3FB999999999999A, 0x48078287F49C4A1D,
              0x358DEE7A4AD4B81F, 0x37A16C262777579C]


def gen_f64(rng) -> int:
    k = rng.randrange(8)
    if k == 0:
        return rng.choice(_F64_EDGES) ^ (rng.getrandbits(1) << 63)
    if k == 1:
        return rng.getrandbits(64)
    if k == 2:  # around a float32 value: exact, +-1, halfway, halfway +-1, quarter
        b = gen_f32(rng)
        x = ref_widen(b) & (2**64 - 1)
        return (x + rng.choice([0, 1, -1, 2**28, 2**28 + 1, 2**28 - 1, 2**27, 3 * 2**27, -(2**28), -(2**28) + 1])) % 2**64
    if k == 3:  # the float32 subnormal range and below: exponent fields 860..900
        e = rng.randrange(860, 900)
        m = rng.choice([0, 1, rng.getrandbits(52), (rng.getrandbits(23) << 29) | (1 << 28),
                        (rng.getrandbits(10) << 42) | (1 << 41), 1 << rng.randrange(52), (1 << rng.randrange(1, 53)) - 1])
        return (rng.getrandbits(1) << 63) | (e << 52) | m
    if k == 4:  # overflow threshold
        return ((0x47EFFFFFF0000000 + rng.randrange(-4, 5)) % 2**64) | (rng.getrandbits(1) << 63)
    if k == 5:  # NaNs and infinities
        return (rng.getrandbits(1) << 63) | (2047 << 52) | rng.choice([0, rng.getrandbits(52), rng.getrandbits(29),
                                                                       rng.getrandbits(23) << 29, 1 << rng.randrange(52)])
    if k == 6:  # Python-looking values
        return bits_of_f64(rng.choice([0.1, 0.5, 1.0, -2.5, 1e-3, 3.141592653589793, 1e10, 1e38, 1e39, -1e39, 1e-38,
                                       1e-45, 1e-46, 7e-46, 1.5e-45, 1e-50, 65504.0, 16777217.0, rng.random(),
                                       rng.uniform(-1e6, 1e6), rng.gauss(0, 1)]))
    return (rng.randrange(0, 2047) << 52) | rng.getrandbits(52) | (rng.getrandbits(1) << 63)


_BYTES_EDGES = [b"", b"abc", b"\x00", b"\x7f", b"\x80", b"\xbf", b"\xc0\x80", b"\xc1\xbf", b"\xc2\x80", b"\xdf\xbf", b"\xc2",
                b"\xc2\x7f", b"\xc2\xc0", b"\xe0\x80\x80", b"\xe0\x9f\xbf", b"\xe0\xa0\x80", b"\xed\x9f\xbf", b"\xed\xa0\x80",
                b"\xed\xbf\xbf", b"\xee\x80\x80", b"\xef\xbf\xbf", b"\xe2\x82", b"\xe2\x82\xac", b"\xf0\x80\x80\x80",
                b"\xf0\x8f\xbf\xbf", b"\xf0\x90\x80\x80", b"\xf4\x8f\xbf\xbf", b"\xf4\x90\x80\x80", b"\xf5\x80\x80\x80",
                b"\xf0\x9f\x98", b"\xf0\x9f\x98\x80", b"\xff", b"\xfe\xff", b"a\xc3\xa9b", b"\xf8\x88\x80\x80\x80",
                b"h\xc3\xa9llo \xf0\x9f\x98\x80", b"\xe2\x82\xac\xe2\x82\xac\xff"]


def gen_bytes(rng) -> bytes:
    k = rng.randrange(5)
    if k == 0:
        return rng.choice(_BYTES_EDGES)
    if k == 1:
        return gen_str(rng).encode("utf-8")
    if k == 2:  # valid text with one byte damaged / removed / inserted
        b = bytearray((gen_str(rng) + "é€\U0001F600").encode("utf-8"))
        i = rng.randrange(len(b))
        op = rng.randrange(3)
        if op == 0:
            b[i] = rng.randrange(256)
        elif op == 1:
            del b[i]
        else:
            b.insert(i, rng.choice([0x80, 0xBF, 0xC0, 0xE0, 0xED, 0xF0, 0xF4, 0xFF]))
        return bytes(b)
    if k == 3:  # lead byte + boundary continuation bytes
        lead = rng.choice([0xC1, 0xC2, 0xDF, 0xE0, 0xE1, 0xEC, 0xED, 0xEE, 0xEF, 0xF0, 0xF1, 0xF3, 0xF4, 0xF5])
        n = rng.randrange(0, 4)
        return bytes([lead] + [rng.choice([0x7F, 0x80, 0x8F, 0x90, 0x9F, 0xA0, 0xBF, 0xC0]) for _ in range(n)]) + \
            rng.choice([b"", b"z"])
    return bytes(rng.getrandbits(8) for _ in range(rng.randrange(0, 7)))


def bytes_cls(b: bytes) -> str:
    try:
        s = b.decode("utf-8")
    except UnicodeDecodeError:
        return "not_utf8"
    if not s:
        return "empty"
    m = max(ord(c) for c in s)
    return "ascii" if m < 0x80 else ("bmp" if m < 0x10000 else "astral")


def gen_pystr_cps(rng) -> list:
    cps = [ord(c) for c in gen_str(rng)]
    if rng.randrange(3) == 0:
        cps.insert(rng.randrange(len(cps) + 1), rng.choice([0xD800, 0xDBFF, 0xDC00, 0xDC80, 0xDFFF, rng.randrange(0xD800, 0xE000)]))
    if rng.randrange(4) == 0:
        cps.append(rng.choice([0x7F, 0x80, 0x7FF, 0x800, 0xD7FF, 0xE000, 0xFFFF, 0x10000, 0x10FFFF]))
    return cps


def gen_name_doc(rng):
    return rng.choice(["a", "axis", "alpha", "é", "value_float"]), rng.choice([None, None, "", "doc", "döc"])


# --------------------------------------------------------------------------- expected normalisations (oracle side)


def oracle_norm_opt(x):
    """present-but-empty optional string -> absent (`if denotation:` / `if from_.doc_string:`)"""
    return None if x in (None, "") else x


def quiet32_py(b: int) -> int:
    return b | 0x400000 if cls32(b) == "snan" else b


# --------------------------------------------------------------------------- run


def _cmp(ctx, what, case, model, impl):
    if model != impl:
        ctx.disagree(what, case, model=model, impl=impl)
        return False
    return True


def _check_flags(ctx, op, case, out, flags):
    for fl in flags:
        if out.get(fl) is not True:
            ctx.disagree(f"serdescalar.{op}: model flag {fl} is not true", case, model=out, impl=None)


def _exhaustive_f32() -> list:
    """all float32 patterns over both signs, all 256 exponent fields and a 4-bit mantissa subset (top 2 x bottom 2 bits)"""
    mans = [(hi << 21) | lo for hi in range(4) for lo in range(4)]
    return [(s << 31) | (e << 23) | m for s in (0, 1) for e in range(256) for m in mans]


def run_scalar(ctx: Ctx) -> None:
    rng = ctx.rng
    reqs, metas = [], []

    def add(req, **meta):
        reqs.append(req)
        metas.append(meta)

    n_dim = ctx.pick(500, 6000)
    n_shape = ctx.pick(250, 3000)
    n_attr = ctx.pick(500, 6000)
    n_bulk64 = ctx.pick(3000, 60000)

    # ---- dimensions
    for _ in range(n_dim):
        x = gen_dim_typed(rng)
        add({"m": "serdescalar.dim", "dir": "des", "x": x}, op="dim", dir="des", x=x)
    for _ in range(n_dim):
        x = gen_dim_typed(rng, pyint=True)
        if rng.randrange(2):
            add({"m": "serdescalar.dim", "dir": "ser", "x": x}, op="dim", dir="ser", x=x)
        else:
            add({"m": "serdescalar.shape", "dir": "ser", "x": [x]}, op="shape", dir="ser", x=[x],
                entry=rng.choice(["value", "tp_attr", "shape_into"]))
    # ---- shapes
    for _ in range(n_shape):
        xs = [gen_dim_typed(rng) for _ in range(rng.choice([0, 1, 2, 3, 4, 6]))]
        add({"m": "serdescalar.shape", "dir": "des", "x": xs}, op="shape", dir="des", x=xs,
            entry=rng.choice(["value", "tp_attr", "shape"]))
    for _ in range(n_shape):
        xs = [gen_dim_typed(rng, pyint=rng.randrange(3) == 0) for _ in range(rng.choice([0, 1, 2, 3, 4, 6]))]
        add({"m": "serdescalar.shape", "dir": "ser", "x": xs}, op="shape", dir="ser", x=xs,
            entry=rng.choice(["value", "tp_attr", "shape_into"]))
    # ---- attributes
    for _ in range(n_attr):
        name, doc = gen_name_doc(rng)
        k = rng.choice(["int", "float", "float", "string"])
        if rng.randrange(12) == 0:
            v = None
        elif k == "int":
            v = str(gen_int64(rng))
        elif k == "float":
            v = gen_f32(rng)
        else:
            v = gen_bytes(rng).hex()
        x = {"name": name, "doc": doc, "k": k, "v": v}
        add({"m": f"serdescalar.attr_{k}", "dir": "des", "x": x}, op=f"attr_{k}", dir="des", x=x)
    for _ in range(n_attr):
        name, doc = gen_name_doc(rng)
        k = rng.choice(["int", "float", "float", "string"])
        if k == "int":
            v = str(gen_pyint(rng))
        elif k == "float":
            v = str(gen_f64(rng))
        elif rng.randrange(5) == 0:
            v = {"bytes": gen_bytes(rng).hex()}
        else:
            v = {"str": gen_pystr_cps(rng)}
        x = {"name": name, "doc": doc, "k": k, "v": v}
        add({"m": f"serdescalar.attr_{k}", "dir": "ser", "x": x}, op=f"attr_{k}", dir="ser", x=x)
    # ---- bulk conversions: exhaustive float32 scope, the doubles around it, random doubles
    ex32 = _exhaustive_f32()
    CH = 2048
    for i in range(0, len(ex32), CH):
        add({"m": "serdescalar.f32_to_f64", "xs": ex32[i:i + CH]}, op="f32_to_f64", xs=ex32[i:i + CH], exhaustive=True)
    rnd32 = [gen_f32(rng) for _ in range(ctx.pick(2000, 40000))]
    for i in range(0, len(rnd32), CH):
        add({"m": "serdescalar.f32_to_f64", "xs": rnd32[i:i + CH]}, op="f32_to_f64", xs=rnd32[i:i + CH], exhaustive=False)
    around = []
    for b in ex32:
        if cls32(b) in ("qnan", "snan"):
            continue
        x = ref_widen(b)
        for dlt in (0, 1, -1, 2**28, 2**28 + 1, 2**28 - 1):
            y = x + dlt
            if 0 <= y < 2**64:
                around.append(y)
    if ctx.quick:  # the quick tier takes a deterministic third of the scope (rotating with the seed)
        around = around[ctx.seed % 3::3]
    bulk64 = around + [gen_f64(rng) for _ in range(n_bulk64)]
    for i in range(0, len(bulk64), CH):
        add({"m": "serdescalar.f64_to_f32", "xs": [str(v) for v in bulk64[i:i + CH]]}, op="f64_to_f32", xs=bulk64[i:i + CH])
    # ---- UTF-8: edges, random, and every 2-byte string over a boundary alphabet
    alpha = [0x00, 0x41, 0x7F, 0x80, 0x8F, 0x90, 0x9F, 0xA0, 0xBF, 0xC0, 0xC1, 0xC2, 0xDF, 0xE0, 0xE1, 0xEC, 0xED, 0xEE,
             0xEF, 0xF0, 0xF1, 0xF3, 0xF4, 0xF5, 0xFF]
    utf = list(_BYTES_EDGES) + [bytes([a]) for a in range(256)] + [bytes([a, b]) for a in alpha for b in alpha] + \
        [bytes([a, b, c]) for a in (0xE0, 0xE1, 0xED, 0xEE, 0xEF) for b in (0x7F, 0x80, 0x9F, 0xA0, 0xBF, 0xC0)
         for c in (0x7F, 0x80, 0xBF, 0xC0)] + \
        [bytes([a, b, 0x80, c]) for a in (0xF0, 0xF1, 0xF4, 0xF5) for b in (0x7F, 0x80, 0x8F, 0x90, 0xBF, 0xC0)
         for c in (0x7F, 0x80, 0xBF, 0xC0)] + [gen_bytes(rng) for _ in range(ctx.pick(1000, 20000))]
    for i in range(0, len(utf), CH):
        add({"m": "serdescalar.utf8", "xs": [b.hex() for b in utf[i:i + CH]]}, op="utf8", xs=utf[i:i + CH])
    ctx.exhaustive_scopes.append(
        f"scalar: f32ToF64 on all {len(ex32)} float32 patterns with sign x 256 exponent fields x 16 mantissas (top 2 / bottom 2 "
        f"bits); f64ToF32 on the doubles at / next to / halfway above each of them ({len(around)} this run"
        f"{', a third of the scope, rotating with the seed' if ctx.quick else ''}); utf8Dec on all 1-byte strings and all "
        f"2-byte strings over a {len(alpha)}-byte boundary alphabet")

    outs = lean_batch_parallel(reqs)
    from harness import c02 as _c02  # the trusted renderer whose decisions the model now reproduces

    for req, meta, out in zip(reqs, metas, outs):
        _dispatch(ctx, req, meta, out, _c02)


def replay_scalar(ctx: Ctx, case: dict) -> None:
    """re-run one recorded scalar case (`case` as stored by ctx.fail / ctx.disagree: {"op", "dir"?, "entry"?, "x"})"""
    from harness import c02 as _c02
    op = case["op"]
    if op == "f32_to_f64":
        req, meta = {"m": "serdescalar.f32_to_f64", "xs": [case["x"]]}, {"op": op, "xs": [case["x"]], "exhaustive": False}
    elif op == "f64_to_f32":
        req, meta = {"m": "serdescalar.f64_to_f32", "xs": [str(case["x"])]}, {"op": op, "xs": [int(case["x"])]}
    elif op == "utf8":
        req, meta = {"m": "serdescalar.utf8", "xs": [case["x"]]}, {"op": op, "xs": [bytes.fromhex(case["x"])]}
    else:
        req = {"m": "serdescalar." + op, "dir": case["dir"], "x": case["x"]}
        meta = dict(case)
    out = lean_batch_parallel([req])[0]
    _dispatch(ctx, req, meta, out, _c02)


def _dispatch(ctx, req, meta, out, _c02):
    if True:
        op = meta["op"]
        if "err" in out and "ok" not in out and "rs" not in out:
            ctx.disagree(f"serdescalar.{op}: driver error", req, model=out, impl=None)
            return
        if op == "dim" and meta["dir"] == "des":
            _run_dim_des(ctx, meta["x"], out, _c02)
        elif op == "dim":
            _run_dim_ser(ctx, meta["x"], out)
        elif op == "shape" and meta["dir"] == "des":
            _run_shape_des(ctx, meta["x"], meta["entry"], out)
        elif op == "shape":
            _run_shape_ser(ctx, meta["x"], meta["entry"], out)
        elif op.startswith("attr_") and meta["dir"] == "des":
            _run_attr_des(ctx, meta["x"], out, _c02)
        elif op.startswith("attr_"):
            _run_attr_ser(ctx, meta["x"], out)
        elif op == "f32_to_f64":
            _run_widen(ctx, meta["xs"], out, meta["exhaustive"])
        elif op == "f64_to_f32":
            _run_narrow(ctx, meta["xs"], out)
        elif op == "utf8":
            _run_utf8(ctx, meta["xs"], out, _c02)


# ---- per-op comparison + oracle


def _run_dim_des(ctx, x, out, _c02):
    case = {"op": "dim", "dir": "des", "x": x}
    ctx.case(case, kind="scalar:dim", cls=f"dim/des/{dim_cls(x)}/den_{den_cls(x['den'])}", sample=case)
    real = real_dim_des(x)
    _check_flags(ctx, "dim", case, out, ["wf", "thm", "agree"])
    _cmp(ctx, "serdescalar.dim: IR object", case, out["ir"], real["ir"])
    _cmp(ctx, "serdescalar.dim: ok/raised", case, out["ok"], real["ok"])
    _cmp(ctx, "serdescalar.dim: result proto fields", case, out["r"], real["r"])
    # the presence-free rendering of harness/c02.py, computed by the model from the typed fields
    old = _c02.r_dim(real["proto"])
    old = {"d": (None if old["d"] is None else ({"v": str(old["d"]["v"])} if "v" in old["d"] else old["d"])), "den": old["den"]}
    _cmp(ctx, "serdescalar.dim: rendering of c02.r_dim", case, out["old"], old)
    # oracle: proto -> IR -> proto keeps the oneof member, its payload and the denotation
    want = {"d": x["d"], "den": oracle_norm_opt(x["den"])}
    if not real["ok"] or real["r"] != want:
        ctx.fail("C02 scalar dim fields", f"dimension {x} came back as {real['r']} ({real['err']})", case)
    elif x["den"] != "" and not real["bytes_equal"]:
        ctx.fail("C02 scalar dim bytes", f"dimension {x}: serialized bytes differ after the round trip", case)


def _run_dim_ser(ctx, x, out):
    """`serialize_dimension_into` called directly on a fresh Dimension"""
    from onnx_ir import serde

    case = {"op": "dim", "dir": "ser", "x": x}
    inrange = dim_cls(x) not in ("above_int64", "below_int64")
    ctx.case(case, kind="scalar:dim", cls=f"dim/ser/{dim_cls(x)}/den_{den_cls(x['den'])}")
    q = Dimension()
    ok, err = attempt(lambda: serde.serialize_dimension_into(q, mk_irdim(x), x["den"]))
    r = r_dim_typed(q) if ok else None
    back = r_irdim(*serde.deserialize_dimension(q)) if ok else None
    _cmp(ctx, "serdescalar.dim ser: ok/raised", case, out["ok"], ok)
    _cmp(ctx, "serdescalar.dim ser: exception kind (root cause)", case, out["err"], "" if ok else err)
    _cmp(ctx, "serdescalar.dim ser: proto fields", case, out["r"], r)
    _cmp(ctx, "serdescalar.dim ser: deserialized again", case, out["back"], back)
    _cmp(ctx, "serdescalar.dim ser: inrange flag", case, out["inrange"], inrange)
    want = {"d": x["d"], "den": oracle_norm_opt(x["den"])}
    if ok != inrange or (not ok and err != "ValueError"):
        ctx.fail("C02 scalar dim range", f"dimension {x}: ok={ok} ({err}) but in int64 range={inrange}", case)
    elif ok and (r != want or back != want):
        ctx.fail("C02 scalar dim ir roundtrip", f"dimension {x}: proto {r}, back {back}", case)


def _run_shape_des(ctx, xs, entry, out):
    case = {"op": "shape", "dir": "des", "entry": entry, "x": xs}
    ctx.case(case, kind="scalar:shape", cls=f"shape/des/rank{min(len(xs), 5)}/{entry}", sample=case)
    real = real_shape_des(xs, entry)
    _check_flags(ctx, "shape", case, out, ["wf", "thm", "agree"])
    _cmp(ctx, "serdescalar.shape: IR object", case, out["ir"], real["ir"])
    _cmp(ctx, "serdescalar.shape: ok/raised", case, out["ok"], real["ok"])
    _cmp(ctx, "serdescalar.shape: result proto fields", case, out["r"], real["r"])
    want = [{"d": x["d"], "den": oracle_norm_opt(x["den"])} for x in xs]
    if not real["ok"] or real["r"] != want:
        ctx.fail("C02 scalar shape fields", f"shape {xs} came back as {real['r']} ({real['err']}) via {entry}", case)


def _run_shape_ser(ctx, xs, entry, out):
    case = {"op": "shape", "dir": "ser", "entry": entry, "x": xs}
    inrange = all(dim_cls(x) not in ("above_int64", "below_int64") for x in xs)
    ctx.case(case, kind="scalar:shape", cls=f"shape/ser/rank{min(len(xs), 5)}/{'inrange' if inrange else 'out_of_int64'}")
    real = real_shape_ser(xs, entry)
    _cmp(ctx, "serdescalar.shape ser: what ir.Shape holds", case, xs, real["given"])
    _cmp(ctx, "serdescalar.shape ser: ok/raised", case, out["ok"], real["ok"])
    _cmp(ctx, "serdescalar.shape ser: exception kind (root cause)", case, out["err"], real["err"])
    _cmp(ctx, "serdescalar.shape ser: proto fields", case, out["r"], real["r"])
    _cmp(ctx, "serdescalar.shape ser: deserialized again", case, out["back"], real["back"])
    _cmp(ctx, "serdescalar.shape ser: inrange flag", case, out["inrange"], inrange)
    # oracle: raises exactly when an int is outside int64 (ValueError underneath); otherwise IR -> proto -> IR
    if real["ok"] != inrange:
        ctx.fail("C02 scalar shape range", f"ir.Shape {xs} via {entry}: ok={real['ok']} but in int64 range={inrange}", case)
    elif not real["ok"] and real["err"] != "ValueError":
        ctx.fail("C02 scalar shape range kind", f"ir.Shape {xs} via {entry}: raised {real['err']}", case)
    elif real["ok"]:
        want = [{"d": x["d"], "den": oracle_norm_opt(x["den"])} for x in xs]
        if real["back"] != want or real["r"] != want:
            ctx.fail("C02 scalar shape ir roundtrip", f"ir.Shape {xs} via {entry}: proto {real['r']}, back {real['back']}", case)


def _attr_cls(x, direction):
    k, v = x["k"], x["v"]
    if direction == "des":
        if v is None:
            return f"{k}/absent"
        if k == "int":
            return "int/" + ("edge" if int(v) in (INT64_MIN, INT64_MAX) else "int64")
        if k == "float":
            return "float/" + cls32(v)
        return "string/" + bytes_cls(bytes.fromhex(v))
    if k == "int":
        n = int(v)
        return "int/" + ("in_int64" if INT64_MIN <= n <= INT64_MAX else "out_of_int64")
    if k == "float":
        return "float/" + cls64(int(v))
    if "bytes" in v:
        return "string/bytes_value"
    return "string/" + ("lone_surrogate" if any(0xD800 <= c <= 0xDFFF for c in v["str"]) else "str")


def _run_attr_des(ctx, x, out, _c02):
    k = x["k"]
    case = {"op": f"attr_{k}", "dir": "des", "x": x}
    ctx.case(case, kind=f"scalar:attr_{k}", cls="attr/des/" + _attr_cls(x, "des") + "/doc_" + den_cls(x["doc"]), sample=case)
    real = real_attr_des(x)
    _check_flags(ctx, f"attr_{k}", case, out, ["wf", "wfir", "thm", "old_rt", "payload"])
    _cmp(ctx, f"serdescalar.attr_{k}: IR object", case, out["ir"], real["ir"])
    _cmp(ctx, f"serdescalar.attr_{k}: ok/raised", case, out["ok"], real["ok"])
    _cmp(ctx, f"serdescalar.attr_{k}: result proto fields", case, out["r"], real["r"])
    # the rendering of harness/c02.py (r_attr: float32 <-> double and UTF-8 decision inside the renderer),
    # reproduced by the model from the typed fields
    old = dict(_c02.r_attr(real["proto"]))
    if k == "int":
        old["i"] = str(old["i"])
    if k == "float" and x["v"] is not None and cls32(x["v"]) == "snan":
        ctx.count("scalar:renderer_cannot_see_snan")  # `a.f` already quiets: r_attr renders the quiet pattern
        old["bits"] = x["v"]
    _cmp(ctx, f"serdescalar.attr_{k}: rendering of c02.r_attr", case, out["old"], old)
    # oracle: the same typed fields come back (documented normalisations only)
    v = x["v"]
    if v is None:
        v = {"int": "0", "float": 0, "string": ""}[k]
        ctx.count("scalar:norm_absent_payload_becomes_present")
    if k == "float" and quiet32_py(v) != v:
        v = quiet32_py(v)
        ctx.count("scalar:norm_snan_quieted")
    want = {"name": x["name"], "doc": oracle_norm_opt(x["doc"]), "k": k, "v": v}
    if not real["ok"] or real["r"] != want:
        ctx.fail(f"C02 scalar attr {k} fields", f"attribute {x} came back as {real['r']} ({real['err']})", case)


def _run_attr_ser(ctx, x, out):
    k = x["k"]
    case = {"op": f"attr_{k}", "dir": "ser", "x": x}
    cls = _attr_cls(x, "ser")
    ctx.case(case, kind=f"scalar:attr_{k}", cls="attr/ser/" + cls, sample=case)
    real = real_attr_ser(x)
    _check_flags(ctx, f"attr_{k}", case, out, ["wfir", "payload"])
    _cmp(ctx, f"serdescalar.attr_{k} ser: what the Attr holds", case, x, real["given"])
    _cmp(ctx, f"serdescalar.attr_{k} ser: ok/raised", case, out["ok"], real["ok"])
    _cmp(ctx, f"serdescalar.attr_{k} ser: exception kind (root cause)", case, out["err"], real["err"])
    _cmp(ctx, f"serdescalar.attr_{k} ser: proto fields", case, out["r"], real["r"])
    _cmp(ctx, f"serdescalar.attr_{k} ser: deserialized again", case, out["back"], real["back"])
    # oracle
    expect_ok = cls not in ("int/out_of_int64", "string/lone_surrogate")
    _cmp(ctx, f"serdescalar.attr_{k} ser: inrange flag", case, out["inrange"], expect_ok)
    if real["ok"] != expect_ok:
        ctx.fail(f"C02 scalar attr {k} range", f"Attr {x}: ok={real['ok']}, expected ok={expect_ok}", case)
        return
    if not real["ok"]:
        want_err = "ValueError" if k == "int" else "UnicodeEncodeError"
        if real["err"] != want_err:
            ctx.fail(f"C02 scalar attr {k} range kind", f"Attr {x}: raised {real['err']}", case)
        return
    back = real["back"]
    if k == "int":
        good = back["v"] == x["v"] and real["r"]["v"] == x["v"]
    elif k == "string":
        if "str" in x["v"]:
            good = back["v"] == x["v"] and real["r"]["v"] == "".join(chr(c) for c in x["v"]["str"]).encode("utf-8").hex()
        else:  # a bytes value that happens to be UTF-8 comes back as str (documented: bytes are the invalid-model escape)
            raw = bytes.fromhex(x["v"]["bytes"])
            good = real["r"]["v"] == raw.hex()
    else:
        # IR -> proto -> IR is the identity exactly on doubles that are float32 values; in general the result is
        # a fixed point: narrowing what came back gives the same bits again
        b32 = real["r"]["v"]
        again = pb_narrow(int(back["v"]))
        good = again == b32 and pb_widen(b32) == int(back["v"])
        if cls in ("float/exact", "float/sub_exact", "float/zero", "float/inf") and back["v"] != x["v"]:
            good = False
    if not good:
        ctx.fail(f"C02 scalar attr {k} ir roundtrip", f"Attr {x}: proto {real['r']}, back {back}", case)


def _run_widen(ctx, xs, out, exhaustive):
    rs, backs, quiets = out["rs"], out["back"], out["quiet"]
    for b, r, bk, qt, inst in zip(xs, rs, backs, quiets, out["inst"]):
        case = {"op": "f32_to_f64", "x": b}
        ctx.case(case, kind="scalar:f32_to_f64", cls="f32/" + cls32(b) + ("/exhaustive" if exhaustive else ""))
        # instances of C02_float32_rounding_partial evaluated by the driver; share of non-vacuous instances published
        if inst[0] is not True:
            ctx.disagree("serdescalar.f32_to_f64: C02_float32_rounding_partial instance is false", case, model=inst, impl=None)
        ctx.count(f"scalar:rounding_hyp[nearest_normal]={inst[1]}")
        ctx.count(f"scalar:rounding_hyp[adjacent]={inst[2]}")
        w = pb_widen(b)
        if int(r) != w:
            ctx.disagree("serdescalar.f32_to_f64: widening", case, model=r, impl=str(w))
        n = pb_narrow(w)
        if bk != n:
            ctx.disagree("serdescalar.f32_to_f64: narrowing of the widened value", case, model=bk, impl=n)
        if qt != quiet32_py(b) or bk != qt:
            ctx.disagree("serdescalar.f32_to_f64: C02_float32_widen_narrow instance", case, model=[bk, qt], impl=quiet32_py(b))
        # oracle on protobuf itself: float32 -> Python float -> float32 keeps the bits (signalling NaNs get the quiet bit)
        if n != quiet32_py(b):
            ctx.fail("C02 scalar float bits", f"float32 pattern {b:#010x} comes back as {n:#010x}", case)


def _run_narrow(ctx, xs, out):
    for x, r in zip(xs, out["rs"]):
        case = {"op": "f64_to_f32", "x": str(x)}
        ctx.case(case, kind="scalar:f64_to_f32", cls="f64/" + cls64(x))
        n = pb_narrow(x)
        if r != n:
            ctx.disagree("serdescalar.f64_to_f32: narrowing", case, model=r, impl=n)
        # second opinion where CPython's struct does not raise (it raises OverflowError where protobuf gives inf)
        c = cls64(x)
        if c not in ("nan", "overflow"):
            try:
                s = struct.unpack("<I", struct.pack("<f", f64_of_bits(x)))[0]
            except OverflowError:
                s = None
            if s != n:
                ctx.fail("C02 scalar float narrowing", f"double {x:#018x}: protobuf stores {n:#010x}, struct gives {s}", case)


def _run_utf8(ctx, xs, out, _c02):
    for b, r, bs in zip(xs, out["rs"], out["bstr"]):
        case = {"op": "utf8", "x": b.hex()}
        ctx.case(case, kind="scalar:utf8", cls="utf8/" + bytes_cls(b) + f"/len{min(len(b), 5)}")
        try:
            want = [ord(c) for c in b.decode("utf-8")]
        except UnicodeDecodeError:
            want = None
        if r != want:
            ctx.disagree("serdescalar.utf8: decoding", case, model=r, impl=want)
        if bs != _c02.r_bstr(b):
            ctx.disagree("serdescalar.utf8: rendering of c02.r_bstr", case, model=bs, impl=_c02.r_bstr(b))
        if want is not None and "".join(chr(c) for c in want).encode("utf-8") != b:
            ctx.fail("C02 scalar utf8 roundtrip", f"bytes {b.hex()} decode but do not encode back", case)

"""C15 — generated names never collide; name fixing yields unique names only; bulk renaming is
all-or-nothing (DESIGN.md section 5, C15).

Part A (name authority).  Random add / remove / re-add histories on real `ir.Graph`s
(`Graph(...)`, `append`, `extend`, `insert_before`, `insert_after`, `remove`, renaming a detached
node) with explicit names drawn from a pool that contains `val_k` / `node_<op>_k` shapes.  Every
call the graph makes on its `NameAuthority` is mirrored as one primitive op of the Lean model
(`names.hist`); compared: the name every object has right after the call, the two counters and
the two seen sets.  Oracle (independent of the model): a generated name is new w.r.t. every name
the graph registered or assigned before; an explicit name is unchanged.
"""
from __future__ import annotations

from harness.common import Ctx, lean_batch_parallel, load_corpus

THEOREMS = [
    "IrVerif.Names.C15_fresh",
    "IrVerif.Names.C15_monotone",
    "IrVerif.Names.C15_loop_terminates",
    "IrVerif.Names.C15_explicit_kept",
    "IrVerif.Names.C15_namefix_total",
    "IrVerif.Names.C15_namefix_post",
    "IrVerif.Names.C15_namefix_keeps_unique",
    "IrVerif.Names.C15_namefix_idempotent",
    "IrVerif.Names.C15_namefix_call_total",
    "IrVerif.Names.C15_namefix_call_post",
    "IrVerif.Names.C15_namefix_call_keeps_unique",
    "IrVerif.Names.C15_namefix_call_idempotent",
    "IrVerif.Names.C15_rename_values_atomic",
]
ASSUMPTIONS = [
    "Python set/dict membership, dict insertion order and f-string decimal printing of int are modelled by list "
    "membership, association lists and Nat.repr",
    "only the default SimpleNameGenerator of NameFixPass is modelled (a custom NameGenerator is outside the model)",
    "NameFixPass / rename_values theorems assume InitsOk (initializer dictionaries keyed by the current non-empty "
    "names: kernel invariant I_key, property C01); post/keeps_unique/idempotent additionally assume the scoping rule "
    "scopedB (a value is used only in the graph that first mentions it or in graphs nested in it afterwards), node "
    "objects occurring once, and top-level graphs sharing no values (PassWF); the harness evaluates these hypotheses "
    "on every generated model and reports the share",
    "'nothing but names changed' is structural in the model (the object tree is an input only); on the real objects "
    "it is checked by the oracle (identity snapshot of graphs, nodes, values, uses, attributes, backing tensors)",
    "renaming the backing tensor (const_value.name) and values that have a producer and are registered as "
    "initializers are not modelled (the first is checked by the oracle only)",
    "TypeError paths of rename_values (non-Value / non-str arguments, length mismatch) are outside the typed model",
]

OPS = ["Add", "Mul", "Add_1", ""]
VAL_POOL = [f"val_{k}" for k in range(6)] + ["x", "y", "", "val_01", "val_10"]
NODE_POOL = [f"node_{op}_{k}" for op in ("Add", "Mul", "Add_1", "") for k in range(4)] + ["n", "", "node_Add_1_0"]


# --------------------------------------------------------------------------- part A


class _Exec:
    """Executes a history *script* (pure data, replayable) on a real `ir.Graph`, mirrors every call the
    graph makes on its NameAuthority as one primitive model op, and evaluates the oracle."""

    def __init__(self, ir):
        self.ir = ir
        self.prim: list[list] = []  # model ops
        self.after: list = []  # real names right after each primitive call
        self.known = {"v": set(), "n": set()}  # every name registered or assigned so far (oracle)
        self.oracle_failures: list[tuple[str, str]] = []
        self.g = None
        self.detached: list = []

    def node(self, spec):
        ir = self.ir
        return ir.Node("", spec["op"], inputs=[], outputs=[ir.Value(name=n) for n in spec["outs"]], name=spec["name"])

    # -- mirror of `_set_node_graph_to_self_and_assign_names` for a list of nodes
    def before_add(self, nodes):
        snap = []
        for n in nodes:
            snap.append(("n", n, n.name, n.op_type))
            for v in n.outputs:
                snap.append(("v", v, v.name, None))
        return snap

    def after_add(self, opname, snap):
        before = {k: set(s) for k, s in self.known.items()}
        for kind, obj, old, op in snap:
            self.prim.append(["n", old, op] if kind == "n" else ["v", old])
            self.after.append(obj.name)
            # oracle: the property itself, on the real objects
            if old is None:
                if obj.name is None or obj.name in before[kind]:
                    self.oracle_failures.append(
                        (f"authority:{opname}:generated-name-collides", f"generated {obj.name!r} was registered before")
                    )
            elif obj.name != old:
                self.oracle_failures.append(
                    (f"authority:{opname}:explicit-name-changed", f"{old!r} -> {obj.name!r}")
                )
            if obj.name is not None:
                self.known[kind].add(obj.name)
                before[kind].add(obj.name)  # names handed out within one call must differ too

    def step(self, op):
        ir, g = self.ir, self.g
        kind = op[0]
        if kind == "Graph":
            _, in_names, init_names, node_specs = op
            inputs = [ir.Value(name=n) for n in in_names]
            inits = [ir.Value(name=n) for n in init_names]
            nodes = [self.node(sp) for sp in node_specs]
            snap = [("v", v, v.name, None) for v in inputs + inits] + self.before_add(nodes)
            self.g = ir.Graph(inputs, [], nodes=nodes, initializers=inits, name="g")
            self.after_add("Graph", snap)
        elif kind == "append":
            n = self.node(op[1])
            snap = self.before_add([n])
            g.append(n)
            self.after_add("append", snap)
        elif kind == "extend":
            ns = [self.node(sp) for sp in op[1]]
            snap = self.before_add(ns)
            g.extend(ns)
            self.after_add("extend", snap)
        elif kind in ("insert_before", "insert_after"):
            _, anchor, specs, single = op
            ns = [self.node(sp) for sp in specs]
            snap = self.before_add(ns)
            getattr(g, kind)(list(g)[anchor], ns[0] if single else ns)
            self.after_add(kind, snap)
        elif kind == "remove":
            n = list(g)[op[1]]
            g.remove(n)
            self.detached.append(n)
        elif kind == "readd":
            _, idx, rename, which, anchor = op
            n = self.detached.pop(idx)
            if rename is not None:  # rename while detached: the new explicit name is what gets registered
                n.name = rename["name"]
                for v, (do, nm) in zip(n.outputs, rename["outs"]):
                    if do:
                        v.name = nm
            snap = self.before_add([n])
            if which == "append":
                g.append(n)
            elif which == "extend":
                g.extend([n])
            else:
                g.insert_after(list(g)[anchor], n)
            self.after_add("re-" + which, snap)
        elif kind == "append-present":  # re-adding a node that is already in the graph registers its names again
            n = list(g)[op[1]]
            snap = self.before_add([n])
            g.append(n)
            self.after_add("append-present", snap)
        else:
            raise ValueError(kind)

    def impl(self):
        auth = self.g._name_authority  # observation only
        return {
            "names": self.after,
            "vc": auth._value_counter,
            "nc": auth._node_counter,
            "vnames": sorted(auth._value_names),
            "nnames": sorted(auth._node_names),
        }


def _pick_name(rng, pool, p_none=0.5):
    return None if rng.random() < p_none else rng.choice(pool)


def _node_spec(rng):
    return {"op": rng.choice(OPS), "name": _pick_name(rng, NODE_POOL),
            "outs": [_pick_name(rng, VAL_POOL) for _ in range(rng.choice([0, 1, 1, 1, 2, 3]))]}


def _one_history(ctx: Ctx, ir, size: int):
    """generate a script step by step (choices depend on the sizes of the live / detached lists only)"""
    rng = ctx.rng
    ex = _Exec(ir)
    script = []

    def do(op):
        script.append(op)
        ex.step(op)

    init_names = [rng.choice([x for x in VAL_POOL if x]) for _ in range(rng.choice([0, 0, 1, 2]))]
    if len(set(init_names)) != len(init_names):
        init_names = init_names[:1]
    do(["Graph", [_pick_name(rng, VAL_POOL) for _ in range(rng.choice([0, 1, 2, 3]))], init_names,
        [_node_spec(rng) for _ in range(rng.choice([0, 1, 2, 3]))]])
    for _ in range(size):
        live = len(ex.g)
        r = rng.random()
        if r < 0.25:
            do(["append", _node_spec(rng)])
        elif r < 0.4:
            do(["extend", [_node_spec(rng) for _ in range(rng.choice([0, 1, 2, 3]))]])
        elif r < 0.6 and live:
            specs = [_node_spec(rng) for _ in range(rng.choice([1, 1, 2]))]
            do([rng.choice(["insert_before", "insert_after"]), rng.randrange(live), specs,
                len(specs) == 1 and rng.random() < 0.5])
        elif r < 0.78 and live:
            do(["remove", rng.randrange(live)])
        elif r < 0.95 and ex.detached:
            idx = rng.randrange(len(ex.detached))
            rename = None
            if rng.random() < 0.3:
                rename = {"name": _pick_name(rng, NODE_POOL, 0.3),
                          "outs": [[rng.random() < 0.5, _pick_name(rng, VAL_POOL, 0.3)] for _ in ex.detached[idx].outputs]}
            which = rng.choice(["append", "extend", "insert_after"]) if live else "append"
            do(["readd", idx, rename, which, rng.randrange(live) if live else 0])
        elif live:
            do(["append-present", rng.randrange(live)])
    return ex, script


def _check_authority_case(ctx, ex, script, out):
    gen = sum(1 for p in ex.prim if p[1] is None)
    shaped = sum(1 for p in ex.prim if p[1] is not None and (p[1].startswith("val_") or p[1].startswith("node_")))
    case = {"part": "authority", "script": script}
    ctx.case(
        case,
        nontrivial=gen > 0,
        sample={"part": "authority", "script": script[:6], "prim": ex.prim[:12]},
        part="authority",
        prim_ops=min(len(ex.prim) // 8 * 8, 64),
        generated=min(gen // 4 * 4, 32),
        explicit_generated_shape=min(shaped // 4 * 4, 32),
    )
    for sig, what in ex.oracle_failures:
        ctx.fail(sig, what, case)
    impl = ex.impl()
    model = {
        "names": out.get("names"),
        "vc": out.get("vc"),
        "nc": out.get("nc"),
        "vnames": sorted(out.get("vnames", [])),
        "nnames": sorted(out.get("nnames", [])),
    }
    if model != impl and not ex.oracle_failures:
        ctx.disagree("names.hist model != Graph/NameAuthority", case, model, impl)


def _replay_authority(ctx, ir, script):
    ex = _Exec(ir)
    for op in script:
        ex.step(op)
    out = lean_batch_parallel([{"m": "names.hist", "ops": ex.prim}])[0]
    _check_authority_case(ctx, ex, script, out)


def _run_authority(ctx: Ctx, ir) -> None:
    for c in load_corpus("C15"):
        if c.get("part") == "authority":
            _replay_authority(ctx, ir, c["script"])
    runs = []
    for i in range(ctx.pick(1500, 20000)):
        size = ctx.rng.choice([2, 4, 8, 16]) if i % 10 else 40
        runs.append(_one_history(ctx, ir, size))
    outs = lean_batch_parallel([{"m": "names.hist", "ops": ex.prim} for ex, _ in runs])
    for (ex, script), out in zip(runs, outs):
        _check_authority_case(ctx, ex, script, out)


# --------------------------------------------------------------------------- part B (NameFixPass)

VNAMES = ["t", "t", "t_1", "t_2", "t_1_1", "v", "v_1", "v_2", "w", "w_1", None, None, ""]
NNAMES = ["n", "n", "n_1", "n_2", "node", "node_1", "node_2", None, None, ""]
INAMES = ["t", "t_1", "t_2", "t_1_1", "v", "v_1", "w", "w_1", "w_2"]


class _SpecGen:
    """Random model *specifications* (JSON): the same object is sent to the Lean model and built
    into real IR objects.  Ids are creation indices."""

    def __init__(self, rng, max_depth, wild):
        self.rng, self.max_depth, self.wild = rng, max_depth, wild
        self.vnames: list = []
        self.nnames: list = []
        self.init_of: list = []
        self.dicts: list = []
        self.all_vals: list[int] = []
        self.producible: set[int] = set()

    def value(self, name, init_of=None):
        self.vnames.append(name)
        self.init_of.append(init_of)
        self.all_vals.append(len(self.vnames) - 1)
        return len(self.vnames) - 1

    def graph(self, depth, visible, is_graph=True):
        rng = self.rng
        g = len(self.dicts)
        self.dicts.append([])
        ins = [self.value(rng.choice(VNAMES)) for _ in range(rng.choice([0, 1, 1, 2]))]
        d = []
        if is_graph:
            keys = rng.sample(INAMES, rng.choice([0, 0, 1, 2, 3]))
            for k in keys:
                if rng.random() < 0.15 and ins and self.init_of[ins[-1]] is None and self.vnames[ins[-1]] not in [x[0] for x in d]:
                    v = ins[-1]  # a graph input that is also an initializer
                    if not self.vnames[v]:
                        self.vnames[v] = k
                    self.init_of[v] = g
                    d.append([self.vnames[v], v])
                elif k not in [x[0] for x in d]:
                    d.append([k, self.value(k, g)])
            self.dicts[g] = d
        own = ins + [e[1] for e in d if e[1] not in ins]
        nodes = []
        for _ in range(rng.choice([0, 1, 2, 2, 3])):
            cand = visible + own
            n_in = rng.choice([0, 1, 1, 2])
            inputs = []
            for _ in range(n_in):
                r = rng.random()
                if r < 0.1 or not cand:
                    inputs.append(None)
                elif r < 0.1 + self.wild and self.all_vals:
                    inputs.append(rng.choice(self.all_vals))  # deliberately ill-scoped / forward reference
                else:
                    inputs.append(rng.choice(cand))
            attrs = []
            if depth < self.max_depth and rng.random() < 0.45:
                for _ in range(rng.choice([1, 1, 2])):
                    if rng.random() < 0.6:
                        attrs.append(["g", self.graph(depth + 1, visible + own)])
                    else:
                        attrs.append(["gs", [self.graph(depth + 1, visible + own) for _ in range(rng.choice([0, 1, 2]))]])
            outs = [self.value(rng.choice(VNAMES)) for _ in range(rng.choice([0, 1, 1, 1, 2]))]
            self.nnames.append(rng.choice(NNAMES))
            nodes.append({"n": len(self.nnames) - 1, "ins": inputs, "outs": outs, "attrs": attrs})
            own = own + [v for v in inputs if v is not None and v not in own and v not in visible] + outs
        k = rng.choice([0, 1, 1, 2])
        pool = [v for v in own]
        outs = [rng.choice(pool) for _ in range(k)] if pool else []
        if self.wild and rng.random() < self.wild and visible:
            outs.append(rng.choice(visible))
        return {"g": g, "isGraph": is_graph, "ins": ins, "outs": outs, "nodes": nodes}

    def spec(self):
        rng = self.rng
        tops = [self.graph(0, [])]
        for _ in range(rng.choice([0, 0, 1, 2])):
            tops.append(self.graph(0, [], is_graph=False))
        return {"vnames": self.vnames, "nnames": self.nnames, "initOf": self.init_of, "dicts": self.dicts, "tops": tops}


def _lean_graph(g):
    return {"g": g["g"], "isGraph": g["isGraph"], "ins": g["ins"], "outs": g["outs"], "nodes": [_lean_node(n) for n in g["nodes"]]}


def _lean_node(n):
    subs = []
    for kind, x in n["attrs"]:
        subs += [_lean_graph(x)] if kind == "g" else [_lean_graph(y) for y in x]
    return {"n": n["n"], "ins": n["ins"], "outs": n["outs"], "subs": subs}


def _fix_request(spec):
    return {"m": "names.fix", "vnames": spec["vnames"], "nnames": spec["nnames"], "initOf": spec["initOf"],
            "dicts": spec["dicts"], "tops": [_lean_graph(t) for t in spec["tops"]]}


class _Built:
    """Real IR objects built from a spec."""

    def __init__(self, ir, spec):
        self.ir, self.spec = ir, spec
        nv = len(spec["vnames"])
        self.values = [ir.Value(name=f"__tmp_{i}") for i in range(nv)]
        for d in spec["dicts"]:
            for k, v in d:
                # initializers carry a backing tensor whose name must follow the value's name
                self.values[v] = ir.Value(name=k, const_value=ir.tensor([1.0], name=k))
        self.nodes = [None] * len(spec["nnames"])
        self.graphs = [None] * len(spec["dicts"])  # Graph or Function per gid
        tops = [self.build_graph(t) for t in spec["tops"]]
        funcs = [ir.Function("d", f"f{i}", "", graph=g, attributes=[]) for i, g in enumerate(tops[1:])]
        for t, f in zip(spec["tops"][1:], funcs):
            self.graphs[t["g"]] = f
        self.model = ir.Model(tops[0], ir_version=10, functions=funcs)
        # names as specified (construction auto-names everything that is None)
        for i, v in enumerate(self.values):
            if spec["initOf"][i] is None:
                v.name = spec["vnames"][i]
        for i, n in enumerate(self.nodes):
            n.name = spec["nnames"][i]

    def build_graph(self, g):
        ir = self.ir
        nodes = []
        for n in g["nodes"]:
            attrs = []
            for j, (kind, x) in enumerate(n["attrs"]):
                if kind == "g":
                    attrs.append(ir.AttrGraph(f"a{j}", self.build_graph(x)))
                else:
                    attrs.append(ir.AttrGraphs(f"a{j}", [self.build_graph(y) for y in x]))
            node = ir.Node("", "Op", [None if v is None else self.values[v] for v in n["ins"]], attrs,
                           outputs=[self.values[v] for v in n["outs"]], name=f"__tmpn_{n['n']}")
            self.nodes[n["n"]] = node
            nodes.append(node)
        inits = [self.values[v] for _, v in self.spec["dicts"][g["g"]]]
        graph = ir.Graph([self.values[v] for v in g["ins"]], [self.values[v] for v in g["outs"]], nodes=nodes,
                         initializers=inits, name=f"g{g['g']}")
        self.graphs[g["g"]] = graph
        return graph

    # ---- observations
    def state(self):
        ir = self.ir
        vid = {id(v): i for i, v in enumerate(self.values)}
        dicts = []
        for g in self.graphs:
            if isinstance(g, ir.Graph):
                dicts.append([[k, vid.get(id(v), -1)] for k, v in g.initializers.items()])
            else:
                dicts.append([])
        init_of = []
        gid = {id(g): i for i, g in enumerate(self.graphs)}
        for v in self.values:
            init_of.append(gid.get(id(v.graph), -1) if v.is_initializer() else None)
        return {"vnames": [v.name for v in self.values], "nnames": [n.name for n in self.nodes],
                "initOf": init_of, "dicts": dicts}

    def const_names_ok(self):
        return all(v.const_value is None or v.const_value.name == v.name for v in self.values)

    def structure(self):
        """everything but names (identity-based), for 'nothing but names changed'"""
        ir = self.ir
        vid = {id(v): i for i, v in enumerate(self.values)}
        nid = {id(n): i for i, n in enumerate(self.nodes)}
        gid = {id(g): i for i, g in enumerate(self.graphs)}
        out = []
        for g in self.graphs:
            out.append(("graph", [vid[id(v)] for v in g.inputs], [vid[id(v)] for v in g.outputs], [nid[id(n)] for n in g],
                        sorted(vid[id(v)] for v in g.initializers.values()) if isinstance(g, ir.Graph) else []))
        for n in self.nodes:
            attrs = []
            for a in n.attributes.values():
                if a.type == ir.AttributeType.GRAPH:
                    attrs.append((a.name, "g", gid[id(a.value)]))
                else:
                    attrs.append((a.name, "gs", [gid[id(x)] for x in a.value]))
            out.append(("node", n.op_type, n.domain, [None if v is None else vid[id(v)] for v in n.inputs],
                        [vid[id(v)] for v in n.outputs], attrs, gid.get(id(n.graph), -1)))
        for v in self.values:
            p = v.producer()
            out.append(("value", None if p is None else nid[id(p)], v.index(), v.is_graph_input(), v.is_graph_output(),
                        v.is_initializer(), gid.get(id(v.graph), None), sorted((nid[id(u)], k) for u, k in v.uses()),
                        id(v.const_value)))
        return out


def _scope_lists(spec, dicts_now):
    """Independent restatement of the scoping rule on the spec structure: for every graph the list
    of values that must carry pairwise different names (values recorded in enclosing scopes before
    the graph is entered + the graph's own values) and the list of its nodes; `scoped` says whether
    every value is only ever met where it is visible."""
    lists, nodelists = [], []
    ok = [True]

    def graph(g, vis, seen):
        vis = list(vis)

        def meet(v):
            if v in seen and v not in vis:
                ok[0] = False
            seen.add(v)
            if v not in vis:
                vis.append(v)

        for v in g["ins"] + g["outs"] + ([v for _, v in dicts_now[g["g"]]] if g["isGraph"] else []):
            meet(v)
        for n in g["nodes"]:
            for v in n["ins"] + n["outs"]:
                if v is not None:
                    meet(v)
            for kind, x in n["attrs"]:
                for sub in [x] if kind == "g" else x:
                    graph(sub, vis, seen)
        lists.append(vis)
        nodelists.append([n["n"] for n in g["nodes"]])

    owner = {}
    for i, t in enumerate(spec["tops"]):
        k = len(lists)
        graph(t, [], set())
        for L in lists[k:]:  # a value shared between the main graph and a function / two functions is ill-scoped
            for v in L:
                if owner.setdefault(v, i) != i:
                    ok[0] = False
    return ok[0], lists, nodelists


def _closed(spec):
    """independent restatement of `Closed`: an initializer mentioned under a top-level graph belongs to a Graph
    under that top-level graph"""
    for t in spec["tops"]:
        ment, graphs = set(), set()

        def walk(g):
            if g["isGraph"]:
                graphs.add(g["g"])
            ment.update(g["ins"] + g["outs"])
            for n in g["nodes"]:
                ment.update(v for v in n["ins"] + n["outs"] if v is not None)
                for kind, x in n["attrs"]:
                    for sub in [x] if kind == "g" else x:
                        walk(sub)

        walk(t)
        if any(spec["initOf"][v] is not None and spec["initOf"][v] not in graphs for v in ment):
            return False
    return True


def _truthy(x):
    return bool(x)


def _namefix_oracle(ctx, spec, before, after, struct_before, struct_after, raised, second, case):
    """The postcondition of C15 on the real objects.  Returns the list of (signature, what)."""
    fails = []
    if raised is not None:
        if _closed(spec):
            fails.append((f"NameFixPass:raises:{raised}", "the pass raised on a model whose initializers are keyed by their names"))
        return fails, False
    if struct_before != struct_after:
        fails.append(("NameFixPass:structure-changed", "something other than names / initializer keys changed"))
    if not after.pop("const_ok", True):
        fails.append(("NameFixPass:const-tensor-name", "the backing tensor of a renamed initializer kept the old name"))
    scoped, lists, nodelists = _scope_lists(spec, after["dicts"])
    vn, nn = after["vnames"], after["nnames"]
    reach_v = sorted({v for L in lists for v in L})
    reach_n = sorted({n for L in nodelists for n in L})
    if any(not _truthy(vn[v]) for v in reach_v):
        fails.append(("NameFixPass:empty-value-name", "a value has no name after the pass"))
    if any(not _truthy(nn[n]) for n in reach_n):
        fails.append(("NameFixPass:empty-node-name", "a node has no name after the pass"))
    for g, d in enumerate(after["dicts"]):
        if any(vn[v] != k for k, v in d) or sorted(v for _, v in d) != sorted(v for _, v in before["dicts"][g]):
            fails.append(("NameFixPass:initializer-key", "initializers are not keyed by their current names"))
    if after["initOf"] != before["initOf"]:
        fails.append(("NameFixPass:initializer-flag", "is_initializer()/graph of a value changed"))
    for L in nodelists:
        names = [nn[n] for n in L]
        if len(set(names)) != len(names):
            fails.append(("NameFixPass:duplicate-node-name", f"node names {names} in one graph"))
        orig = [before["nnames"][n] for n in L]
        for n in L:
            o = before["nnames"][n]
            if _truthy(o) and orig.count(o) == 1 and nn[n] != o:
                fails.append(("NameFixPass:unique-node-name-changed", f"{o!r} -> {nn[n]!r}"))
    if scoped:
        for L in lists:
            names = [vn[v] for v in L]
            if len(set(names)) != len(names):
                fails.append(("NameFixPass:duplicate-value-name", f"value names {names} visible in one graph"))
            orig = [before["vnames"][v] for v in L]
            for v in L:
                o = before["vnames"][v]
                if _truthy(o) and orig.count(o) == 1 and vn[v] != o:
                    fails.append(("NameFixPass:unique-value-name-changed", f"{o!r} -> {vn[v]!r} among {orig}"))
    if second is not None and scoped:
        modified2, after2 = second
        if modified2 or after2 != after:
            fails.append(("NameFixPass:not-idempotent", "a second run changed names or reported modified=True"))
    return fails, scoped


def _run_one_fix(ir, spec):
    from onnx_ir.passes.common import naming

    b = _Built(ir, spec)
    before, struct_before = b.state(), b.structure()
    raised, modified, second = None, None, None
    try:
        modified = bool(naming.NameFixPass()(b.model).modified)
    except Exception as e:  # noqa: BLE001
        raised = type(e).__name__
    after, struct_after = b.state(), b.structure()
    after["const_ok"] = b.const_names_ok()
    if raised is None:
        try:
            m2 = bool(naming.NameFixPass()(b.model).modified)
            second = (m2, b.state())
        except Exception as e:  # noqa: BLE001
            second = (f"raised {type(e).__name__}", None)
    return before, after, struct_before, struct_after, raised, modified, second


def _check_fix_case(ctx, ir, spec, out, origin):
    case = {"part": "namefix", "spec": spec}
    try:
        before, after, sb, sa, raised, modified, second = _run_one_fix(ir, spec)
    except Exception as e:  # the spec cannot be built as real IR (rejected by constructors)
        ctx.count(f"namefix_unbuildable={type(e).__name__}")
        return
    if before["vnames"] != spec["vnames"] or before["dicts"] != spec["dicts"] or before["initOf"] != spec["initOf"] \
            or before["nnames"] != spec["nnames"]:
        ctx.count("namefix_spec_not_realised")
        return
    fails, scoped = _namefix_oracle(ctx, spec, before, after, sb, sa, raised, second, case)
    changed = sum(1 for a, b2 in zip(before["vnames"] + before["nnames"], after["vnames"] + after["nnames"]) if a != b2)
    depth = _depth(spec)
    ctx.case(case, nontrivial=changed > 0,
             sample={"part": "namefix", "vnames": spec["vnames"], "nnames": spec["nnames"], "after": after["vnames"]},
             part="namefix", origin=origin, scoped=scoped, depth=depth, tops=len(spec["tops"]),
             values=min(len(spec["vnames"]) // 4 * 4, 24), renamed=min(changed, 8),
             inits=min(sum(len(d) for d in spec["dicts"]), 6))
    for sig, what in fails:
        ctx.fail(sig, what, case)
    # the hypotheses of the Lean theorems (evaluated by the driver) against their Python restatement
    if raised is None and (out.get("scoped") and out.get("disjoint")) != scoped:
        ctx.disagree("scoping rule: scopedB/disjoint (Lean) != Python restatement", case,
                     {"scoped": out.get("scoped"), "disjoint": out.get("disjoint")}, {"scoped": scoped})
    if out.get("closed") != _closed(spec):
        ctx.disagree("Closed (Lean) != Python restatement", case, out.get("closed"), _closed(spec))
    ctx.count("namefix_PassWF=" + str(bool(out.get("scoped") and out.get("disjoint") and out.get("closed") and out.get("nodup"))))
    impl = {"vnames": after["vnames"], "nnames": after["nnames"], "dicts": after["dicts"], "initOf": after["initOf"],
            "modified": modified, "raised": raised is not None}
    model = {k: out.get(k) for k in ("vnames", "nnames", "dicts", "initOf", "modified", "raised")}
    if raised is not None:
        model["modified"] = impl["modified"] = None
    if model != impl and not fails:
        ctx.disagree("names.fix model != NameFixPass", case, model, impl)


def _depth(spec):
    def dg(g):
        return 1 + max([0] + [dg(s) for n in g["nodes"] for kind, x in n["attrs"] for s in ([x] if kind == "g" else x)])
    return max(dg(t) for t in spec["tops"])


D30_SPEC = {"vnames": ["w", "w", "w_1"], "nnames": ["a"], "initOf": [None, 0, 0], "dicts": [[["w", 1], ["w_1", 2]]],
            "tops": [{"g": 0, "isGraph": True, "ins": [], "outs": [0], "nodes": [{"n": 0, "ins": [], "outs": [0], "attrs": []}]}]}
D31_SPEC = {"vnames": ["t", "t", "t_1"], "nnames": ["n", "n", "n_1"], "initOf": [None, None, None], "dicts": [[]],
            "tops": [{"g": 0, "isGraph": True, "ins": [], "outs": [], "nodes": [
                {"n": 0, "ins": [], "outs": [0], "attrs": []}, {"n": 1, "ins": [], "outs": [1], "attrs": []},
                {"n": 2, "ins": [], "outs": [2], "attrs": []}]}]}


def _run_namefix(ctx: Ctx, ir) -> None:
    specs = [(D30_SPEC, "witness"), (D31_SPEC, "witness")]
    for c in load_corpus("C15"):
        if c.get("part") == "namefix":
            specs.append((c["spec"], "corpus"))
    for i in range(ctx.pick(2500, 30000)):
        wild = 0.0 if i % 5 else 0.25
        gen = _SpecGen(ctx.rng, max_depth=ctx.rng.choice([0, 1, 1, 2, 2, 3]), wild=wild)
        specs.append((gen.spec(), "random-wild" if wild else "random"))
    outs = lean_batch_parallel([_fix_request(s) for s, _ in specs])
    for (spec, origin), out in zip(specs, outs):
        _check_fix_case(ctx, ir, spec, out, origin)


# --------------------------------------------------------------------------- part C (rename_values)

KINDS = ["plain", "init0", "init1", "input+init0"]


def _rename_world(ir, kinds, names):
    """A real two-graph world: value i has kind kinds[i] and name names[i]."""
    values = [ir.Value(name=n) if k == "plain" else ir.Value(name=n, const_value=ir.tensor([1.0], name=n))
              for n, k in zip(names, kinds)]
    plain = [v for v, k in zip(values, kinds) if k == "plain"]
    node = ir.Node("", "Op", [], outputs=plain, name="n")
    g0 = ir.Graph([v for v, k in zip(values, kinds) if k == "input+init0"], [], nodes=[node],
                  initializers=[v for v, k in zip(values, kinds) if k in ("init0", "input+init0")], name="g0")
    g1 = ir.Graph([], [], nodes=[], initializers=[v for v, k in zip(values, kinds) if k == "init1"], name="g1")
    for v, n in zip(plain, names_of(plain, values, names)):
        v.name = n  # construction names unnamed values
    return values, [g0, g1]


def names_of(sub, values, names):
    idx = {id(v): i for i, v in enumerate(values)}
    return [names[idx[id(v)]] for v in sub]


def _rename_state(values, graphs):
    vid = {id(v): i for i, v in enumerate(values)}
    gid = {id(g): i for i, g in enumerate(graphs)}
    return {"vnames": [v.name for v in values],
            "initOf": [gid.get(id(v.graph), -1) if v.is_initializer() else None for v in values],
            "dicts": [[[k, vid.get(id(v), -1)] for k, v in g.initializers.items()] for g in graphs]}


def _rename_cases(ctx):
    """all assignments over <= n values (exhaustive), then random ones with repeated pairs"""
    import itertools

    nmax = ctx.pick(3, 4)
    for n in range(1, nmax + 1):
        base = ["a", "b", "c", "d"][:n]
        kinds_all = KINDS if n <= 3 else KINDS[:3]
        targets = [None] + base + ["z", ""]
        for kinds in itertools.product(kinds_all, repeat=n):
            for assign in itertools.product(targets, repeat=n):
                pairs = [[i, t] for i, t in enumerate(assign) if t is not None]
                yield list(kinds), base, pairs, "exhaustive"
    ctx.exhaustive_scopes.append(
        f"rename_values: every assignment of targets from (old names + 'z' + '') to <= {nmax} values x every "
        f"plain/initializer(g0)/initializer(g1)/input+initializer kind vector (3 kinds at n=4)")
    rng = ctx.rng
    for _ in range(ctx.pick(3000, 30000)):
        n = rng.choice([2, 3, 4, 4])
        kinds = [rng.choice(KINDS) for _ in range(n)]
        names = []
        for k in kinds:
            if k == "plain":
                names.append(rng.choice(["a", "b", "c", "d", "a", None, ""]))
            else:
                names.append(rng.choice([x for x in ["a", "b", "c", "d", "e", "f"] if x not in names]))
        pairs = [[rng.randrange(n), rng.choice(["a", "b", "c", "d", "z", "", "e"])] for _ in range(rng.choice([1, 2, 3, 4, 5, 6]))]
        rng.shuffle(pairs)
        yield kinds, names, pairs, "random"


def _check_rename_case(ctx, ir, kinds, names, pairs, origin, out):
    case = {"part": "rename", "kinds": kinds, "names": names, "pairs": pairs}
    values, graphs = _rename_world(ir, kinds, names)
    before = _rename_state(values, graphs)
    raised = None
    try:
        ir.convenience.rename_values([values[i] for i, _ in pairs], [t for _, t in pairs])
    except Exception as e:  # noqa: BLE001
        raised = type(e).__name__
    after = _rename_state(values, graphs)
    fails = []
    if raised is not None:
        if after != before:
            fails.append((f"rename_values:partial-after-{raised}", f"raised but state changed: {before} -> {after}"))
    else:
        want = dict(enumerate(before["vnames"]))
        for i, t in pairs:
            want[i] = t
        if after["vnames"] != [want[i] for i in range(len(values))]:
            fails.append(("rename_values:assignment-not-applied", f"{after['vnames']} != requested"))
        if after["initOf"] != before["initOf"]:
            fails.append(("rename_values:initializer-flag", "is_initializer()/graph changed"))
        for d0, d1 in zip(before["dicts"], after["dicts"]):
            if sorted(v for _, v in d0) != sorted(v for _, v in d1) or any(after["vnames"][v] != k for k, v in d1):
                fails.append(("rename_values:initializer-key", "initializers not keyed by their names / a value lost"))
        if any(v.const_value is not None and v.const_value.name != v.name for v in values):
            fails.append(("rename_values:const-tensor-name", "the backing tensor of a renamed value kept the old name"))
    moved = sum(1 for a, b in zip(before["vnames"], after["vnames"]) if a != b)
    ctx.case(case, nontrivial=bool(pairs), part="rename", origin=origin, raised=raised is not None,
             n_values=len(kinds), n_pairs=min(len(pairs), 6), n_inits=sum(1 for k in kinds if k != "plain"),
             permutes=moved >= 2)
    for sig, what in fails:
        ctx.fail(sig, what, case)
    model = {"vnames": out.get("vnames"), "initOf": out.get("initOf"), "dicts": out.get("dicts"), "raised": out.get("raised")}
    impl = dict(after, raised=raised is not None)
    if model != impl and not fails:
        ctx.disagree("names.rename model != convenience.rename_values", case, model, impl)


def _rename_request(kinds, names, pairs):
    init_of = [None if k == "plain" else (1 if k == "init1" else 0) for k in kinds]
    dicts = [[[n, i] for i, (k, n) in enumerate(zip(kinds, names)) if k in ("init0", "input+init0")],
             [[n, i] for i, (k, n) in enumerate(zip(kinds, names)) if k == "init1"]]
    return {"m": "names.rename", "vnames": names, "initOf": init_of, "dicts": dicts, "pairs": pairs}


def _run_rename(ctx: Ctx, ir) -> None:
    cases = list(_rename_cases(ctx))
    for c in load_corpus("C15"):
        if c.get("part") == "rename":
            cases.append((c["kinds"], c["names"], c["pairs"], "corpus"))
    outs = lean_batch_parallel([_rename_request(k, n, p) for k, n, p, _ in cases])
    for (kinds, names, pairs, origin), out in zip(cases, outs):
        _check_rename_case(ctx, ir, kinds, names, pairs, origin, out)


def run(ctx: Ctx) -> None:
    import onnx_ir as ir

    ctx.rule = (
        "a case is one history (authority), one model (NameFixPass) or one rename assignment; distinct by the "
        "canonical op list / model / assignment; non-trivial = at least one generated or changed name"
    )
    _run_authority(ctx, ir)
    _run_namefix(ctx, ir)
    _run_rename(ctx, ir)


def replay(ctx: Ctx, obj: dict) -> None:
    import onnx_ir as ir

    case = obj.get("case") or {}
    if isinstance(case, dict) and case.get("part") == "namefix":
        out = lean_batch_parallel([_fix_request(case["spec"])])[0]
        _check_fix_case(ctx, ir, case["spec"], out, "replay")
    elif isinstance(case, dict) and case.get("part") == "authority":
        _replay_authority(ctx, ir, case["script"])
    elif isinstance(case, dict) and case.get("part") == "rename":
        out = lean_batch_parallel([_rename_request(case["kinds"], case["names"], case["pairs"])])[0]
        _check_rename_case(ctx, ir, case["kinds"], case["names"], case["pairs"], "replay", out)
    else:
        run(ctx)
